"""
Behaviour checks for refactoring 3 (consistent renaming of private attributes,
methods and local variables; local aliases for attribute chains; %-formatting; walrus
assignment in ``__aexit__``).

Everything here goes through the public API only.
"""

from __future__ import annotations

import re
import sys
from typing import Any

import pytest
from anyio import Event, create_task_group, sleep
from anyio.lowlevel import checkpoint

from asphalt.core import (
    Component,
    Context,
    NoCurrentContext,
    ResourceNotFound,
    add_teardown_callback,
    context_teardown,
    current_context,
    start_component,
)

if sys.version_info < (3, 11):
    from exceptiongroup import BaseExceptionGroup, ExceptionGroup

pytestmark = pytest.mark.anyio()


class TestConstruction:
    async def test_parent_defaults_to_current_context(self) -> None:
        assert Context().parent is None
        async with Context() as root:
            assert root.parent is None
            first = Context()
            async with first:
                second = Context()
                explicit = Context(root)

            third = Context()

        assert first.parent is root
        assert second.parent is first
        assert explicit.parent is root
        assert third.parent is root
        # An unentered context can still be created with a closed parent
        orphan = Context(root)
        assert orphan.parent is root

    async def test_bogus_parent_raises_attribute_error(self) -> None:
        with pytest.raises(AttributeError, match="_resources"):
            Context("not a context")  # type: ignore[arg-type]

    async def test_snapshot_of_parent_resources(self) -> None:
        async with Context() as root:
            root.add_resource(1, "a")
            root.add_resource_factory(lambda: "generated", "g", types=[str])
            assert root.get_resource_nowait(str, "g") == "generated"
            child = Context()
            root.add_resource(2, "b")
            root.add_resource_factory(lambda: 3.5, "late", types=[float])
            async with child:
                assert child.get_resources(int) == {"a": 1}
                assert child.get_resources(str) == {}
                with pytest.raises(ResourceNotFound):
                    child.get_resource_nowait(float, "late")

                assert child.get_resource_nowait(str, "g") == "generated"

    async def test_parent_inside_component(self) -> None:
        found: list[Any] = []

        class Inner(Component):
            async def start(self) -> None:
                found.append(Context().parent)

        class Outer(Component):
            def __init__(self) -> None:
                self.add_component("inner", Inner)

            async def start(self) -> None:
                found.append(Context().parent)

        async with Context() as root:
            await start_component(Outer)

        assert found == [root, root]


class TestLifecycle:
    async def test_state_errors_from_every_entry_point(self) -> None:
        ctx = Context()
        not_entered = "^this context has not been entered yet$"
        with pytest.raises(RuntimeError, match=not_entered):
            ctx.add_teardown_callback(lambda: None)
        with pytest.raises(RuntimeError, match=not_entered):
            ctx.add_resource(1)
        with pytest.raises(RuntimeError, match=not_entered):
            ctx.add_resource_factory(lambda: 1, types=[int])
        with pytest.raises(RuntimeError, match=not_entered):
            ctx.get_resource_nowait(int)
        with pytest.raises(RuntimeError, match=not_entered):
            await ctx.get_resource(int)

        async with ctx:
            with pytest.raises(RuntimeError, match="^this context has already been e"):
                async with ctx:
                    pass  # pragma: no cover

        closed = "^this context has already been closed$"
        with pytest.raises(RuntimeError, match=closed):
            ctx.add_teardown_callback(lambda: None)
        with pytest.raises(RuntimeError, match=closed):
            ctx.add_resource(1)
        with pytest.raises(RuntimeError, match=closed):
            ctx.add_resource_factory(lambda: 1, types=[int])
        with pytest.raises(RuntimeError, match=closed):
            ctx.get_resource_nowait(int)
        with pytest.raises(RuntimeError, match=closed):
            await ctx.get_resource(int)
        with pytest.raises(RuntimeError, match=closed):
            async with ctx:
                pass  # pragma: no cover

    async def test_closed_property_through_lifecycle(self) -> None:
        observed: list[bool] = []
        ctx = Context()
        observed.append(ctx.closed)
        async with Context():
            async with ctx:
                observed.append(ctx.closed)
                ctx.add_teardown_callback(lambda: observed.append(ctx.closed))

            observed.append(ctx.closed)

        assert observed == [False, False, True, True]

    async def test_context_variable_restored_on_error(self) -> None:
        async with Context() as root:
            with pytest.raises(ZeroDivisionError):
                async with Context():
                    async with Context():
                        1 / 0

            assert current_context() is root

        with pytest.raises(NoCurrentContext):
            current_context()

    async def test_sibling_contexts_in_concurrent_tasks(self) -> None:
        release = Event()
        entered: list[Context] = []
        parents: list[Context | None] = []

        async def worker() -> None:
            async with Context() as ctx:
                entered.append(ctx)
                parents.append(ctx.parent)
                assert current_context() is ctx
                await release.wait()
                assert current_context() is ctx

        async with Context() as root:
            async with create_task_group() as tg:
                for _ in range(3):
                    tg.start_soon(worker)

                while len(entered) < 3:
                    await checkpoint()

                assert current_context() is root
                release.set()

            assert all(ctx.closed for ctx in entered)
            assert parents == [root] * 3

        # No stack corruption was reported, so all children were unregistered
        assert root.closed

    async def test_children_unregistered_even_when_teardown_fails(self) -> None:
        def fail() -> None:
            raise ValueError("child teardown failure")

        async with Context():
            async with Context() as parent:
                for _ in range(2):
                    with pytest.raises(ExceptionGroup):
                        async with Context() as child:
                            child.add_teardown_callback(fail)

                    assert child.closed

            # ``parent`` exited cleanly -> the failed children were not left behind
            assert parent.closed

    async def test_corruption_message_format(self) -> None:
        async with Context():
            for num_children in (1, 3):
                outer = Context()
                inners = [Context(outer) for _ in range(num_children)]
                with pytest.raises(RuntimeError) as exc:
                    async with outer:
                        for inner in inners:
                            await inner.__aenter__()

                message = str(exc.value)
                assert message == (
                    "Context stack corruption detected: context "
                    + format(id(outer), "x")
                    + f" still has {num_children} active child context(s)"
                )
                assert re.fullmatch(
                    r"Context stack corruption detected: context [0-9a-f]+ still has "
                    r"\d active child context\(s\)",
                    message,
                )
                for inner in reversed(inners):
                    assert await inner.__aexit__(None, None, None) is False

    async def test_aexit_does_not_suppress(self) -> None:
        async with Context():
            ctx = Context()
            assert await ctx.__aenter__() is ctx
            try:
                raise ValueError("x")
            except ValueError as exc:
                result = await ctx.__aexit__(type(exc), exc, exc.__traceback__)

            assert result is False
            assert ctx.closed


class TestTeardown:
    async def test_callbacks_added_during_teardown_run_immediately_after(self) -> None:
        trace: list[str] = []

        def make(label: str, *children: str) -> Any:
            def callback() -> None:
                trace.append(label)
                for child in children:
                    ctx.add_teardown_callback(make(child))

            return callback

        async with Context():
            async with Context() as ctx:
                ctx.add_teardown_callback(make("a"))
                ctx.add_teardown_callback(make("b", "b1", "b2"))
                ctx.add_teardown_callback(make("c"))

        assert trace == ["c", "b", "b2", "b1", "a"]

    async def test_mixed_sync_async_and_exception_passing(self) -> None:
        trace: list[Any] = []

        async def async_cb(exc: BaseException | None) -> None:
            trace.append(("async before", type(exc)))
            await sleep(0.01)
            trace.append(("async after", type(exc)))

        def sync_cb(exc: BaseException | None) -> None:
            trace.append(("sync", type(exc)))

        async with Context():
            with pytest.raises(IndexError):
                async with Context() as ctx:
                    ctx.add_teardown_callback(sync_cb, pass_exception=True)
                    ctx.add_teardown_callback(async_cb, pass_exception=True)
                    add_teardown_callback(lambda: trace.append("plain"))
                    raise IndexError

        assert trace == [
            "plain",
            ("async before", IndexError),
            ("async after", IndexError),
            ("sync", IndexError),
        ]

    async def test_exception_passed_is_block_exception_not_handled_one(self) -> None:
        seen: list[Any] = []
        async with Context():
            try:
                raise KeyError("being handled by surrounding code")
            except KeyError:
                async with Context() as ctx:
                    ctx.add_teardown_callback(seen.append, True)

        assert seen == [None]

    async def test_error_group_contents_and_cause(self) -> None:
        class Custom(Exception):
            pass

        async def async_fail() -> None:
            await checkpoint()
            raise Custom("async")

        def sync_fail(exc: BaseException | None) -> None:
            raise Custom(f"sync saw {exc!r}")

        original = ValueError("original")
        done: list[str] = []
        async with Context():
            with pytest.raises(ExceptionGroup) as excinfo:
                async with Context() as ctx:
                    ctx.add_teardown_callback(lambda: done.append("ok 1"))
                    ctx.add_teardown_callback(sync_fail, True)
                    ctx.add_teardown_callback(lambda: done.append("ok 2"))
                    ctx.add_teardown_callback(async_fail)
                    raise original

        group = excinfo.value
        assert group.message == "Exceptions were raised during context teardown"
        assert [str(e) for e in group.exceptions] == [
            "async",
            "sync saw ValueError('original')",
        ]
        assert group.__cause__ is original
        assert group.__suppress_context__ is True
        assert done == ["ok 2", "ok 1"]

    async def test_base_exception_group(self) -> None:
        def interrupt() -> None:
            raise KeyboardInterrupt

        async with Context():
            with pytest.raises(BaseExceptionGroup) as excinfo:
                async with Context() as ctx:
                    ctx.add_teardown_callback(interrupt)

        assert not isinstance(excinfo.value, ExceptionGroup)
        assert isinstance(excinfo.value.exceptions[0], KeyboardInterrupt)
        assert excinfo.value.__cause__ is None

    async def test_not_callable(self) -> None:
        async with Context() as ctx:
            for bogus in (None, 1, "str", object()):
                with pytest.raises(TypeError, match="^callback must be a callable$"):
                    ctx.add_teardown_callback(bogus)  # type: ignore[arg-type]

    async def test_context_teardown_decorator(self) -> None:
        trace: list[Any] = []

        @context_teardown
        async def start() -> Any:
            trace.append("started")
            exc = yield
            trace.append(("teardown", type(exc)))

        async with Context():
            with pytest.raises(LookupError):
                async with Context():
                    await start()
                    trace.append("running")
                    raise LookupError

            async with Context():
                await start()

        assert trace == [
            "started",
            "running",
            ("teardown", LookupError),
            "started",
            ("teardown", type(None)),
        ]

    async def test_teardown_runs_before_root_task_group_exits(self) -> None:
        trace: list[str] = []

        async def background() -> None:
            try:
                await sleep(10)
            finally:
                trace.append("background task finished")

        async with Context() as root:
            await root.start_service_task(background, "bg")
            await checkpoint()
            root.add_teardown_callback(lambda: trace.append("teardown callback"))

        trace.append("exited")
        assert trace == [
            "teardown callback",
            "background task finished",
            "exited",
        ]
