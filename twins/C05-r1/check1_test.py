"""
Behaviour check for refactoring 1 (extraction of the "start the children" step of
``_start_component`` into a helper).

Exercises the ordering part of property C05 through the public API only:
construct all -> prepare -> children (concurrently) -> start, each exactly once.
"""

from __future__ import annotations

import random
from typing import Any

import anyio
import pytest

from asphalt.core import (
    Component,
    ComponentStartError,
    Context,
    add_resource,
    get_resource,
    get_resource_nowait,
    start_component,
)

pytestmark = pytest.mark.anyio()


class Recorder:
    def __init__(self) -> None:
        self.events: list[tuple[str, str]] = []

    def log(self, what: str, name: str) -> None:
        self.events.append((what, name))

    def index(self, what: str, name: str) -> int:
        matches = [i for i, ev in enumerate(self.events) if ev == (what, name)]
        assert len(matches) == 1, f"{(what, name)} occurred {len(matches)} times"
        return matches[0]

    def count(self, what: str, name: str) -> int:
        return self.events.count((what, name))


def make_tree_class(
    rec: Recorder,
    name: str,
    spec: dict[str, Any],
    delays: dict[tuple[str, str], float],
    tree: dict[str, list[str]],
    kinds: dict[str, str],
) -> type[Component]:
    """
    Build a component class from a nested spec:
    ``{"kind": "both"|"prepare"|"start"|"none", "children": {alias: spec}}``
    """
    kind = spec.get("kind", "both")
    children = spec.get("children", {})
    child_classes = {
        alias: make_tree_class(
            rec, f"{name}.{alias}" if name else alias, child, delays, tree, kinds
        )
        for alias, child in children.items()
    }
    tree[name] = [f"{name}.{alias}" if name else alias for alias in children]
    kinds[name] = kind

    class Node(Component):
        def __init__(self) -> None:
            rec.log("init", name)
            for alias, cls in child_classes.items():
                self.add_component(alias, cls)

    if kind in ("both", "prepare"):

        async def prepare(self: Component) -> None:
            rec.log("prepare>", name)
            await anyio.sleep(delays.get((name, "prepare"), 0))
            rec.log("prepare<", name)

        Node.prepare = prepare  # type: ignore[method-assign]

    if kind in ("both", "start"):

        async def start(self: Component) -> None:
            rec.log("start>", name)
            await anyio.sleep(delays.get((name, "start"), 0))
            rec.log("start<", name)

        Node.start = start  # type: ignore[method-assign]

    Node.__qualname__ = f"Node[{name or 'root'}]"
    return Node


def descendants(tree: dict[str, list[str]], name: str) -> list[str]:
    result: list[str] = []
    for child in tree[name]:
        result.append(child)
        result.extend(descendants(tree, child))

    return result


def check_order(rec: Recorder, tree: dict[str, list[str]], kinds: dict[str, str]) -> None:
    names = list(tree)
    # Everything constructed exactly once, and before any prepare()/start()
    last_init = max(rec.index("init", n) for n in names)
    first_other = min(
        (i for i, (what, _) in enumerate(rec.events) if what != "init"),
        default=len(rec.events),
    )
    assert last_init < first_other

    for name in names:
        has_prepare = kinds[name] in ("both", "prepare")
        has_start = kinds[name] in ("both", "start")
        assert rec.count("prepare>", name) == (1 if has_prepare else 0)
        assert rec.count("prepare<", name) == (1 if has_prepare else 0)
        assert rec.count("start>", name) == (1 if has_start else 0)
        assert rec.count("start<", name) == (1 if has_start else 0)
        for desc in descendants(tree, name):
            for what in ("prepare>", "start>"):
                if has_prepare and rec.count(what, desc):
                    assert rec.index("prepare<", name) < rec.index(what, desc)

            if has_start and rec.count("start<", desc):
                assert rec.index("start<", desc) < rec.index("start>", name)

        if has_prepare and has_start:
            assert rec.index("prepare<", name) < rec.index("start>", name)


SPEC: dict[str, Any] = {
    "kind": "both",
    "children": {
        "a": {
            "kind": "both",
            "children": {
                "a1": {"kind": "start"},
                "a2": {"kind": "prepare", "children": {"a2x": {"kind": "both"}}},
                "a3": {"kind": "none"},
            },
        },
        "b": {
            "kind": "none",
            "children": {"b1": {"kind": "both"}, "b2": {"kind": "both"}},
        },
        "c": {"kind": "both"},
        "d": {"kind": "start", "children": {"d1": {"kind": "prepare"}}},
    },
}


@pytest.mark.parametrize("seed", [0, 1, 2, 3])
async def test_tree_order_random_durations(seed: int) -> None:
    rng = random.Random(seed)
    rec = Recorder()
    tree: dict[str, list[str]] = {}
    kinds: dict[str, str] = {}

    class Delays(dict):  # type: ignore[type-arg]
        def get(self, key: Any, default: Any = None) -> Any:
            if key not in self:
                self[key] = rng.choice([0, 0, 0.01, 0.02, 0.05])

            return self[key]

    root_class = make_tree_class(rec, "", SPEC, Delays(), tree, kinds)
    async with Context():
        with anyio.fail_after(5):
            root = await start_component(root_class)

        assert isinstance(root, root_class)
        # start_component returns only after the root's start() has returned
        assert rec.events[-1] == ("start<", "")
        check_order(rec, tree, kinds)


async def test_children_started_concurrently() -> None:
    """All children of a component are running at the same time."""
    running: set[str] = set()
    all_running = anyio.Event()
    seen: list[frozenset[str]] = []

    class Child(Component):
        def __init__(self, name: str) -> None:
            self.name = name

        async def start(self) -> None:
            running.add(self.name)
            if len(running) == 4:
                all_running.set()

            await all_running.wait()
            seen.append(frozenset(running))

    class Root(Component):
        def __init__(self) -> None:
            for name in "wxyz":
                self.add_component(name, Child, name=name)

        async def start(self) -> None:
            seen.append(frozenset({"root"}))

    async with Context():
        with anyio.fail_after(3):
            await start_component(Root)

    assert seen[:-1] == [frozenset("wxyz")] * 4
    assert seen[-1] == frozenset({"root"})


async def test_sibling_resource_chain_any_declaration_order() -> None:
    """An acyclic chain of siblings waiting for each other's resources completes."""
    order: list[str] = []

    class Link(Component):
        def __init__(self, index: int, last: int) -> None:
            self.index = index
            self.last = last

        async def start(self) -> None:
            if self.index < self.last:
                value = await get_resource(int, f"r{self.index + 1}")
                assert value == self.index + 1

            await anyio.sleep(0.01)
            order.append(f"r{self.index}")
            add_resource(self.index, f"r{self.index}")

    class Root(Component):
        def __init__(self) -> None:
            # Declared so that every component waits for one declared after it
            for i in range(5):
                self.add_component(f"link{i}", Link, index=i, last=4)

        async def start(self) -> None:
            for i in range(5):
                assert get_resource_nowait(int, f"r{i}") == i

            order.append("root")

    async with Context():
        with anyio.fail_after(3):
            await start_component(Root)

        assert order == ["r4", "r3", "r2", "r1", "r0", "root"]
        assert get_resource_nowait(int, "r0") == 0


async def test_parent_prepare_resource_visible_to_children_and_back() -> None:
    class Child(Component):
        async def prepare(self) -> None:
            assert get_resource_nowait(str, "from_parent") == "p"

        async def start(self) -> None:
            add_resource(3.5, "from_child")

    class Root(Component):
        def __init__(self) -> None:
            self.add_component("child", Child)
            self.got: float | None = None

        async def prepare(self) -> None:
            add_resource("p", "from_parent")

        async def start(self) -> None:
            self.got = get_resource_nowait(float, "from_child")

    async with Context():
        root = await start_component(Root)
        assert root.got == 3.5


async def test_child_failure_cancels_siblings_and_skips_parent_start() -> None:
    events: list[str] = []

    class Bad(Component):
        async def start(self) -> None:
            await anyio.sleep(0.01)
            raise ValueError("boom")

    class Slow(Component):
        async def start(self) -> None:
            events.append("slow started")
            try:
                await anyio.sleep(5)
            except BaseException:
                events.append("slow cancelled")
                raise

            events.append("slow finished")

    class Root(Component):
        def __init__(self) -> None:
            self.add_component("slow", Slow)
            self.add_component("bad", Bad)

        async def start(self) -> None:
            events.append("root start")

    with pytest.raises(ComponentStartError, match="error starting component 'bad'") as exc:
        async with Context():
            with anyio.fail_after(3):
                await start_component(Root)

    assert isinstance(exc.value.__cause__, ValueError)
    assert events == ["slow started", "slow cancelled"]


async def test_two_child_failures_give_exception_group() -> None:
    class Bad(Component):
        async def start(self) -> None:
            raise ValueError("boom")

    class Root(Component):
        def __init__(self) -> None:
            self.add_component("bad1", Bad)
            self.add_component("bad2", Bad)

    with pytest.raises(ExceptionGroup) as exc:
        async with Context():
            await start_component(Root, timeout=None)

    def shape(e: BaseException) -> Any:
        if isinstance(e, BaseExceptionGroup):
            # (trio randomises the order in which sibling tasks run)
            return sorted((shape(sub) for sub in e.exceptions), key=repr)

        return (type(e).__name__, str(e).split(" (")[0], type(e.__cause__).__name__)

    # The context's own task group wraps the (uncoalesced) group of the two failures
    assert shape(exc.value) == [
        [
            ("ComponentStartError", "error starting component 'bad1'", "ValueError"),
            ("ComponentStartError", "error starting component 'bad2'", "ValueError"),
        ]
    ]
