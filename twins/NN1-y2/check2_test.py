"""
Behaviour checks for refactoring 2 (parent resolution and inheritance in
``Context.__init__``; registration with the parent and with the "current context"
variable in ``Context.__aenter__``).  Everything goes through the public API.
"""

from __future__ import annotations

import sys
from typing import Any

import pytest
from anyio import create_task_group, get_cancelled_exc_class, move_on_after, sleep
from anyio.lowlevel import checkpoint

from asphalt.core import (
    Component,
    Context,
    NoCurrentContext,
    ResourceConflict,
    ResourceNotFound,
    add_resource,
    current_context,
    get_resource_nowait,
    start_component,
)

if sys.version_info < (3, 11):
    from exceptiongroup import BaseExceptionGroup

pytestmark = pytest.mark.anyio()


def collect_leaves(exc: BaseException) -> list[BaseException]:
    if isinstance(exc, BaseExceptionGroup):
        return [leaf for sub in exc.exceptions for leaf in collect_leaves(sub)]

    return [exc]


async def test_root_context_has_no_parent() -> None:
    ctx = Context()
    assert ctx.parent is None
    async with ctx:
        assert ctx.parent is None
        assert ctx.get_resources(int) == {}

    assert ctx.parent is None


async def test_implicit_and_explicit_parent() -> None:
    async with Context() as root:
        async with Context() as child:
            assert child.parent is root
            # An explicit parent wins over the current context
            sibling = Context(root)
            assert sibling.parent is root
            implicit = Context()
            assert implicit.parent is child
            async with sibling:
                assert current_context() is sibling
                grandchild = Context()
                assert grandchild.parent is sibling

            assert current_context() is child


async def test_parent_is_fixed_at_construction() -> None:
    async with Context() as root:
        pending = Context()
        async with Context() as other:
            # The parent was picked when the context was created, not when entered
            async with pending:
                assert pending.parent is root
                assert current_context() is pending

            assert current_context() is other


async def test_unentered_root_cannot_be_a_parent() -> None:
    unentered = Context()
    with pytest.raises(AttributeError, match="_task_group"):
        Context(unentered)

    # ...but an already closed one still has its task group attribute
    async with Context() as closed_root:
        closed_root.add_resource(1)

    orphan = Context(closed_root)
    assert orphan.parent is closed_root


async def test_resources_inherited_as_snapshot() -> None:
    def factory() -> float:
        return 1.5

    def late_factory() -> bytes:
        return b"late"

    async with Context() as root:
        root.add_resource("static", "name1")
        root.add_resource_factory(factory, "gen")
        # Generate a resource in the parent: it must not be inherited
        assert root.get_resource_nowait(float, "gen") == 1.5
        async with Context() as child:
            assert child.get_resource_nowait(str, "name1") == "static"
            assert child.get_resources(str) == {"name1": "static"}
            # Later additions to the parent are not seen by the existing child...
            root.add_resource("later", "name2")
            root.add_resource_factory(late_factory, "late")
            assert child.get_resource_nowait(str, "name2", optional=True) is None
            with pytest.raises(ResourceNotFound):
                child.get_resource_nowait(bytes, "late")

            # ...and additions to the child are not seen by the parent
            child.add_resource(7, "seven")
            assert root.get_resource_nowait(int, "seven", optional=True) is None
            # Inherited names conflict
            with pytest.raises(ResourceConflict):
                child.add_resource("dupe", "name1")

            with pytest.raises(ResourceConflict):
                child.add_resource_factory(factory, "gen")

        async with Context() as child2:
            assert child2.get_resources(str) == {"name1": "static", "name2": "later"}
            assert child2.get_resource_nowait(bytes, "late") == b"late"
            assert child2.get_resource_nowait(int, "seven", optional=True) is None


async def test_generated_resources_are_per_context() -> None:
    created: list[Context] = []

    def factory() -> list[Any]:
        created.append(current_context())
        return [len(created)]

    async with Context() as root:
        root.add_resource_factory(factory, types=[list])
        root_value = root.get_resource_nowait(list)
        async with Context() as child:
            child_value = child.get_resource_nowait(list)
            assert child_value is not root_value
            assert child.get_resource_nowait(list) is child_value
            async with Context() as grandchild:
                grandchild_value = grandchild.get_resource_nowait(list)
                assert grandchild_value is not child_value

        assert root.get_resource_nowait(list) is root_value

    assert created == [root, child, grandchild]
    assert (root_value, child_value, grandchild_value) == ([1], [2], [3])


async def test_child_shares_task_group_of_root() -> None:
    events: list[str] = []

    async def service() -> None:
        events.append("service started")
        try:
            await sleep(10)
        finally:
            events.append("service stopped")

    async with Context() as root:
        async with Context() as child:
            await child.start_service_task(service, "svc")
            await checkpoint()
            events.append("child body done")

        events.append("child closed")
        await checkpoint()

    events.append("root closed")
    assert events == [
        "service started",
        "child body done",
        "service stopped",
        "child closed",
        "root closed",
    ]
    del root


async def test_component_context_is_never_a_parent() -> None:
    seen: dict[str, Any] = {}

    class ChildComponent(Component):
        async def start(self) -> None:
            ctx = Context()
            seen["child_parent"] = ctx.parent
            seen["child_current"] = current_context()
            async with ctx:
                add_resource("scoped")
                seen["child_scoped"] = get_resource_nowait(str)

    class RootComponent(Component):
        def __init__(self) -> None:
            self.add_component("child", ChildComponent)

        async def start(self) -> None:
            ctx = Context()
            seen["root_parent"] = ctx.parent
            seen["root_current"] = current_context()
            explicit = Context(current_context())
            seen["explicit_parent"] = explicit.parent
            add_resource(42, "answer")

    async with Context() as root:
        await start_component(RootComponent)
        assert current_context() is root
        assert seen["root_parent"] is root
        assert seen["child_parent"] is root
        assert seen["explicit_parent"] is root
        assert seen["root_current"] is not root
        assert seen["child_current"] is not root
        assert seen["child_current"] is not seen["root_current"]
        assert seen["root_current"].parent is root
        assert seen["child_current"].parent is root
        assert seen["child_scoped"] == "scoped"
        assert root.get_resource_nowait(int, "answer") == 42
        assert root.get_resource_nowait(str, optional=True) is None


async def test_unclosed_child_is_detected() -> None:
    root = Context()
    with pytest.raises(RuntimeError) as exc:
        async with root:
            child = Context()
            await child.__aenter__()
            grandchild = Context()
            assert grandchild.parent is child

    assert str(exc.value) == (
        f"Context stack corruption detected: context {id(root):x} still has 1 "
        f"active child context(s)"
    )
    assert root.closed
    assert not child.closed
    # The root context restored the "current context" to what it was when the root was
    # entered; the child then restores it to what it was when the child was entered
    with pytest.raises(NoCurrentContext):
        current_context()

    await child.__aexit__(None, None, None)
    assert child.closed
    assert current_context() is root


async def test_children_unregister_on_exit() -> None:
    async with Context() as root:
        for _ in range(3):
            async with Context() as child:
                assert child.parent is root

        with pytest.raises(LookupError):
            async with Context():
                raise LookupError("body failed")

        async with create_task_group() as tg:
            for _ in range(3):

                async def worker() -> None:
                    async with Context() as ctx:
                        assert ctx.parent is root
                        await sleep(0.01)

                tg.start_soon(worker)

    # No "stack corruption" error: all the children were unregistered again
    assert root.closed


async def test_failed_enter_of_open_context_changes_nothing() -> None:
    async with Context() as root:
        async with Context() as child:
            with pytest.raises(RuntimeError, match="already been entered"):
                await child.__aenter__()

            assert current_context() is child
            assert not child.closed

        assert current_context() is root

    with pytest.raises(NoCurrentContext):
        current_context()


async def test_teardown_order_relative_to_current_context_and_parent() -> None:
    events: list[str] = []
    async with Context() as root:
        child = Context()
        async with child:

            async def callback(exc: BaseException | None) -> None:
                events.append(f"exc={exc!r}")
                events.append(f"current is child: {current_context() is child}")
                await checkpoint()
                # Teardown callbacks run before the child is detached from the parent,
                # so closing the parent now would be reported as stack corruption
                events.append(f"closed={child.closed}")

            child.add_teardown_callback(callback, pass_exception=True)

        events.append(f"current is root: {current_context() is root}")

    assert events == [
        "exc=None",
        "current is child: True",
        "closed=True",
        "current is root: True",
    ]


async def test_cancellation_during_teardown() -> None:
    events: list[str] = []
    async with Context() as root:
        with move_on_after(0.05) as scope:
            async with Context() as child:

                async def slow_teardown() -> None:
                    events.append("teardown started")
                    try:
                        await sleep(10)
                    except get_cancelled_exc_class():
                        events.append("teardown cancelled")
                        raise

                child.add_teardown_callback(slow_teardown)
                child.add_teardown_callback(lambda: events.append("first callback"))

        assert scope.cancelled_caught
        assert child.closed
        assert current_context() is root
        # The child was unregistered: a new child can come and go, root closes cleanly
        async with Context() as another:
            assert another.parent is root

    assert events == ["first callback", "teardown started", "teardown cancelled"]


async def test_body_exception_passed_through_root() -> None:
    received: list[BaseException | None] = []
    error = ValueError("body failed")
    with pytest.raises(ValueError) as exc:
        async with Context() as root:
            root.add_teardown_callback(received.append, pass_exception=True)
            raise error

    assert exc.value is error
    assert received == [error]
    assert root.closed
    with pytest.raises(NoCurrentContext):
        current_context()


async def test_background_task_failure_propagates_from_root() -> None:
    async def fail() -> None:
        raise KeyError("task failed")

    with pytest.raises(BaseException) as exc:
        async with Context() as root:
            factory = await root.start_background_task_factory()
            factory.start_task_soon(fail)
            await sleep(1)

    assert [type(e) for e in collect_leaves(exc.value)] == [KeyError]
    assert root.closed
    with pytest.raises(NoCurrentContext):
        current_context()


async def test_two_task_failures_reported_as_group() -> None:
    async def fail_a() -> None:
        raise KeyError("a")

    async def fail_b() -> None:
        raise IndexError("b")

    with pytest.raises(BaseExceptionGroup) as exc:
        async with Context() as root:
            async with Context() as child:
                factory = await child.start_background_task_factory()
                factory.start_task_soon(fail_a)
                factory.start_task_soon(fail_b)
                await sleep(1)

    names = sorted(type(e).__name__ for e in collect_leaves(exc.value))
    assert names == ["IndexError", "KeyError"]
    assert root.closed and child.closed
