"""
Behaviour checks for refactoring 3 (the status report of
``_watch_component_tree_startup`` built by module level generators, and the private
attribute holding the pending ``prepare()`` / ``start()`` coroutine renamed).

Everything goes through the public API (``start_component``, ``run_application``,
``Component``, ``Context``). The file passes on the unchanged source and with
refactor3.diff applied.
"""

from __future__ import annotations

import logging
import re
from collections.abc import Generator
from typing import Any

import anyio
import pytest
from anyio import Event
from pytest import LogCaptureFixture

from asphalt.core import (
    Component,
    ComponentStartError,
    Context,
    add_resource,
    get_resource,
    get_resource_nowait,
    run_application,
    start_component,
)

pytestmark = pytest.mark.anyio()

PREFIX = f"{__name__}."
STATUS_TITLE = "Current status of the components still waiting to finish startup"
STACKS_TITLE = "Stack summaries of components still waiting to start"
HEAD = (
    "Timeout waiting for the component tree to start\n"
    "\n"
    f"{STATUS_TITLE}\n"
    f"{'-' * len(STATUS_TITLE)}\n"
    "\n"
)
STACKS_HEAD = f"\n\n{STACKS_TITLE}\n{'-' * len(STACKS_TITLE)}\n\n"
outcomes: list[str] = []


@pytest.fixture(autouse=True)
def reset_outcomes() -> None:
    outcomes.clear()


def split_report(message: str) -> tuple[str, list[tuple[str, str, str]]]:
    """Return the status lines and the (path, class name, stack) entries."""
    assert message.startswith(HEAD)
    status, separator, stacks = message[len(HEAD) :].partition(STACKS_HEAD)
    assert separator, "no stack summaries section"
    entries = []
    for chunk in re.split(r"\n\n(?=\S)", stacks):
        title, _, body = chunk.partition("\n")
        match = re.fullmatch(r"(\S*) \((\S+)\):", title)
        assert match, title
        entries.append((match.group(1), match.group(2), body))

    return status, entries


class Waiter(Component):
    """Waits for a resource that never arrives, in the configured method."""

    def __init__(self, name: str, where: str = "start") -> None:
        self.name = name
        self.where = where

    async def wait_forever(self) -> None:
        try:
            await get_resource(complex, "missing")
        except BaseException as exc:
            outcomes.append(f"{self.name}:{type(exc).__name__}")
            raise

    async def prepare(self) -> None:
        if self.where == "prepare":
            await self.wait_forever()

    async def start(self) -> None:
        if self.where == "start":
            await self.wait_forever()


class Quick(Component):
    async def start(self) -> None:
        await anyio.sleep(0)


class Forever:
    """An awaitable that is not a coroutine (so it has no frames to show)."""

    def __await__(self) -> Generator[Any, Any, None]:
        yield from anyio.sleep(10).__await__()


class OddWaiter(Component):
    def start(self) -> Any:
        return Forever()


class Level2(Component):
    def __init__(self) -> None:
        self.add_component("w/b", Waiter, name="w2b", where="prepare")
        self.add_component("quick", Quick)
        self.add_component("odd", OddWaiter)


class Level1(Component):
    def __init__(self) -> None:
        self.add_component("quick/a", Quick)
        self.add_component("w", Waiter, name="w1")
        self.add_component("level2", Level2)
        self.add_component("plain", Component)

    async def prepare(self) -> None:
        add_resource("prepared")

    async def start(self) -> None:
        pytest.fail("the children never finish, so this must not be called")


class Root(Component):
    def __init__(self) -> None:
        self.add_component("first", Level1)
        self.add_component("finished", Quick)


async def test_report_for_a_mixed_tree(caplog: LogCaptureFixture) -> None:
    caplog.set_level(logging.INFO, "asphalt.core")
    async with Context():
        with pytest.raises(TimeoutError) as exc_info:
            await start_component(Root, timeout=0.2)

        # What did get started before the timeout stays published
        assert get_resource_nowait(str) == "prepared"

    assert type(exc_info.value) is TimeoutError
    assert exc_info.value.args == ("timeout starting component tree",)
    # Both waiting components were cancelled
    cancelled_name = anyio.get_cancelled_exc_class().__name__
    assert sorted(outcomes) == [f"w1:{cancelled_name}", f"w2b:{cancelled_name}"]
    assert len(caplog.records) == 1
    record = caplog.records[0]
    assert (record.name, record.levelno) == ("asphalt.core", logging.ERROR)
    assert record.msg == "%s"
    assert isinstance(record.args, tuple) and len(record.args) == 1
    assert record.funcName == "_watch_component_tree_startup"
    message = record.getMessage()
    assert message == record.args[0]

    status, entries = split_report(message)
    assert status.splitlines() == [
        "(root): starting children",
        "  first: starting children",
        "    w: starting",
        "    level2: starting children",
        "      w/b: preparing",
        "      odd: starting",
    ]
    assert [(path, cls) for path, cls, _ in entries] == [
        ("first.w", f"{PREFIX}Waiter"),
        ("first.level2.w/b", f"{PREFIX}Waiter"),
        ("first.level2.odd", f"{PREFIX}OddWaiter"),
    ]
    stacks = {path: body for path, _, body in entries}
    # Outermost frame first: the component method, then what it is waiting in
    w_functions = re.findall(r", in (\w+)$", stacks["first.w"], flags=re.MULTILINE)
    assert w_functions[:3] == ["start", "wait_forever", "get_resource"]
    wb_functions = re.findall(
        r", in (\w+)$", stacks["first.level2.w/b"], flags=re.MULTILINE
    )
    assert wb_functions[:3] == ["prepare", "wait_forever", "get_resource"]
    assert stacks["first.w"].startswith('  File "')
    assert "await self.wait_forever()" in stacks["first.w"]
    # Nothing to show for an awaitable that is not a coroutine; it is the last entry,
    # so the message ends with its title line
    assert stacks["first.level2.odd"] == ""
    assert message.endswith(f"first.level2.odd ({PREFIX}OddWaiter):\n")


async def test_report_when_the_root_itself_is_stuck(caplog: LogCaptureFixture) -> None:
    class StuckRoot(Component):
        def __init__(self, where: str) -> None:
            self.where = where
            self.add_component("child", Quick)
            self.add_component("other", Waiter, name="other")

        async def prepare(self) -> None:
            if self.where == "prepare":
                await anyio.sleep(5)

        async def start(self) -> None:
            await anyio.sleep(5)

    cls_name = f"{PREFIX}test_report_when_the_root_itself_is_stuck.<locals>.StuckRoot"
    caplog.set_level(logging.INFO, "asphalt.core")
    async with Context():
        with pytest.raises(TimeoutError, match="^timeout starting component tree$"):
            await start_component(StuckRoot, {"where": "prepare"}, timeout=0.1)

    status, entries = split_report(caplog.messages[0])
    # Children that have not been started at all are listed as "initialized"; the
    # root's title in the stack section has an empty path
    assert status.splitlines() == [
        "(root): preparing",
        "  child: initialized",
        "  other: initialized",
    ]
    assert [(path, cls) for path, cls, _ in entries] == [("", cls_name)]
    assert re.findall(r", in (\w+)$", entries[0][2], flags=re.MULTILINE)[0] == "prepare"

    caplog.clear()
    async with Context():
        with pytest.raises(TimeoutError):
            await start_component(
                StuckRoot,
                {"where": "start", "components": {"other": {"where": "nowhere"}}},
                timeout=0.1,
            )

    status, entries = split_report(caplog.messages[0])
    assert status.splitlines() == ["(root): starting"]
    assert [(path, cls) for path, cls, _ in entries] == [("", cls_name)]
    assert re.findall(r", in (\w+)$", entries[0][2], flags=re.MULTILINE)[0] == "start"
    assert len(caplog.messages) == 1


async def test_finished_coroutines_are_not_reported(caplog: LogCaptureFixture) -> None:
    """A component past prepare() shows up with its state, but without a stack."""

    class PreparedParent(Component):
        def __init__(self) -> None:
            self.add_component("stuck", Waiter, name="stuck")

        async def prepare(self) -> None:
            await anyio.sleep(0.01)

    caplog.set_level(logging.INFO, "asphalt.core")
    async with Context():
        with pytest.raises(TimeoutError):
            await start_component(PreparedParent, timeout=0.15)

    status, entries = split_report(caplog.messages[0])
    assert status.splitlines() == ["(root): starting children", "  stuck: starting"]
    assert [path for path, _, _ in entries] == ["stuck"]


async def test_no_report_without_timeout_or_when_done_in_time(
    caplog: LogCaptureFixture,
) -> None:
    class Brief(Component):
        def __init__(self) -> None:
            self.add_component("inner", Quick)

        async def prepare(self) -> None:
            await anyio.sleep(0.1)

        async def start(self) -> None:
            await anyio.sleep(0.1)

    caplog.set_level(logging.INFO, "asphalt.core")
    for timeout in (None, 0, 3, 0.0):
        async with Context():
            with anyio.fail_after(2):
                component = await start_component(Brief, timeout=timeout)

            assert type(component) is Brief

    # The watcher was cancelled (or never started), and nothing lingers after it
    await anyio.sleep(0.05)
    assert caplog.messages == []


async def test_failure_before_the_timeout_wins(caplog: LogCaptureFixture) -> None:
    class Failing(Component):
        async def start(self) -> None:
            await blocker_running.wait()
            raise ConnectionError("refused")

    class Blocker(Component):
        async def start(self) -> None:
            blocker_running.set()
            await anyio.sleep(5)

    class Parent(Component):
        def __init__(self) -> None:
            self.add_component("blocker", Blocker)
            self.add_component("failing", Failing)

    blocker_running = Event()
    caplog.set_level(logging.INFO, "asphalt.core")
    async with Context():
        with pytest.raises(ComponentStartError) as exc_info:
            await start_component(Parent, timeout=1)

    assert exc_info.value.path == "failing"
    assert isinstance(exc_info.value.__cause__, ConnectionError)
    await anyio.sleep(0.05)
    assert caplog.messages == []


async def test_precondition_errors_do_not_start_anything() -> None:
    with pytest.raises(RuntimeError) as exc_info:
        await start_component(Root, timeout=0.1)

    assert str(exc_info.value) == "start_component() requires an active Asphalt context"
    assert exc_info.value.__cause__ is None
    assert exc_info.value.__suppress_context__

    async with Context():
        with pytest.raises(TypeError) as type_exc:
            await start_component(Root, [("components", {})], timeout=0.1)  # type: ignore[call-overload]

        assert str(type_exc.value) == (
            "config must be a dict (or any other mutable mapping) or None"
        )

    assert outcomes == []


def test_report_through_run_application(
    caplog: LogCaptureFixture, anyio_backend_name: str
) -> None:
    caplog.set_level(logging.INFO)
    with pytest.raises(SystemExit) as exc_info:
        run_application(
            Level2,
            {"components": {"odd": {"type": Quick}}},
            start_timeout=0.15,
            backend=anyio_backend_name,
        )

    assert exc_info.value.code == 1
    assert caplog.messages[:2] == ["Running in development mode", "Starting application"]
    assert caplog.messages[-1] == "Application stopped"
    assert len(caplog.messages) == 4
    status, entries = split_report(caplog.messages[2])
    assert status.splitlines() == ["(root): starting children", "  w/b: preparing"]
    assert [(path, cls) for path, cls, _ in entries] == [("w/b", f"{PREFIX}Waiter")]
