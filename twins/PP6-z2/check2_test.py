"""
Behaviour checks for refactoring 2 (``_start_component`` split into phases with a
shared helper for awaiting ``prepare()`` / ``start()``).

Everything goes through the public API. The file passes on the unchanged source and
with refactor2.diff applied.
"""

from __future__ import annotations

import logging
import sys
from collections.abc import Generator
from typing import Any

import anyio
import pytest
from anyio import Event
from pytest import LogCaptureFixture

from asphalt.core import (
    Component,
    ComponentStartError,
    Context,
    add_resource,
    add_teardown_callback,
    current_context,
    get_resource,
    get_resource_nowait,
    get_resources,
    start_component,
)

if sys.version_info < (3, 11):
    from exceptiongroup import BaseExceptionGroup, ExceptionGroup

pytestmark = pytest.mark.anyio()

PREFIX = f"{__name__}."
events: list[str] = []


@pytest.fixture(autouse=True)
def reset_events() -> None:
    events.clear()


def leaves(exc: BaseException) -> list[BaseException]:
    if isinstance(exc, BaseExceptionGroup):
        return [leaf for sub in exc.exceptions for leaf in leaves(sub)]

    return [exc]


class Leaf(Component):
    """Has both prepare() and start(); publishes a resource in each."""

    def __init__(self, name: str = "leaf") -> None:
        self.name = name

    async def prepare(self) -> None:
        events.append(f"{self.name}.prepare")
        add_resource(f"{self.name}/prepared", types=[str])

    async def start(self) -> None:
        events.append(f"{self.name}.start")
        add_resource(self.name.encode(), types=[bytes])


class OnlyPrepare(Component):
    async def prepare(self) -> None:
        events.append("onlyprepare.prepare")
        await anyio.sleep(0.01)


class Chain(Component):
    """root -> inner/x (Middle) -> leaf/y (Leaf); one child per level."""

    def __init__(self) -> None:
        self.add_component("inner/x", Middle)

    async def prepare(self) -> None:
        events.append("chain.prepare")
        add_resource(1.5)

    async def start(self) -> None:
        events.append("chain.start")
        # Everything the descendants published is visible now
        assert get_resource_nowait(bytes, "y") == b"leaf"
        assert get_resource_nowait(int, "x") == 7
        add_resource(2.5, "late")


class Middle(Component):
    def __init__(self) -> None:
        self.add_component("leaf/y", Leaf)
        self.add_component("plain", Component)

    async def start(self) -> None:
        events.append("middle.start")
        assert get_resource_nowait(float) == 1.5
        add_resource(7)


async def test_phase_order_and_logging(caplog: LogCaptureFixture) -> None:
    caplog.set_level(logging.DEBUG, "asphalt.core")
    async with Context():
        component = await start_component(Chain)
        assert isinstance(component, Chain)
        assert get_resources(float) == {"default": 1.5, "late": 2.5}
        assert get_resources(int) == {"x": 7}
        assert get_resources(bytes) == {"y": b"leaf"}
        assert get_resources(str) == {"default": "leaf/prepared"}

    assert events == [
        "chain.prepare",
        "leaf.prepare",
        "leaf.start",
        "middle.start",
        "chain.start",
    ]
    messages = [msg for msg in caplog.messages if not msg.startswith("Creat")]
    assert messages == [
        "Calling prepare() of the root component",
        "The root component added a resource (type=float, name='default')",
        "Returned from prepare() of the root component",
        "Starting the child components of the root component",
        "Starting the child components of component 'inner/x'",
        "Calling prepare() of component 'inner/x.leaf/y'",
        "Component 'inner/x.leaf/y' added a resource (types=[str], name='default')",
        "Returned from prepare() of component 'inner/x.leaf/y'",
        "Calling start() of component 'inner/x.leaf/y'",
        "Component 'inner/x.leaf/y' added a resource (types=[bytes], name='y')",
        "Returned from start() of component 'inner/x.leaf/y'",
        "Calling start() of component 'inner/x'",
        "Component 'inner/x' added a resource (type=int, name='x')",
        "Returned from start() of component 'inner/x'",
        "Calling start() of the root component",
        "The root component added a resource (type=float, name='late')",
        "Returned from start() of the root component",
    ]
    # The format strings and arguments of the records are part of what handlers see
    by_message = {record.getMessage(): record for record in caplog.records}
    record = by_message["Returned from prepare() of component 'inner/x.leaf/y'"]
    assert record.msg == "Returned from prepare() of %s"
    assert record.args == ("component 'inner/x.leaf/y'",)
    record = by_message["Returned from start() of the root component"]
    assert record.msg == "Returned from start() of %s"
    assert record.args == ("the root component",)
    record = by_message["Starting the child components of component 'inner/x'"]
    assert record.msg == "Starting the child components of %s"
    assert record.levelno == logging.DEBUG


async def test_siblings_run_concurrently_and_wait_for_each_other(
    caplog: LogCaptureFixture,
) -> None:
    class Consumer(Component):
        async def start(self) -> None:
            events.append("consumer.waiting")
            consumer_waiting.set()
            value = await get_resource(str, "produced")
            events.append(f"consumer.got:{value}")

    class Producer(Component):
        async def prepare(self) -> None:
            await consumer_waiting.wait()
            events.append("producer.prepare")

        async def start(self) -> None:
            await anyio.sleep(0.05)
            add_resource("hello", "produced")
            events.append("producer.start")

    class Parent(Component):
        def __init__(self) -> None:
            self.add_component("consumer", Consumer)
            self.add_component("producer", Producer)
            self.add_component("bystander", OnlyPrepare)

        async def start(self) -> None:
            events.append("parent.start")

    caplog.set_level(logging.DEBUG, "asphalt.core")
    consumer_waiting = Event()
    async with Context():
        with anyio.fail_after(3):
            await start_component(Parent)

    assert events.index("consumer.waiting") < events.index("producer.prepare")
    assert events.index("producer.start") < events.index("consumer.got:hello")
    assert events[-1] == "parent.start"
    assert sorted(events) == sorted(
        [
            "consumer.waiting",
            "producer.prepare",
            "onlyprepare.prepare",
            "producer.start",
            "consumer.got:hello",
            "parent.start",
        ]
    )
    assert (
        "Component 'consumer' is waiting for another component to provide a resource "
        "(type=str, name='produced')" in caplog.messages
    )
    assert (
        "Component 'consumer' got the resource it was waiting for "
        "(type=str, name='produced')" in caplog.messages
    )
    # A component without start() gets no "Calling start()" line, and vice versa
    assert "Calling prepare() of component 'bystander'" in caplog.messages
    assert "Returned from prepare() of component 'bystander'" in caplog.messages
    assert "Calling start() of component 'bystander'" not in caplog.messages
    assert "Calling prepare() of component 'consumer'" not in caplog.messages
    assert caplog.messages[-2:] == [
        "Calling start() of the root component",
        "Returned from start() of the root component",
    ]


class FailingLeaf(Component):
    def __init__(self, where: str, exc: BaseException) -> None:
        self.where = where
        self.exc = exc

    async def prepare(self) -> None:
        events.append("failing.prepare")
        if self.where == "prepare":
            raise self.exc

    async def start(self) -> None:
        events.append("failing.start")
        if self.where == "start":
            raise self.exc


class Sleeper(Component):
    async def start(self) -> None:
        events.append("sleeper.start")
        try:
            await anyio.sleep(5)
        except BaseException as exc:
            events.append(f"sleeper.{type(exc).__name__}")
            raise


class Branch(Component):
    def __init__(self, **leaf_options: Any) -> None:
        self.add_component("sleeper", Sleeper)
        self.add_component("failing", FailingLeaf, **leaf_options)

    async def prepare(self) -> None:
        events.append("branch.prepare")

    async def start(self) -> None:
        events.append("branch.start")


class Trunk(Component):
    def __init__(self, **leaf_options: Any) -> None:
        self.add_component("branch", Branch, **leaf_options)

    async def start(self) -> None:
        events.append("trunk.start")


@pytest.mark.parametrize("timeout", [None, 5], ids=["notimeout", "timeout"])
@pytest.mark.parametrize("where", ["prepare", "start"])
async def test_nested_failure_is_wrapped_once_and_not_grouped(
    where: str, timeout: float | None, caplog: LogCaptureFixture
) -> None:
    caplog.set_level(logging.DEBUG, "asphalt.core")
    error = LookupError("deep trouble")
    async with Context():
        with pytest.raises(ComponentStartError) as exc_info:
            await start_component(
                Trunk, {"where": where, "exc": error}, timeout=timeout
            )

        # The contexts of the components are gone; the outer one is current again
        assert type(current_context()) is Context

    exc = exc_info.value
    assert exc.phase == ("preparing" if where == "prepare" else "starting")
    assert exc.path == "branch.failing"
    assert exc.component_type is FailingLeaf
    assert exc.args == (exc.phase, "branch.failing", FailingLeaf)
    assert exc.__cause__ is error
    assert str(exc) == (
        f"error {exc.phase} component 'branch.failing' ({PREFIX}FailingLeaf): "
        f"LookupError: deep trouble"
    )
    # The start() methods of the ancestors never ran, and the sibling was cancelled
    assert "branch.start" not in events
    assert "trunk.start" not in events
    assert events[0] == "branch.prepare"
    if "sleeper.start" in events:
        assert events[-1].startswith("sleeper.Cancelled")

    assert ("failing.start" in events) == (where == "start")
    method = "prepare" if where == "prepare" else "start"
    assert f"Calling {method}() of component 'branch.failing'" in caplog.messages
    assert (
        f"Returned from {method}() of component 'branch.failing'"
        not in caplog.messages
    )
    assert "Calling start() of component 'branch'" not in caplog.messages
    assert "Calling start() of the root component" not in caplog.messages


@pytest.mark.parametrize("timeout", [None, 5], ids=["notimeout", "timeout"])
async def test_two_failing_children_give_an_exception_group(
    timeout: float | None,
) -> None:
    class First(Component):
        async def start(self) -> None:
            await second_running.wait()
            raise KeyError("first")

    class Second(Component):
        async def prepare(self) -> None:
            second_running.set()
            try:
                await anyio.sleep(5)
            except BaseException:
                raise OSError("second") from None

    class Parent(Component):
        def __init__(self) -> None:
            self.add_component("one", First)
            self.add_component("two", Second)

        async def start(self) -> None:
            events.append("parent.start")

    second_running = Event()
    async with Context():
        with pytest.raises(ExceptionGroup) as exc_info:
            await start_component(Parent, timeout=timeout)

    errors = leaves(exc_info.value)
    assert len(errors) == 2
    assert all(type(error) is ComponentStartError for error in errors)
    by_path = {error.path: error for error in errors}  # type: ignore[attr-defined]
    assert sorted(by_path) == ["one", "two"]
    assert by_path["one"].phase == "starting"
    assert by_path["one"].component_type is First
    assert isinstance(by_path["one"].__cause__, KeyError)
    assert by_path["two"].phase == "preparing"
    assert by_path["two"].component_type is Second
    assert isinstance(by_path["two"].__cause__, OSError)
    assert str(by_path["two"]) == (
        f"error preparing component 'two' ({PREFIX}"
        f"test_two_failing_children_give_an_exception_group.<locals>.Second): "
        f"OSError: second"
    )
    assert events == []


async def test_root_failures() -> None:
    class RootFails(Component):
        def __init__(self, where: str) -> None:
            self.where = where
            self.add_component("child", Leaf, name="child")

        async def prepare(self) -> None:
            if self.where == "prepare":
                raise ZeroDivisionError

        async def start(self) -> None:
            raise ZeroDivisionError("in start")

    async with Context():
        with pytest.raises(ComponentStartError) as exc_info:
            await start_component(RootFails, {"where": "prepare"})

        assert events == []
        assert exc_info.value.phase == "preparing"
        assert exc_info.value.path == ""
        assert str(exc_info.value) == (
            f"error preparing the root component ({PREFIX}"
            f"test_root_failures.<locals>.RootFails): ZeroDivisionError"
        )

    async with Context():
        with pytest.raises(ComponentStartError) as exc_info:
            await start_component(RootFails, {"where": "start"}, timeout=None)

        # The child was started (and its resources stay) before the root's start()
        assert events == ["child.prepare", "child.start"]
        assert get_resource_nowait(bytes) == b"child"
        assert exc_info.value.phase == "starting"
        assert str(exc_info.value.__cause__) == "in start"
        assert str(exc_info.value).endswith("RootFails): ZeroDivisionError: in start")


class Fatal(BaseException):
    pass


@pytest.mark.parametrize("where", ["prepare", "start"])
async def test_base_exceptions_are_not_wrapped(where: str) -> None:
    error = Fatal("stop everything")
    async with Context():
        with pytest.raises(Fatal) as exc_info:
            await start_component(
                FailingLeaf, {"where": where, "exc": error}, timeout=None
            )

    assert exc_info.value is error
    assert exc_info.value.__cause__ is None


async def test_cancellation_from_outside_passes_through() -> None:
    async with Context():
        with anyio.move_on_after(0.1) as scope:
            await start_component(
                Trunk, {"where": "nowhere", "exc": RuntimeError()}, timeout=None
            )
            pytest.fail("start_component() should not have returned")

        assert scope.cancelled_caught
        assert type(current_context()) is Context

    assert "branch.prepare" in events
    assert "failing.start" in events
    assert "sleeper.start" in events
    assert events[-1].startswith("sleeper.Cancelled")
    assert "branch.start" not in events


async def test_add_component_is_refused_from_prepare_onwards() -> None:
    class LatePrepare(Component):
        async def prepare(self) -> None:
            self.add_component("late", Leaf)

    class LateStart(Component):
        async def start(self) -> None:
            self.add_component("late", Leaf)

    for cls, phase in ((LatePrepare, "preparing"), (LateStart, "starting")):
        async with Context():
            with pytest.raises(ComponentStartError) as exc_info:
                await start_component(cls)

        assert exc_info.value.phase == phase
        assert isinstance(exc_info.value.__cause__, RuntimeError)
        assert str(exc_info.value.__cause__) == (
            "child components cannot be added once start_component() has been called "
            "on the component"
        )

    # A component that has been started once refuses new children afterwards as well
    async with Context():
        component = await start_component(Leaf)
        with pytest.raises(RuntimeError, match="child components cannot be added"):
            component.add_component("more", Leaf)


class Later:
    """An awaitable that is not a coroutine."""

    def __init__(self, label: str, fail: bool = False) -> None:
        self.label = label
        self.fail = fail

    def __await__(self) -> Generator[Any, Any, None]:
        yield from anyio.sleep(0.01).__await__()
        events.append(self.label)
        if self.fail:
            raise ValueError(self.label)


async def test_plain_methods_returning_awaitables() -> None:
    class Odd(Component):
        def __init__(self, fail: bool = False, explode: bool = False) -> None:
            self.fail = fail
            self.explode = explode

        def prepare(self) -> Any:
            events.append("odd.prepare called")
            return Later("odd.prepare awaited")

        def start(self) -> Any:
            events.append("odd.start called")
            if self.explode:
                raise ValueError("raised before an awaitable was returned")

            return Later("odd.start awaited", self.fail)

    async with Context():
        await start_component(Odd)

    assert events == [
        "odd.prepare called",
        "odd.prepare awaited",
        "odd.start called",
        "odd.start awaited",
    ]

    async with Context():
        with pytest.raises(ComponentStartError) as exc_info:
            await start_component(Odd, {"fail": True})

    assert exc_info.value.phase == "starting"
    assert str(exc_info.value.__cause__) == "odd.start awaited"

    # An exception raised by the call itself (not by awaiting its result) is not wrapped
    async with Context():
        with pytest.raises(ValueError, match="raised before an awaitable") as exc_info2:
            await start_component(Odd, {"explode": True}, timeout=None)

    assert exc_info2.value.__cause__ is None


async def test_default_resource_name_depends_on_the_phase() -> None:
    class Publisher(Component):
        async def prepare(self) -> None:
            add_resource("from prepare")
            add_resource(b"explicit", "explicit")

        async def start(self) -> None:
            add_resource(1)
            add_resource(2, "default2")

    class Parent(Component):
        def __init__(self) -> None:
            self.add_component("pub/custom", Publisher)

        async def start(self) -> None:
            add_resource(3.5)

    async with Context():
        await start_component(Parent)
        assert get_resources(str) == {"default": "from prepare"}
        assert get_resources(bytes) == {"explicit": b"explicit"}
        assert get_resources(int) == {"custom": 1, "default2": 2}
        assert get_resources(float) == {"default": 3.5}


async def test_teardown_callbacks_belong_to_the_outer_context() -> None:
    class WithTeardown(Component):
        def __init__(self) -> None:
            self.add_component("child", Child)

        async def start(self) -> None:
            add_teardown_callback(lambda: events.append("root teardown"))
            events.append("root.start")

    class Child(Component):
        async def prepare(self) -> None:
            add_teardown_callback(lambda: events.append("child teardown"))
            events.append("child.prepare")

    async with Context():
        await start_component(WithTeardown)
        assert events == ["child.prepare", "root.start"]
        events.append("body")

    assert events == [
        "child.prepare",
        "root.start",
        "body",
        "root teardown",
        "child teardown",
    ]
