"""Behaviour checks for refactoring 2 (type normalisation / conflict helpers)."""

from __future__ import annotations

import sys
from collections.abc import Sequence as AbcSequence
import itertools
from contextlib import asynccontextmanager
from typing import Any, AsyncIterator, Dict, List, Optional, Union

import pytest
from anyio import fail_after

from asphalt.core import (
    Context,
    ResourceConflict,
    ResourceEvent,
    add_resource_factory,
    get_resource,
)

pytestmark = pytest.mark.anyio


class Marker:
    pass


_marker_counter = itertools.count()


@asynccontextmanager
async def recording(ctx: Context) -> AsyncIterator[Any]:
    async with ctx.resource_added.stream_events() as stream:
        async def drain() -> List[ResourceEvent]:
            marker_name = f"marker{next(_marker_counter)}"
            ctx.add_resource(Marker(), marker_name)
            events: List[ResourceEvent] = []
            with fail_after(3):
                async for event in stream:
                    if event.resource_name == marker_name:
                        return events
                    events.append(event)
            raise AssertionError("unreachable")

        yield drain


@pytest.fixture
def anyio_backend() -> str:
    return "asyncio"


class Base:
    pass


class Derived(Base):
    pass


async def test_add_resource_type_forms() -> None:
    async with Context() as ctx, recording(ctx) as drain:
        value = Derived()
        ctx.add_resource(value, "single", Base)
        ctx.add_resource(value, "listed", [Base, Derived])
        ctx.add_resource(value, "tupled", (Derived,))
        ctx.add_resource(value, "implicit")
        ctx.add_resource(value, "emptylist", [])
        ctx.add_resource([1, 2], "generic", List[int])
        ctx.add_resource({"a": 1}, "generics", [Dict[str, int], dict])
        events = await drain()
        assert [(e.resource_name, e.resource_types, e.is_factory) for e in events] == [
            ("single", (Base,), False),
            ("listed", (Base, Derived), False),
            ("tupled", (Derived,), False),
            ("implicit", (Derived,), False),
            ("emptylist", (Derived,), False),
            ("generic", (List[int],), False),
            ("generics", (Dict[str, int], dict), False),
        ]
        assert ctx.get_resources(Base) == {"single": value, "listed": value}
        assert ctx.get_resource_nowait(List[int], "generic") == [1, 2]
        assert ctx.get_resource_nowait(Derived, "single", optional=True) is None


async def test_add_resource_bad_types() -> None:
    async with Context() as ctx, recording(ctx) as drain:
        for bad in ([1], [int, "str"], ("x",), "int", 5, [None], 3.5):
            with pytest.raises(TypeError) as exc:
                ctx.add_resource(1, "n", bad)  # type: ignore[arg-type]
            assert str(exc.value) == "types must be a type or sequence of types"

        # a non-sequence iterable is treated as a single (invalid) type
        with pytest.raises(TypeError, match="types must be a type or sequence"):
            ctx.add_resource(1, "n", {int})  # type: ignore[arg-type]

        # falsy "types" fall back to the type of the value
        ctx.add_resource(1, "zero", 0)  # type: ignore[arg-type]
        ctx.add_resource(1, "none", None)  # type: ignore[arg-type]
        ctx.add_resource(1, "emptystr", "")  # type: ignore[arg-type]
        assert sorted(ctx.get_resources(int)) == ["emptystr", "none", "zero"]
        assert len(await drain()) == 3


async def test_add_resource_conflicts() -> None:
    async with Context() as ctx, recording(ctx) as drain:
        ctx.add_resource(Derived(), "r", [Derived])
        with pytest.raises(ResourceConflict) as exc:
            ctx.add_resource(Derived(), "r", [Base, Derived, int])
        assert str(exc.value) == (
            "this context already contains a resource of type "
            f"{__name__}.Derived using the name 'r'"
        )
        assert ctx.get_resources(Base) == {}
        assert ctx.get_resources(int) == {}
        ctx.add_resource(1, "r", [int, Base])
        with pytest.raises(ResourceConflict, match="of type int using the name 'r'"):
            ctx.add_resource(2, "r", [int, Base])
        assert [e.resource_types for e in await drain()] == [(Derived,), (int, Base)]

        # child contexts inherit and conflict too
        async with Context() as child:
            with pytest.raises(ResourceConflict, match="Base using the name 'r'"):
                child.add_resource(Base(), "r")
            child.add_resource(Base(), "other")
        assert ctx.get_resource_nowait(Base, "other", optional=True) is None


async def test_factory_type_forms() -> None:
    def hinted() -> Base:
        return Derived()

    def union_hinted() -> Union[int, float]:
        return 3

    def optional_hinted() -> Optional[int]:
        return 3

    def generic_hinted() -> List[int]:
        return [1]

    async def async_hinted() -> str:
        return "async"

    async with Context() as ctx, recording(ctx) as drain:
        ctx.add_resource_factory(hinted)
        ctx.add_resource_factory(union_hinted, "u")
        ctx.add_resource_factory(generic_hinted, "g")
        ctx.add_resource_factory(async_hinted, "a")
        ctx.add_resource_factory(hinted, "explicit", types=Derived)
        ctx.add_resource_factory(hinted, "seq", types=[Base, Derived])
        ctx.add_resource_factory(hinted, "empty", types=[])
        events = await drain()
        assert [(e.resource_name, e.resource_types, e.is_factory) for e in events] == [
            ("default", (Base,), True),
            ("u", (int, float), True),
            ("g", (List[int],), True),
            ("a", (str,), True),
            ("explicit", (Derived,), True),
            ("seq", (Base, Derived), True),
            ("empty", (Base,), True),
        ]
        # Optional[int] unpacks to (int, NoneType), which does not contain None
        ctx.add_resource_factory(optional_hinted, "o")
        (opt_event,) = await drain()
        assert opt_event.resource_types == (int, type(None))
        assert opt_event.is_factory is True
        with pytest.raises(TypeError, match="None is not a valid resource type"):
            ctx.add_resource_factory(hinted, "o", types=[int, None])  # type: ignore
        with pytest.raises(ValueError) as exc:
            ctx.add_resource_factory(lambda: 1, "nohint")
        assert str(exc.value) == (
            "no resource types specified, and the factory callback does not have a "
            "return type hint"
        )
        assert exc.value.__cause__ is None
        assert exc.value.__suppress_context__ is True
        assert isinstance(exc.value.__context__, KeyError)

        assert isinstance(ctx.get_resource_nowait(Base), Derived)
        assert ctx.get_resource_nowait(float, "u") == 3
        assert await ctx.get_resource(str, "a") == "async"
        generated = await drain()
        assert [(e.resource_name, e.resource_types, e.is_factory) for e in generated] == [
            ("default", (Base,), False),
            ("u", (int, float), False),
            ("a", (str,), False),
        ]


@pytest.mark.skipif(sys.version_info < (3, 10), reason="needs PEP 604 unions")
async def test_factory_pep604_union() -> None:
    def pep604() -> int | str:
        return 1

    async with Context() as ctx, recording(ctx) as drain:
        ctx.add_resource_factory(pep604)
        (event,) = await drain()
        assert event.resource_types == (int, str)
        assert ctx.get_resource_nowait(str) == 1


async def test_factory_conflicts_and_states() -> None:
    def factory() -> Union[int, str]:
        return 1

    ctx = Context()
    with pytest.raises(RuntimeError, match="has not been entered yet"):
        ctx.add_resource_factory(factory)

    async with ctx, recording(ctx) as drain:
        ctx.add_resource_factory(factory, types=[str])
        with pytest.raises(ResourceConflict) as exc:
            ctx.add_resource_factory(factory)
        assert str(exc.value) == (
            "this context already contains a resource factory for the type str"
        )
        # nothing was registered for int by the failed call
        assert ctx.get_resource_nowait(int, optional=True) is None
        # same types under another name is fine
        ctx.add_resource_factory(factory, "other")
        assert [e.resource_name for e in await drain()] == ["default", "other"]

        # a factory may not be added during teardown, a resource may
        def late() -> None:
            ctx.add_resource(2.5, "late")
            with pytest.raises(RuntimeError, match="is being torn down"):
                ctx.add_resource_factory(factory, "late")

        ctx.add_teardown_callback(late)

    assert ctx.get_resources(float) == {"late": 2.5}

    async with Context():
        add_resource_factory(factory, "shortcut", types=(int,))
        assert await get_resource(int, "shortcut") == 1


async def test_custom_sequence_types() -> None:
    class TypeList(AbcSequence):  # type: ignore[type-arg]
        def __init__(self, *items: Any) -> None:
            self.items = items

        def __getitem__(self, index: Any) -> Any:
            return self.items[index]

        def __len__(self) -> int:
            return len(self.items)

    async with Context() as ctx, recording(ctx) as drain:
        ctx.add_resource(1, "a", TypeList(int, float))
        ctx.add_resource_factory(lambda: "x", "b", types=TypeList(str, bytes))
        ctx.add_resource(1, "c", TypeList())
        events = await drain()
        assert [e.resource_types for e in events] == [
            (int, float),
            (str, bytes),
            (int,),
        ]
