"""
Behaviour checks for refactoring 2 (``_cli.py``: the ``run`` command split into
``_apply_override()``, ``_select_service_config()`` and ``_pop_required()``).

Everything goes through the ``asphalt run`` click command.
"""

from __future__ import annotations

from pathlib import Path
from typing import Any
from unittest.mock import patch

import click
import pytest
from click.testing import CliRunner, Result
from pytest import MonkeyPatch

from asphalt.core import _cli
from asphalt.core._cli import main


@pytest.fixture(autouse=True)
def no_service_envvar(monkeypatch: MonkeyPatch) -> None:
    monkeypatch.delenv("ASPHALT_SERVICE", raising=False)


def invoke(
    tmp_path: Path, documents: list[str], *args: str, via_group: bool = False
) -> tuple[Result, Any]:
    """
    Run the command against the given YAML documents.

    Returns the click result and the mocked ``run_application``.

    """
    paths = []
    for i, document in enumerate(documents):
        path = tmp_path / f"conf{i}.yml"
        path.write_text(document)
        paths.append(str(path))

    runner = CliRunner()
    with patch("asphalt.core._cli.run_application") as run_app:
        if via_group:
            result = runner.invoke(main, ["run", *args, *paths])
        else:
            result = runner.invoke(_cli.run, [*args, *paths])

    return result, run_app


def error_text(result: Result) -> str:
    # Depending on the click version, errors end up in either stream
    return result.output if "Error" in result.output else result.stderr


MULTI_SERVICE = """\
---
max_threads: 15
logging:
  version: 1
services:
  server:
    max_threads: 30
    component:
      type: myproject.server.ServerComponent
      components:
        wamp: &wamp
          host: wamp.example.org
  client:
    component:
      type: myproject.client.ClientComponent
      components:
        wamp:
          <<: *wamp
    logging:
      version: 2
"""


def test_explicit_service_and_merging(tmp_path: Path) -> None:
    result, run_app = invoke(tmp_path, [MULTI_SERVICE], "-s", "server")
    assert result.exit_code == 0
    run_app.assert_called_once_with(
        "myproject.server.ServerComponent",
        {"components": {"wamp": {"host": "wamp.example.org"}}},
        backend="asyncio",
        backend_options={},
        max_threads=30,
        logging={"version": 1},
    )


def test_service_from_envvar_and_option_precedence(
    tmp_path: Path, monkeypatch: MonkeyPatch
) -> None:
    monkeypatch.setenv("ASPHALT_SERVICE", "client")
    result, run_app = invoke(tmp_path, [MULTI_SERVICE], via_group=True)
    assert result.exit_code == 0
    run_app.assert_called_once_with(
        "myproject.client.ClientComponent",
        {"components": {"wamp": {"host": "wamp.example.org"}}},
        backend="asyncio",
        backend_options={},
        max_threads=15,
        logging={"version": 2},
    )

    # The command line option wins over the environment variable
    result, run_app = invoke(tmp_path, [MULTI_SERVICE], "--service", "server")
    assert result.exit_code == 0
    assert run_app.call_args[0][0] == "myproject.server.ServerComponent"


def test_unknown_service(tmp_path: Path) -> None:
    result, run_app = invoke(tmp_path, [MULTI_SERVICE], "-s", "foobar")
    assert result.exit_code == 1
    assert error_text(result) == "Error: Service 'foobar' has not been defined\n"
    assert run_app.call_count == 0


def test_unknown_service_exception_chain(tmp_path: Path) -> None:
    path = tmp_path / "conf.yml"
    path.write_text(MULTI_SERVICE)
    with patch("asphalt.core._cli.run_application"):
        with pytest.raises(click.ClickException) as exc_info:
            _cli.run.main(["-s", "foobar", str(path)], standalone_mode=False)

    assert exc_info.value.message == "Service 'foobar' has not been defined"
    assert exc_info.value.__cause__ is None
    assert exc_info.value.__suppress_context__ is True
    assert isinstance(exc_info.value.__context__, KeyError)


def test_multiple_services_no_default(tmp_path: Path) -> None:
    result, run_app = invoke(tmp_path, [MULTI_SERVICE])
    assert result.exit_code == 1
    assert error_text(result) == (
        "Error: Multiple services present in configuration file but no default "
        "service has been defined and no service was explicitly selected with -s / "
        "--service\n"
    )
    assert run_app.call_count == 0


def test_multiple_services_with_default(tmp_path: Path) -> None:
    extra = """\
services:
  default:
    component:
      type: myproject.DefaultComponent
"""
    result, run_app = invoke(tmp_path, [MULTI_SERVICE, extra])
    assert result.exit_code == 0
    run_app.assert_called_once_with(
        "myproject.DefaultComponent",
        {},
        backend="asyncio",
        backend_options={},
        max_threads=15,
        logging={"version": 1},
    )


def test_single_service_selected_implicitly(tmp_path: Path) -> None:
    config = """\
backend: trio
backend_options:
  restrict_keyboard_interrupt_to_checkpoints: true
services:
  whatever:
    start_timeout: 4.5
    component:
      type: myproject.OnlyComponent
      option: 1
"""
    result, run_app = invoke(tmp_path, [config])
    assert result.exit_code == 0
    run_app.assert_called_once_with(
        "myproject.OnlyComponent",
        {"option": 1},
        backend="trio",
        backend_options={"restrict_keyboard_interrupt_to_checkpoints": True},
        start_timeout=4.5,
    )


def test_top_level_component_becomes_default_service(tmp_path: Path) -> None:
    config = """\
component:
  type: myproject.TopComponent
  a: 1
services:
  other:
    component:
      type: myproject.OtherComponent
"""
    result, run_app = invoke(tmp_path, [config])
    assert result.exit_code == 0
    run_app.assert_called_once_with(
        "myproject.TopComponent", {"a": 1}, backend="asyncio", backend_options={}
    )

    # ...but an explicitly defined default service has precedence over it
    config += """\
  default:
    component:
      type: myproject.ExplicitDefault
"""
    result, run_app = invoke(tmp_path, [config])
    assert result.exit_code == 0
    run_app.assert_called_once_with(
        "myproject.ExplicitDefault", {}, backend="asyncio", backend_options={}
    )


@pytest.mark.parametrize(
    "config",
    ["max_threads: 3\n", "services: {}\nlogging: {version: 1}\n"],
    ids=["absent", "empty"],
)
def test_no_services(tmp_path: Path, config: str) -> None:
    # The check for the absence of services comes before the service lookup
    result, run_app = invoke(tmp_path, [config], "-s", "foo")
    assert result.exit_code == 1
    assert error_text(result) == "Error: No services have been defined\n"
    assert run_app.call_count == 0


def test_services_not_a_dict(tmp_path: Path) -> None:
    result, run_app = invoke(tmp_path, ["services: [1, 2]\n"])
    assert result.exit_code == 1
    assert error_text(result) == 'Error: The "services" key must be a dict, not list\n'
    assert run_app.call_count == 0


def test_missing_component_key(tmp_path: Path) -> None:
    result, run_app = invoke(tmp_path, ["services:\n  default:\n"])
    assert result.exit_code == 1
    assert error_text(result) == (
        "Error: Service configuration is missing the 'component' key\n"
    )
    assert run_app.call_count == 0


def test_missing_type_key(tmp_path: Path) -> None:
    result, run_app = invoke(
        tmp_path, ["services:\n  default:\n    component: {foo: 1}\n"]
    )
    assert result.exit_code == 1
    assert error_text(result) == (
        "Error: Root component configuration is missing the 'type' key\n"
    )
    assert run_app.call_count == 0


@pytest.mark.parametrize(
    "document, message",
    [
        (
            "services:\n  default:\n    foo: 1\n",
            "Service configuration is missing the 'component' key",
        ),
        (
            "component: {}\n",
            "Root component configuration is missing the 'type' key",
        ),
    ],
    ids=["component", "type"],
)
def test_missing_key_exception_chain(
    tmp_path: Path, document: str, message: str
) -> None:
    path = tmp_path / "conf.yml"
    path.write_text(document)
    with patch("asphalt.core._cli.run_application"):
        with pytest.raises(click.ClickException) as exc_info:
            _cli.run.main([str(path)], standalone_mode=False)

    assert exc_info.value.message == message
    assert isinstance(exc_info.value.__cause__, KeyError)
    assert exc_info.value.__cause__ is exc_info.value.__context__


def test_component_config_not_a_mapping(tmp_path: Path) -> None:
    """A null component configuration is not reported as a usage error."""
    result, run_app = invoke(tmp_path, ["services:\n  default:\n    component:\n"])
    assert result.exit_code == 1
    assert isinstance(result.exception, AttributeError)
    assert "pop" in str(result.exception)
    assert run_app.call_count == 0


def test_root_not_a_mapping(tmp_path: Path) -> None:
    good = "component:\n  type: myproject.Component\n"
    result, run_app = invoke(tmp_path, [good, "- 1\n- 2\n"])
    assert result.exit_code == 1
    assert isinstance(result.exception, AssertionError)
    assert str(result.exception) == "the document root element must be a dictionary"
    assert run_app.call_count == 0


BASE = """\
component:
  type: myproject.Component
  listvalue: []
  nested:
    inner:
      value: 1
  dotted.key:
    value: old
"""


def test_overrides(tmp_path: Path) -> None:
    result, run_app = invoke(
        tmp_path,
        [BASE],
        "--set",
        "component.nested.inner.value=2",
        "--set",
        "component.nested.other={a: [1, 2]}",
        "--set",
        "component.new.deep.key=text=with=equals",
        "--set",
        r"component.dotted\.key.value=new",
        "--set",
        "component.empty=",
        "--set",
        "max_threads=7",
        "--set",
        "component.nested.inner.value=3",
    )
    assert result.exit_code == 0
    run_app.assert_called_once_with(
        "myproject.Component",
        {
            "listvalue": [],
            "nested": {"inner": {"value": 3}, "other": {"a": [1, 2]}},
            "new": {"deep": {"key": "text=with=equals"}},
            "dotted.key": {"value": "new"},
            "empty": None,
        },
        backend="asyncio",
        backend_options={},
        max_threads=7,
    )


def test_override_selects_service_and_type(tmp_path: Path) -> None:
    """Overrides are applied before the services are looked at."""
    result, run_app = invoke(
        tmp_path,
        ["logging: 10\n"],
        "--set",
        "services.main.component.type=myproject.FromOverride",
        "--set",
        "backend=trio",
    )
    assert result.exit_code == 0
    run_app.assert_called_once_with(
        "myproject.FromOverride",
        {},
        backend="trio",
        backend_options={},
        logging=10,
    )


def test_override_without_equals_sign(tmp_path: Path) -> None:
    result, run_app = invoke(
        tmp_path, [BASE], "--set", "component.a=1", "--set", "foobar"
    )
    assert result.exit_code == 1
    assert error_text(result) == (
        "Error: Configuration must be set with '=', got: foobar\n"
    )
    assert run_app.call_count == 0


@pytest.mark.parametrize(
    "override, message",
    [
        (
            "component.listvalue.foo=1",
            "Cannot apply override for 'component.listvalue.foo': value at "
            "component ⟶ listvalue is not a mapping, but list",
        ),
        (
            "component.nested.inner.value.x.y=1",
            "Cannot apply override for 'component.nested.inner.value.x.y': value at "
            "component ⟶ nested ⟶ inner ⟶ value is not a mapping, but int",
        ),
        (
            "component.type.x=1",
            "Cannot apply override for 'component.type.x': value at "
            "component ⟶ type is not a mapping, but str",
        ),
    ],
    ids=["list", "int", "str"],
)
def test_override_bad_path(tmp_path: Path, override: str, message: str) -> None:
    result, run_app = invoke(tmp_path, [BASE], "--set", override)
    assert result.exit_code == 1
    assert error_text(result) == f"Error: {message}\n"
    assert run_app.call_count == 0


def test_override_value_is_parsed_before_path_is_checked(tmp_path: Path) -> None:
    """An unparseable value is reported even if the path is wrong too."""
    result, run_app = invoke(
        tmp_path, [BASE], "--set", "component.listvalue.foo={unclosed"
    )
    assert result.exit_code == 1
    assert type(result.exception).__module__.startswith("yaml")
    assert run_app.call_count == 0


def test_override_with_yaml_tag(tmp_path: Path, monkeypatch: MonkeyPatch) -> None:
    monkeypatch.setenv("CHECK2_ENVVAR", "from the environment")
    result, run_app = invoke(
        tmp_path, [BASE], "--set", "component.value=!Env CHECK2_ENVVAR"
    )
    assert result.exit_code == 0
    assert run_app.call_args[0][1]["value"] == "from the environment"
