"""
Behaviour checks for refactoring 3 (``_runner.py`` split into phases):

* ``run_application``          - logging set-up extracted, walrus removed
* ``_run_application_async``   - thread limit and exit code conversion extracted, the
  ``if/elif`` ladder replaced by guard clauses in a helper
* ``handle_signals``           - signal name formatting extracted

Everything is exercised through ``asphalt.core.run_application()``.
"""

from __future__ import annotations

import logging
import platform
import signal
import warnings
from typing import Any
from unittest.mock import patch

import anyio
import pytest
from _pytest.logging import LogCaptureFixture
from anyio import sleep, to_thread, wait_all_tasks_blocked

from asphalt.core import (
    CLIApplicationComponent,
    Component,
    add_teardown_callback,
    get_resource,
    run_application,
    start_service_task,
)

BACKENDS = ["asyncio", "trio"]
posix_only = pytest.mark.skipif(
    platform.system() == "Windows", reason="Signals don't work on Windows"
)


@pytest.fixture(params=BACKENDS)
def backend(request: Any) -> str:
    return request.param


class RecordingCLIApp(CLIApplicationComponent):
    """Returns the configured value from run() and records what happened."""

    events: list[Any] = []

    def __init__(self, result: Any = None, raises: BaseException | None = None):
        super().__init__()
        self.result = result
        self.raises = raises

    def teardown(self, exception: BaseException | None) -> None:
        RecordingCLIApp.events.append(("teardown", exception))

    async def start(self) -> None:
        RecordingCLIApp.events.append("start")
        add_teardown_callback(self.teardown, pass_exception=True)

    async def run(self) -> Any:
        RecordingCLIApp.events.append("run")
        if self.raises is not None:
            raise self.raises

        return self.result


@pytest.fixture(autouse=True)
def clear_events() -> None:
    RecordingCLIApp.events.clear()


def run_and_capture(
    component: Any, config: dict[str, Any] | None, backend: str, **kwargs: Any
) -> tuple[Any, list[str]]:
    """Return the exit code ("no exit" if none) and the UserWarning messages."""
    kwargs.setdefault("logging", None)
    with warnings.catch_warnings(record=True) as caught:
        warnings.simplefilter("always")
        try:
            run_application(component, config, backend=backend, **kwargs)
        except SystemExit as exc:
            code: Any = exc.code
        else:
            code = "no exit"

    return code, [str(w.message) for w in caught if w.category is UserWarning]


# ---------------------------------------------------------------------------
# Logging set-up
# ---------------------------------------------------------------------------


@pytest.mark.parametrize(
    "logging_config, expected_basic, expected_dict",
    [
        pytest.param(None, [], [], id="none"),
        pytest.param(logging.DEBUG, [{"level": logging.DEBUG}], [], id="level"),
        pytest.param(0, [{"level": 0}], [], id="zero"),
        pytest.param(True, [{"level": True}], [], id="bool"),
        pytest.param({"version": 1}, [], [{"version": 1}], id="dict"),
        pytest.param({}, [], [{}], id="emptydict"),
        pytest.param("INFO", [], [], id="string-ignored"),
    ],
)
def test_logging_setup(
    logging_config: Any,
    expected_basic: list[dict[str, Any]],
    expected_dict: list[Any],
    backend: str,
) -> None:
    with patch("asphalt.core._runner.basicConfig") as basic_config, patch(
        "asphalt.core._runner.dictConfig"
    ) as dict_config:
        run_application(RecordingCLIApp, logging=logging_config, backend=backend)

    assert [call.kwargs for call in basic_config.call_args_list] == expected_basic
    assert [call.args[0] for call in dict_config.call_args_list] == expected_dict
    assert all(call.args == () for call in basic_config.call_args_list)


def test_default_logging_is_basicconfig_info(backend: str) -> None:
    with patch("asphalt.core._runner.basicConfig") as basic_config, patch(
        "asphalt.core._runner.dictConfig"
    ) as dict_config:
        run_application(RecordingCLIApp, backend=backend)

    basic_config.assert_called_once_with(level=logging.INFO)
    dict_config.assert_not_called()


def test_logging_setup_error_prevents_start(backend: str) -> None:
    with pytest.raises(ValueError):
        run_application(
            RecordingCLIApp, logging={"version": 12345}, backend=backend
        )

    assert RecordingCLIApp.events == []


def test_logging_is_configured_before_first_message(
    caplog: LogCaptureFixture, backend: str
) -> None:
    order: list[str] = []

    def fake_basic_config(**kwargs: Any) -> None:
        order.append(f"basicConfig {caplog.messages}")

    caplog.set_level(logging.INFO, "asphalt.core")
    with patch("asphalt.core._runner.basicConfig", fake_basic_config):
        run_application(RecordingCLIApp, logging=logging.INFO, backend=backend)

    assert order == ["basicConfig []"]
    assert caplog.messages == [
        "Running in development mode",
        "Starting application",
        "Application started",
        "Application stopped",
    ]


# ---------------------------------------------------------------------------
# Thread limit
# ---------------------------------------------------------------------------


@pytest.mark.parametrize("max_threads", [None, 1, 7])
def test_max_threads(max_threads: int | None, backend: str) -> None:
    observed: list[float] = []

    class ThreadsApp(CLIApplicationComponent):
        async def start(self) -> None:
            observed.append(to_thread.current_default_thread_limiter().total_tokens)

        async def run(self) -> None:
            observed.append(to_thread.current_default_thread_limiter().total_tokens)

    async def default_tokens() -> float:
        return to_thread.current_default_thread_limiter().total_tokens

    expected = max_threads or anyio.run(default_tokens, backend=backend)
    run_application(ThreadsApp, max_threads=max_threads, backend=backend, logging=None)
    assert observed == [expected, expected]


def test_invalid_max_threads_fails_before_start(
    caplog: LogCaptureFixture, backend: str
) -> None:
    caplog.set_level(logging.INFO, "asphalt.core")
    with pytest.raises((TypeError, ValueError)):
        run_application(
            RecordingCLIApp, max_threads="many", backend=backend, logging=None
        )

    assert RecordingCLIApp.events == []
    # The limit is applied before "Starting application" is logged, and
    # "Application stopped" is only logged once the start has been attempted
    assert caplog.messages == ["Running in development mode"]


# ---------------------------------------------------------------------------
# Exit codes
# ---------------------------------------------------------------------------


@pytest.mark.parametrize("result", [None, 0, False])
def test_successful_results(result: Any, backend: str) -> None:
    code, messages = run_and_capture(RecordingCLIApp, {"result": result}, backend)
    assert code == "no exit"
    assert messages == []
    assert RecordingCLIApp.events == ["start", "run", ("teardown", None)]


@pytest.mark.parametrize("result", [1, 20, 127])
def test_valid_exit_codes(result: int, backend: str) -> None:
    code, messages = run_and_capture(RecordingCLIApp, {"result": result}, backend)
    assert code == result and type(code) is int
    assert messages == []
    assert RecordingCLIApp.events == ["start", "run", ("teardown", None)]


def test_true_exit_code(backend: str) -> None:
    code, messages = run_and_capture(RecordingCLIApp, {"result": True}, backend)
    assert code is True
    assert messages == []


@pytest.mark.parametrize("result", [128, 4096, -1])
def test_out_of_range_exit_codes(result: int, backend: str) -> None:
    code, messages = run_and_capture(RecordingCLIApp, {"result": result}, backend)
    assert code == 1
    assert messages == [f"exit code out of range: {result}"]
    assert RecordingCLIApp.events == ["start", "run", ("teardown", None)]


@pytest.mark.parametrize(
    "result, type_name",
    [
        ("0", "str"),
        (0.0, "float"),
        (b"", "bytes"),
        ({}, "dict"),
        (ValueError("x"), "ValueError"),
    ],
)
def test_invalid_result_types(result: Any, type_name: str, backend: str) -> None:
    code, messages = run_and_capture(RecordingCLIApp, {"result": result}, backend)
    assert code == 1
    assert messages == [f"run() must return an integer or None, not {type_name}"]


def test_invalid_result_type_from_other_module(backend: str) -> None:
    from decimal import Decimal

    code, messages = run_and_capture(
        RecordingCLIApp, {"result": Decimal(3)}, backend
    )
    assert code == 1
    assert messages == ["run() must return an integer or None, not decimal.Decimal"]


def test_exit_code_warning_is_attributed_to_the_runner(backend: str) -> None:
    with warnings.catch_warnings(record=True) as caught:
        warnings.simplefilter("always")
        with pytest.raises(SystemExit):
            run_application(
                RecordingCLIApp, {"result": 500}, backend=backend, logging=None
            )

    (warning,) = [w for w in caught if w.category is UserWarning]
    assert warning.filename.replace("\\", "/").endswith("asphalt/core/_runner.py")


def test_exit_code_warning_as_error(caplog: LogCaptureFixture, backend: str) -> None:
    caplog.set_level(logging.INFO, "asphalt.core")
    with warnings.catch_warnings():
        warnings.simplefilter("error")
        with pytest.raises(UserWarning, match="run\\(\\) must return an integer"):
            run_application(
                RecordingCLIApp, {"result": "x"}, backend=backend, logging=None
            )

    assert RecordingCLIApp.events[:2] == ["start", "run"]
    kind, exception = RecordingCLIApp.events[2]
    assert kind == "teardown"
    assert isinstance(exception, UserWarning)
    assert caplog.messages[-1] == "Application stopped"


def test_run_raising(caplog: LogCaptureFixture, backend: str) -> None:
    caplog.set_level(logging.INFO, "asphalt.core")
    error = RuntimeError("run failed")
    with pytest.raises(RuntimeError) as exc_info:
        run_application(
            RecordingCLIApp, {"raises": error}, backend=backend, logging=None
        )

    assert exc_info.value is error
    assert RecordingCLIApp.events == ["start", "run", ("teardown", error)]
    assert caplog.messages == [
        "Running in development mode",
        "Starting application",
        "Application started",
        "Application stopped",
    ]


# ---------------------------------------------------------------------------
# Startup failures
# ---------------------------------------------------------------------------


def test_start_exception(caplog: LogCaptureFixture, backend: str) -> None:
    class Failing(Component):
        async def start(self) -> None:
            raise RuntimeError("start failed")

    caplog.set_level(logging.INFO, "asphalt.core")
    code, messages = run_and_capture(Failing, None, backend)
    assert code == 1
    assert messages == []
    assert caplog.messages == [
        "Running in development mode",
        "Starting application",
        "Error during application startup",
        "Application stopped",
    ]
    record = caplog.records[2]
    assert record.levelno == logging.ERROR
    assert record.exc_info is not None
    assert "start failed" in str(record.exc_info[1].__cause__)


def test_bad_component_reference(caplog: LogCaptureFixture, backend: str) -> None:
    caplog.set_level(logging.INFO, "asphalt.core")
    code, _ = run_and_capture("nonexistent.module:Foo", None, backend)
    assert code == 1
    assert caplog.messages[2] == "Error during application startup"
    assert caplog.messages[-1] == "Application stopped"


def test_start_timeout(caplog: LogCaptureFixture, backend: str) -> None:
    class Stalling(Component):
        async def start(self) -> None:
            await get_resource(float)

    caplog.set_level(logging.INFO, "asphalt.core")
    code, messages = run_and_capture(Stalling, None, backend, start_timeout=0.1)
    assert code == 1
    assert messages == []
    assert len(caplog.messages) == 4
    assert caplog.messages[:2] == [
        "Running in development mode",
        "Starting application",
    ]
    assert caplog.messages[2].startswith(
        "Timeout waiting for the component tree to start"
    )
    assert caplog.messages[3] == "Application stopped"
    assert "Error during application startup" not in caplog.messages


# ---------------------------------------------------------------------------
# Signals
# ---------------------------------------------------------------------------


class SignalDuringStart(Component):
    def __init__(self, signum: int):
        self.signum = signum

    async def start(self) -> None:
        signal.raise_signal(self.signum)
        await sleep(3)


class SignalWhileRunning(Component):
    teardown_calls: list[BaseException | None] = []

    def __init__(self, signum: int):
        self.signum = signum

    async def terminator(self) -> None:
        await wait_all_tasks_blocked()
        signal.raise_signal(self.signum)

    async def start(self) -> None:
        add_teardown_callback(
            SignalWhileRunning.teardown_calls.append, pass_exception=True
        )
        await start_service_task(self.terminator, "Application terminator")


@posix_only
@pytest.mark.parametrize(
    "signum, name",
    [(signal.SIGINT, "Interrupt"), (signal.SIGTERM, "Terminated")],
    ids=["sigint", "sigterm"],
)
def test_signal_during_startup(
    signum: int, name: str, caplog: LogCaptureFixture, backend: str
) -> None:
    caplog.set_level(logging.INFO, "asphalt.core")
    code, messages = run_and_capture(SignalDuringStart, {"signum": signum}, backend)
    assert code == 1
    assert messages == []
    assert caplog.messages == [
        "Running in development mode",
        "Starting application",
        f"Received signal ({name}) – terminating application",
        "Application stopped",
    ]
    record = caplog.records[2]
    assert record.levelno == logging.INFO
    assert record.msg == "Received signal (%s) – terminating application"
    assert record.args == (name,)


@posix_only
@pytest.mark.parametrize(
    "signum, name",
    [(signal.SIGINT, "Interrupt"), (signal.SIGTERM, "Terminated")],
    ids=["sigint", "sigterm"],
)
def test_signal_while_running(
    signum: int, name: str, caplog: LogCaptureFixture, backend: str
) -> None:
    SignalWhileRunning.teardown_calls.clear()
    caplog.set_level(logging.INFO, "asphalt.core")
    code, messages = run_and_capture(SignalWhileRunning, {"signum": signum}, backend)
    assert code == "no exit"
    assert messages == []
    assert SignalWhileRunning.teardown_calls == [None]
    assert caplog.messages == [
        "Running in development mode",
        "Starting application",
        "Application started",
        f"Received signal ({name}) – terminating application",
        "Application stopped",
    ]


@posix_only
def test_signal_name_without_description(
    caplog: LogCaptureFixture, backend: str
) -> None:
    """``strsignal()`` may return None or a "name: number" string (macOS)."""
    caplog.set_level(logging.INFO, "asphalt.core")
    for fake, expected in [
        (None, ""),
        ("Interrupt: 2", "Interrupt"),
        ("a:b:c", "a"),
        (":", ""),
    ]:
        caplog.clear()
        with patch("asphalt.core._runner.signal.strsignal", return_value=fake):
            code, _ = run_and_capture(
                SignalDuringStart, {"signum": signal.SIGINT}, backend
            )

        assert code == 1
        assert (
            f"Received signal ({expected}) – terminating application"
            in caplog.messages
        )


@posix_only
def test_signal_ignored_by_cli_app_after_startup(
    caplog: LogCaptureFixture, backend: str
) -> None:
    """
    For a CLI application, a signal received while run() is executing does not stop
    run(); its exit code is still used.

    """

    class SelfSignalling(CLIApplicationComponent):
        async def run(self) -> int:
            signal.raise_signal(signal.SIGTERM)
            await sleep(0.1)
            return 3

    caplog.set_level(logging.INFO, "asphalt.core")
    code, messages = run_and_capture(SelfSignalling, None, backend)
    assert code == 3
    assert messages == []
    assert caplog.messages == [
        "Running in development mode",
        "Starting application",
        "Application started",
        "Received signal (Terminated) – terminating application",
        "Application stopped",
    ]


# ---------------------------------------------------------------------------
# Argument passing
# ---------------------------------------------------------------------------


def test_backend_options_are_passed_on() -> None:
    with patch("asphalt.core._runner.anyio.run", return_value=0) as run:
        run_application(
            RecordingCLIApp,
            {"result": 1},
            backend="trio",
            backend_options={"foo": "bar"},
            max_threads=3,
            start_timeout=4.5,
            logging=None,
        )

    (call,) = run.call_args_list
    func, component_class, config, max_threads, start_timeout = call.args
    assert func.__name__ == "_run_application_async"
    assert component_class is RecordingCLIApp
    assert config == {"result": 1}
    assert (max_threads, start_timeout) == (3, 4.5)
    assert call.kwargs == {"backend": "trio", "backend_options": {"foo": "bar"}}


@pytest.mark.parametrize(
    "returned, expected",
    [(0, "no exit"), (None, "no exit"), (1, 1), (77, 77), (True, True)],
)
def test_exit_only_on_truthy_result(returned: Any, expected: Any) -> None:
    with patch("asphalt.core._runner.anyio.run", return_value=returned):
        try:
            run_application(RecordingCLIApp, logging=None)
        except SystemExit as exc:
            assert exc.code is expected or exc.code == expected
        else:
            assert expected == "no exit"
