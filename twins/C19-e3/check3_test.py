"""
Property C19 (@inject == explicit lookups in the current context), with the emphasis
on several injected functions and parameters living side by side (each with its own
markers), first-call resolution of forward references, tasks and worker threads.

Must pass on the unchanged source and with refactor3.diff applied.
"""

from __future__ import annotations

from typing import Any, Optional, Union

import pytest
from anyio import create_task_group, to_thread
from anyio.lowlevel import checkpoint

from asphalt.core import (
    Context,
    ResourceNotFound,
    add_resource,
    add_resource_factory,
    get_resource,
    get_resource_nowait,
    inject,
    resource,
)

pytestmark = pytest.mark.anyio


@pytest.fixture
def anyio_backend() -> str:
    return "asyncio"


class Database:
    def __init__(self, dsn: str) -> None:
        self.dsn = dsn


class Mailer:
    pass


@inject
async def module_level_async(
    subject: str,
    db: Database = resource(),
    replica: Optional[Database] = resource("replica"),
    *,
    mailer: Mailer | None = resource(),
    urgent: bool = False,
) -> tuple[Any, ...]:
    return subject, db, replica, mailer, urgent


@inject
def module_level_sync(
    subject: str,
    db: Database = resource(),
    replica: Union[Database, None] = resource("replica"),
    *,
    mailer: "Optional[Mailer]" = resource(),
    urgent: bool = False,
) -> tuple[Any, ...]:
    return subject, db, replica, mailer, urgent


async def expected_async(subject: str, urgent: bool = False) -> tuple[Any, ...]:
    return (
        subject,
        await get_resource(Database),
        await get_resource(Database, "replica", optional=True),
        await get_resource(Mailer, optional=True),
        urgent,
    )


def expected_sync(subject: str, urgent: bool = False) -> tuple[Any, ...]:
    return (
        subject,
        get_resource_nowait(Database),
        get_resource_nowait(Database, "replica", optional=True),
        get_resource_nowait(Mailer, optional=True),
        urgent,
    )


async def test_same_type_different_names_and_optionality() -> None:
    async with Context():
        main = Database("main")
        add_resource(main)
        assert await module_level_async("s") == ("s", main, None, None, False)
        assert module_level_sync("s") == ("s", main, None, None, False)

        async with Context():
            replica = Database("replica")
            mailer = Mailer()
            add_resource(replica, "replica")
            add_resource(mailer)
            assert await module_level_async("t", urgent=True) == (
                "t",
                main,
                replica,
                mailer,
                True,
            )
            assert await module_level_async("t") == await expected_async("t")
            assert module_level_sync("u", urgent=True) == expected_sync("u", True)
            assert module_level_sync("u")[1:4] == (main, replica, mailer)

        assert await module_level_async("v") == await expected_async("v")
        assert module_level_sync("v") == expected_sync("v")

    # The non-optional one is still mandatory
    async with Context():
        add_resource(Database("replica"), "replica")
        with pytest.raises(ResourceNotFound) as exc:
            await module_level_async("w")

        assert (exc.value.type, exc.value.name) == (Database, "default")
        with pytest.raises(ResourceNotFound) as exc:
            module_level_sync("w")

        assert (exc.value.type, exc.value.name) == (Database, "default")


async def test_many_functions_interleaved_first_calls() -> None:
    """Each function resolves its own annotations on its own first call."""

    class Local:
        pass

    @inject
    def one(x: Local = resource("l")) -> Any:
        return x

    @inject
    async def two(x: str = resource("l")) -> Any:
        return x

    @inject
    def three(x: Optional[int] = resource("l"), y: Local = resource("l")) -> Any:
        return x, y

    @inject
    async def four(y: Optional[Local] = resource("other"), x: int = resource("l")) -> Any:
        return x, y

    async with Context():
        local = Local()
        add_resource(local, "l")
        add_resource("text", "l")
        assert await two() == "text"
        assert one() is local
        assert three() == (None, local)
        with pytest.raises(ResourceNotFound) as exc:
            await four()

        assert (exc.value.type, exc.value.name) == (int, "l")
        add_resource(11, "l")
        assert await four() == (11, None)
        assert three() == (11, local)
        # and once more in a different order
        assert one() is local
        assert await two() == "text"


async def test_factory_made_resources_are_per_context() -> None:
    made: list[Database] = []

    def factory() -> Database:
        made.append(Database(f"db{len(made)}"))
        return made[-1]

    @inject
    async def use_async(db: Database = resource("f")) -> Database:
        return db

    @inject
    def use_sync(db: Database = resource("f")) -> Database:
        return db

    async with Context():
        add_resource_factory(factory, "f")
        first = use_sync()
        assert first is made[0]
        assert await use_async() is first
        assert get_resource_nowait(Database, "f") is first
        async with Context():
            second = await use_async()
            assert second is made[1]
            assert use_sync() is second
            assert await get_resource(Database, "f") is second

        assert use_sync() is first
        assert len(made) == 2


async def test_concurrent_tasks_each_see_their_own_context() -> None:
    seen: dict[int, tuple[Any, ...]] = {}

    async def worker(i: int) -> None:
        async with Context():
            mine = Database(f"replica{i}")
            add_resource(mine, "replica")
            await checkpoint()
            seen[i] = await module_level_async(str(i))
            assert seen[i][2] is mine
            assert module_level_sync(str(i))[2] is mine

    async with Context():
        main = Database("main")
        add_resource(main)
        async with create_task_group() as tg:
            for i in range(5):
                tg.start_soon(worker, i)

        assert (await module_level_async("x"))[2] is None

    assert sorted(seen) == list(range(5))
    assert all(value[0] == str(i) and value[1] is main for i, value in seen.items())
    assert len({id(value[2]) for value in seen.values()}) == 5


async def test_sync_function_in_worker_threads() -> None:
    @inject
    def lookup(tag: int, db: Database = resource(), extra: Optional[Mailer] = resource()) -> Any:
        return tag, db, extra

    results: list[Any] = []

    async def worker(i: int) -> None:
        results.append(await to_thread.run_sync(lookup, i))

    async with Context():
        main = Database("main")
        add_resource(main)
        assert lookup(-1) == (-1, main, None)
        async with create_task_group() as tg:
            for i in range(4):
                tg.start_soon(worker, i)

    assert sorted(results, key=lambda r: r[0]) == [(i, main, None) for i in range(4)]


async def test_unresolvable_forward_reference_fails_on_every_call() -> None:
    @inject
    def broken(x: "DoesNotExistAnywhere" = resource()) -> None:  # type: ignore[name-defined] # noqa: F821
        raise AssertionError("body must not run")

    async with Context():
        for _ in range(2):
            with pytest.raises(NameError):
                broken()
