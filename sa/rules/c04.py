"""C04 - factory-generated resources are per-context singletons of the requesting context."""
from __future__ import annotations

import ast
import copy

from ..cfg import iter_own
from ..effects import access_path
from ..loader import exc_expr, AnalysisError, FuncInfo, dotted, walk_own
from . import c03
from .common import Anchors, call_name, def_use_closure, find_assign_sources, is_const, names_in, self_attr
from .tables import enclosing_loops, expand_alias, loop_var_source, norm, store_key, store_value, table_mutations


class _Rename(ast.NodeTransformer):
    def __init__(self, mapping: dict):
        self.mapping = mapping

    def visit_Name(self, node: ast.Name):
        if node.id in self.mapping:
            return ast.copy_location(ast.Name(id=self.mapping[node.id], ctx=node.ctx), node)
        return node


def canon(expr, mapping: dict) -> str:
    if expr is None:
        return ""
    e = _Rename(mapping).visit(copy.deepcopy(expr))
    return ast.unparse(e)


class GenBranch:
    """Facts about the generation branch of one lookup method."""

    def __init__(self, ctx, an: Anchors, f: FuncInfo):
        self.f = f
        self.ok = True
        self.problems: list = []
        a = ctx.a
        self.roles: dict = {}
        # factory variable: assigned from self.<factory_table>[...]
        self.factory_var = None
        self.factory_lookup = None
        for n in walk_own(f.node):
            if isinstance(n, ast.Assign) and len(n.targets) == 1 and isinstance(n.targets[0], ast.Name):
                v = n.value
                if isinstance(v, ast.Subscript) and self_attr(v.value) == an.factory_table:
                    self.factory_var, self.factory_lookup = n.targets[0].id, n
                elif isinstance(v, ast.Call) and isinstance(v.func, ast.Attribute) and v.func.attr == "get" and self_attr(v.func.value) == an.factory_table:
                    self.factory_var, self.factory_lookup = n.targets[0].id, n
            elif isinstance(n, ast.NamedExpr) and isinstance(n.target, ast.Name):
                v = n.value
                if isinstance(v, ast.Call) and isinstance(v.func, ast.Attribute) and v.func.attr == "get" and self_attr(v.func.value) == an.factory_table:
                    self.factory_var, self.factory_lookup = n.target.id, n
        if self.factory_var is None:
            self.problems.append("no variable is bound to an entry of the factory table")
            self.ok = False
            return
        self.roles[self.factory_var] = "FACTORY"
        # the lookup key held in a local: its name is irrelevant, its definition is compared
        self.key_def = None
        fl_ = self.factory_lookup.value
        key_expr = fl_.slice if isinstance(fl_, ast.Subscript) else (fl_.args[0] if isinstance(fl_, ast.Call) and fl_.args else None)
        if isinstance(key_expr, ast.Name) and key_expr.id not in f.params:
            defs = [n for n in walk_own(f.node) if isinstance(n, (ast.Assign, ast.AnnAssign, ast.NamedExpr)) and any(isinstance(t, ast.Name) and t.id == key_expr.id for t in (n.targets if isinstance(n, ast.Assign) else [n.target]))]
            stores = [n for n in walk_own(f.node) if isinstance(n, ast.Name) and n.id == key_expr.id and isinstance(n.ctx, (ast.Store, ast.Del))]
            if len(defs) == 1 and len(stores) == 1 and defs[0].value is not None:
                self.key_def = defs[0].value
                self.roles[key_expr.id] = "KEY"
        # callable field of the factory class = the one called
        self.call = None
        self.value_var = None
        for n in walk_own(f.node):
            if isinstance(n, ast.Assign) and len(n.targets) == 1 and isinstance(n.targets[0], ast.Name) and isinstance(n.value, ast.Call):
                fn = n.value.func
                if isinstance(fn, ast.Attribute) and isinstance(fn.value, ast.Name) and fn.value.id == self.factory_var:
                    self.call, self.value_var = n.value, n.targets[0].id
        if self.call is None:
            self.problems.append("the factory callback is never called into a variable")
            self.ok = False
            return
        self.callback_field = self.call.func.attr
        self.roles[self.value_var] = "VALUE"
        # container construction
        self.container_call = None
        self.container_var = None
        for n in walk_own(f.node):
            if isinstance(n, ast.Assign) and isinstance(n.value, ast.Call):
                c = a.callee(f, n.value)
                if c.kind == "class" and c.cls is an.container_class:
                    self.container_call = n.value
                    if isinstance(n.targets[0], ast.Name):
                        self.container_var = n.targets[0].id
        if self.container_call is None:
            # inline construction inside the store
            for call, c in a.func_calls(f):
                if c.kind == "class" and c.cls is an.container_class:
                    self.container_call = call
        if self.container_call is None:
            self.problems.append("no resource container is constructed")
            self.ok = False
            return
        if self.container_var:
            self.roles[self.container_var] = "CONTAINER"
        # stores
        self.stores = [(n, m) for n, m in a.func_mutations(f) if m.kind != "rebind" and any(len(p) >= 2 and p[-1] == an.resource_table for p in expand_alias(f, m.path))]
        if not self.stores:
            self.problems.append("no store into the resource table")
            self.ok = False
            return
        self.loop_iter = None
        self.loop_var = None
        for n, m in self.stores:
            loops = enclosing_loops(f, m.node)
            for it, tgt, node in loops:
                if isinstance(tgt, ast.Name):
                    self.loop_iter, self.loop_var = it, tgt.id
        if self.loop_var:
            self.roles[self.loop_var] = "T"
        self.dispatches = an.dispatch_calls(f)
        # parameters are shared names already
        self.fields = an.dataclass_fields(an.container_class)

    def container_args(self, an: Anchors) -> dict:
        """field name -> canonical expression"""
        out = {}
        for i, arg in enumerate(self.container_call.args):
            if i < len(self.fields):
                out[self.fields[i]] = canon(arg, self.roles)
        for kw in self.container_call.keywords:
            if kw.arg:
                out[kw.arg] = canon(kw.value, self.roles)
        return out

    def signature(self, an: Anchors) -> dict:
        sig = {}
        # `table[key]` after an `in` test and `table.get(key)` with a None test are the same lookup
        fl = self.factory_lookup.value
        if isinstance(fl, ast.Call) and isinstance(fl.func, ast.Attribute) and fl.func.attr == "get" and len(fl.args) == 1:
            fl = ast.Subscript(value=fl.func.value, slice=fl.args[0], ctx=ast.Load())
        if isinstance(fl, ast.Subscript):
            sig["lookup key"] = canon(self.key_def if self.key_def is not None else fl.slice, self.roles)
            fl = ast.Subscript(value=fl.value, slice=ast.Name(id="KEY", ctx=ast.Load()), ctx=ast.Load())
        sig["factory lookup"] = canon(fl, self.roles)
        sig["factory call"] = canon(self.call, self.roles)
        for k, v in self.container_args(an).items():
            sig[f"container.{k}"] = v
        sig["store iterates"] = canon(self.loop_iter, self.roles) if self.loop_iter is not None else "<single store>"
        keys = sorted({canon(store_key(m), self.roles) for _, m in self.stores})
        sig["store keys"] = " | ".join(keys)
        sig["store kind"] = " | ".join(sorted({m.kind for _, m in self.stores}))
        sig["stored value"] = " | ".join(sorted({canon(store_value(m), self.roles) for _, m in self.stores}))
        sig["dispatch count"] = str(len(self.dispatches))
        for i, d in enumerate(self.dispatches):
            sig[f"dispatch[{i}]"] = canon(d, self.roles)
        rets = []
        for n in walk_own(self.f.node):
            if isinstance(n, ast.Return) and n.value is not None and self.value_var in names_in(n.value):
                rets.append(canon(n.value, self.roles))
        sig["returns"] = " | ".join(sorted(set(rets)))
        return sig


def rule_r1(ctx, an: Anchors) -> tuple:
    rep = ctx.rep
    sync_f, async_f = an.ctx_method("get_resource_nowait"), an.ctx_method("get_resource")
    gs, ga = GenBranch(ctx, an, sync_f), GenBranch(ctx, an, async_f)
    for g in (gs, ga):
        if not g.ok:
            rep.unrecognised("C04.R1", g.f, g.f.node, "generation branch not recognised: " + "; ".join(g.problems))
    if not (gs.ok and ga.ok):
        return gs, ga
    # generated flag true in both
    for g in (gs, ga):
        args = g.container_args(an)
        flag = args.get(an.generated_flag)
        rep.check(
            "C04.R1",
            flag == "True",
            g.f,
            g.container_call,
            f"generated value is stored with {an.generated_flag}=True",
            f"generated value is stored with {an.generated_flag}={flag or 'default False'}: contexts created afterwards inherit the object instead of generating their own (sibling {('get_resource_nowait' if g is ga else 'get_resource')} sets it)",
        )
        rep.check(
            "C04.R1",
            args.get("value") == "VALUE" or list(args.values())[0] == "VALUE",
            g.f,
            g.container_call,
            "the container holds the factory's product",
            "the container does not hold the value the factory returned",
        )
    ss, sa = gs.signature(an), ga.signature(an)
    n = 0
    for k in sorted(set(ss) | set(sa)):
        n += 1
        if k == f"container.{an.generated_flag}":
            continue
        if ss.get(k) != sa.get(k):
            rep.violate(
                "C04.R1",
                async_f,
                ga.container_call if k.startswith("container") else (ga.dispatches[0] if k.startswith("dispatch") and ga.dispatches else async_f.node),
                f"sync and async generation disagree on '{k}': get_resource_nowait has `{ss.get(k)}`, get_resource has `{sa.get(k)}`",
            )
        else:
            rep.hold("C04.R1", async_f, None, f"siblings agree on '{k}': {ss.get(k)}", nontrivial=False)
    # the stores cover every factory type with the factory's name
    for g in (gs, ga):
        it = canon(g.loop_iter, g.roles) if g.loop_iter is not None else None
        ok_iter = it is not None and it.startswith("FACTORY.") and "types" in it
        rep.check("C04.R1", ok_iter, g.f, g.stores[0][1].node, "generated value is stored under every type of the factory", f"generation store does not iterate the factory's types (iterates {it})")
        for _, m in g.stores:
            key = store_key(m)
            ok = isinstance(key, ast.Tuple) and len(key.elts) == 2 and canon(key.elts[0], g.roles) == "T" and canon(key.elts[1], g.roles) in ("FACTORY.name", "name")
            rep.check("C04.R1", ok, g.f, m.node, "store key is (factory type, factory name)", f"store key {canon(key, g.roles)} is not (factory type, factory name)")
    rep.floor("C04.R1", n, 8)
    return gs, ga


def flag_filter_ok(cond, flag: str) -> bool:
    """cond is true only for values whose <flag> is false."""
    if isinstance(cond, ast.UnaryOp) and isinstance(cond.op, ast.Not):
        return isinstance(cond.operand, ast.Attribute) and cond.operand.attr == flag
    if isinstance(cond, ast.Compare) and len(cond.ops) == 1 and isinstance(cond.left, ast.Attribute) and cond.left.attr == flag:
        if isinstance(cond.ops[0], (ast.Is, ast.Eq)) and is_const(cond.comparators[0], False):
            return True
    if isinstance(cond, ast.BoolOp) and isinstance(cond.op, ast.And):
        return any(flag_filter_ok(v, flag) for v in cond.values)
    return False


def _local_table_sources(ctx, an: Anchors, h: FuncInfo, name: str, at: int, rd) -> list:
    """Value expressions a local dict variable was initialised from (reaching `at`)."""
    out = []
    for d in rd.at(at, name):
        info = rd.def_info(d, name)
        if info and isinstance(info[1], ast.AST) and info[0] == "value":
            out.append((d, info[1]))
    return out


def inherited_content(ctx, an: Anchors, table: str) -> list:
    """How the child's `table` gets content from the parent at construction.
    -> [(func, ast node, kind, detail)] with kind in
       'fresh' | 'copy_all' | 'comp' (detail = [conds]) | 'loop_store' (detail = (cfg, node, res_var, loop head)) | 'alias' | 'unknown'"""
    from ..dataflow import ReachingDefs

    a = ctx.a
    out = []
    for h in an.init_closure:
        cfg = a.cfg(h)
        rd = ReachingDefs(a, h)
        aliases = set()  # local names that end up bound to self.<table>

        def classify(expr, nid, node):
            if isinstance(expr, ast.Dict) and not expr.keys:
                return [(h, node, "fresh", None)]
            if isinstance(expr, ast.Call) and call_name(expr) == "dict" and not expr.args and not expr.keywords:
                return [(h, node, "fresh", None)]
            if isinstance(expr, ast.DictComp):
                if any(isinstance(x, ast.Attribute) and x.attr == table for g in expr.generators for x in ast.walk(g.iter)):
                    return [(h, node, "comp", [c for g in expr.generators for c in g.ifs])]
                return [(h, node, "unknown", "comprehension over something else than a parent table")]
            if isinstance(expr, ast.Attribute) and expr.attr == table:
                return [(h, node, "alias", expr)]
            if isinstance(expr, (ast.Call, ast.Dict)) and any(isinstance(x, ast.Attribute) and x.attr == table for x in ast.walk(expr)):
                return [(h, node, "copy_all", expr)]
            if isinstance(expr, ast.Name):
                res = []
                aliases.add(expr.id)
                srcs = _local_table_sources(ctx, an, h, expr.id, nid, rd)
                if not srcs:
                    return [(h, node, "unknown", f"local `{expr.id}` has no visible initial value")]
                for d, v in srcs:
                    res += classify(v, d, v)
                return res
            if isinstance(expr, ast.IfExp):
                return classify(expr.body, nid, node) + classify(expr.orelse, nid, node)
            return [(h, node, "unknown", f"`{ast.unparse(expr)}`")]

        for n in cfg.live_nodes():
            if n.kind == "stmt" and isinstance(n.ast, (ast.Assign, ast.AnnAssign)) and getattr(n.ast, "value", None) is not None:
                targets = n.ast.targets if isinstance(n.ast, ast.Assign) else [n.ast.target]
                if any(self_attr(t) == table for t in targets):
                    out += classify(n.ast.value, n.id, n.ast)
        # element stores into self.<table> or into a local that becomes the table
        for n, m in a.func_mutations(h):
            if not m.depth_key or m.kind not in ("store", "call:setdefault", "call:update"):
                continue
            is_table = m.path == ("self", table) or (len(m.path) == 1 and m.path[0] in aliases)
            if not is_table:
                continue
            from .tables import enclosing_loops as _el

            loops = [l for l in _el(h, m.node) if isinstance(l[2], ast.For)]
            if m.kind == "call:update":
                out.append((h, m.node, "copy_all", m.node))
                continue
            if not loops or not any(isinstance(x, ast.Attribute) and x.attr == table for x in ast.walk(loops[-1][0])):
                out.append((h, m.node, "unknown", "element store outside a loop over the parent table"))
                continue
            it, tgt, lp = loops[-1]
            val = store_value(m)
            res_var = val.id if isinstance(val, ast.Name) else None
            head = [x for x in cfg.live_nodes() if x.kind == "for_next" and x.ast is lp]
            out.append((h, m.node, "loop_store", (cfg, n, res_var, head[0] if head else None)))
    return out


def _unfiltered_copy_guarded(ctx, an: Anchors, h: FuncInfo, node, rule: str) -> bool:
    """An unfiltered copy of the parent's table is fine where it is only reached when a
    "this context holds generated resources" flag of the parent is false - provided that
    flag really over-approximates: it starts False, is only ever set to True, and every store
    of a generated container is dominated by setting it."""
    from .discharge import controlling_conditions
    from .tables import store_value, table_mutations

    a = ctx.a
    rep = ctx.rep
    cfg = a.cfg(h)
    nodes = [n for n in cfg.live_nodes() if n.kind == "stmt" and (n.ast is node or (isinstance(n.ast, ast.AST) and any(x is node for x in ast.walk(n.ast))))]
    if not nodes:
        return False
    flags = [e.attr for e, truth, _t in controlling_conditions(cfg, nodes[0]) if isinstance(e, ast.Attribute) and truth is False and e.attr != an.generated_flag]
    for F in flags:
        ok = True
        sets = 0
        why = ""
        for f in ctx.p.all_functions():
            for x in walk_own(f.node):
                tg = []
                if isinstance(x, ast.Assign):
                    tg = [(t, x.value) for t in x.targets]
                elif isinstance(x, (ast.AnnAssign, ast.AugAssign)) and getattr(x, "value", None) is not None:
                    tg = [(x.target, x.value)]
                for t, v in tg:
                    if isinstance(t, ast.Attribute) and t.attr == F:
                        in_init = f in an.init_closure
                        if isinstance(x, ast.AugAssign) or not isinstance(v, ast.Constant) or v.value not in (True, False) or (v.value is False and not in_init):
                            ok, why = False, f"`{ast.unparse(x)}` in {f.qualname} can clear the flag"
                        sets += 1
        if not sets:
            continue
        # every store of a possibly generated container sets the flag first
        gen_field = an.generated_flag
        fields = an.dataclass_fields(an.container_class)
        for f, n, m, recv in table_mutations(a, an.resource_table):
            if m.kind == "rebind" or f in an.init_closure:
                continue
            val = store_value(m)
            ctor = None
            if isinstance(val, ast.Name):
                srcs = find_assign_sources(f, val.id)
                ctor = srcs[0] if len(srcs) == 1 else None
            elif isinstance(val, ast.Call):
                ctor = val
            generated = None
            if isinstance(ctor, ast.Call) and a.callee(f, ctor).kind == "class" and a.callee(f, ctor).cls is an.container_class:
                generated = False
                idx = fields.index(gen_field) if gen_field in fields else None
                if idx is not None and len(ctor.args) > idx:
                    generated = None if not isinstance(ctor.args[idx], ast.Constant) else bool(ctor.args[idx].value)
                for kw in ctor.keywords:
                    if kw.arg == gen_field:
                        generated = None if not isinstance(kw.value, ast.Constant) else bool(kw.value.value)
            if generated is False:
                continue
            fcfg = a.cfg(f)
            setters = [x.id for x in fcfg.live_nodes() if x.kind == "stmt" and isinstance(x.ast, ast.Assign) and any(isinstance(t, ast.Attribute) and t.attr == F and isinstance(t.value, ast.Name) and t.value.id == "self" for t in x.ast.targets) and isinstance(x.ast.value, ast.Constant) and x.ast.value.value is True]
            if recv != ("self",) or not setters or not fcfg.all_paths_pass(fcfg.entry, [n.id], setters):
                ok, why = False, f"a (possibly) generated container is stored in {f.qualname} without `self.{F} = True` before it"
        if ok:
            rep.hold(rule, h, node, f"unfiltered copy only while the parent's `{F}` is false; `{F}` starts False, is only ever set to True, and is set before every store of a generated container")
            return True
        rep.note(f"{rule}: flag `{F}` does not justify the unfiltered copy: {why}")
    return False


def rule_r2(ctx, an: Anchors, rule: str = "C04.R2") -> None:
    from .discharge import implied_within

    rep = ctx.rep
    init = an.ctx_method("__init__")
    flag = an.generated_flag
    items = inherited_content(ctx, an, an.resource_table)
    inheriting = 0
    if not items:
        rep.unrecognised(rule, init, init.node, "constructor never binds the resource table")
        return
    for h, node, kind, detail in items:
        if kind == "fresh":
            continue
        inheriting += 1
        if kind == "comp":
            rep.check(rule, any(flag_filter_ok(c, flag) for c in detail), h, node, f"child copies only resources whose {flag} is false", f"child copies the parent's resources without filtering out {flag} ones: generated resources are inherited")
        elif kind == "copy_all" and _unfiltered_copy_guarded(ctx, an, h, node, rule):
            continue
        elif kind in ("copy_all", "alias"):
            rep.violate(rule, h, node, f"child resource table is bound to `{norm(node) if not isinstance(detail, ast.AST) else norm(detail)}`: generated resources of the parent are inherited (no filter on {flag})")
        elif kind == "loop_store":
            cfg, n, res_var, head = detail
            ok = False
            if res_var is not None and head is not None:
                probe = ast.Attribute(value=ast.Name(id=res_var, ctx=ast.Load()), attr=flag, ctx=ast.Load())
                ok = implied_within(cfg, n.id, probe, "f", [head.id])
            rep.check(rule, ok, h, node, f"the population loop copies only resources whose {flag} is false", f"constructor copies resources without testing {flag}: generated resources are inherited")
        else:
            rep.unrecognised(rule, h, node, f"unrecognised way of initialising the resource table ({detail})")
    if inheriting == 0:
        rep.unrecognised(rule, init, init.node, "constructor has no path that inherits the parent's resources")
    rep.floor(rule, inheriting, 1)


def rule_r3(ctx, an: Anchors, gs: GenBranch) -> None:
    rep = ctx.rep
    a = ctx.a
    f = gs.f
    cfg = a.cfg(f)
    # the coroutine test on the generated value
    tests = []
    for n in cfg.live_nodes():
        if n.kind == "test":
            for e in iter_own(n.ast):
                if isinstance(e, ast.Call) and call_name(e) in ("iscoroutine", "isawaitable") and e.args and isinstance(e.args[0], ast.Name) and e.args[0].id == gs.value_var:
                    tests.append(n)
    if not tests:
        rep.violate("C04.R3", f, gs.call, "the synchronous lookup never tests whether the factory returned a coroutine: an async factory's coroutine object would be stored as the resource")
        return
    t = tests[0]
    store_ids = [n.id for n, _ in gs.stores]
    rep.check("C04.R3", all(cfg.dominates(t.id, s) for s in store_ids), f, t.ast, "coroutine test dominates the store", "a store is reachable without the coroutine test")
    true_succ = [d for d, lab in t.succ if lab == "t"]
    region = cfg.reach(true_succ, avoid=[t.id])
    raises = [cfg.nodes[i] for i in region if cfg.nodes[i].kind == "stmt" and isinstance(cfg.nodes[i].ast, ast.Raise)]
    ok_raise = any("AsyncResourceError" in ast.unparse(exc_expr(r.ast)) for r in raises if r.ast.exc is not None)
    rep.check("C04.R3", ok_raise, f, t.ast, "coroutine branch raises AsyncResourceError", "coroutine branch does not raise AsyncResourceError")
    normal_region = cfg.reach(true_succ, avoid=[t.id], edge_ok=lambda s_, d_, lab: lab not in ("e", "h"))
    rep.check("C04.R3", cfg.exit not in normal_region, f, t.ast, "the coroutine branch never returns normally: every sync lookup of an async factory raises AsyncResourceError", "the coroutine branch can return normally (e.g. None for an optional lookup): the synchronous API reports 'not there' for a resource the asynchronous API returns - the two lookup paths disagree")
    reaches_store = any(s in region for s in store_ids)
    rep.check("C04.R3", not reaches_store, f, t.ast, "coroutine branch never reaches the store", "the coroutine branch can still store the coroutine object")
    closes = any(
        isinstance(e, ast.Call) and isinstance(e.func, ast.Attribute) and e.func.attr == "close" and isinstance(e.func.value, ast.Name) and e.func.value.id == gs.value_var
        for i in region
        for e in (iter_own(cfg.own_ast(cfg.nodes[i])) if cfg.own_ast(cfg.nodes[i]) is not None else [])
    )
    # (closing the rejected coroutine only avoids a "never awaited" RuntimeWarning: not part of
    # the statement)
    if closes:
        rep.hold("C04.R3", f, t.ast, "the rejected coroutine is closed", nontrivial=False)
    else:
        rep.note("C04.R3: the rejected coroutine object is not closed (RuntimeWarning only; not required by the statement)")
    # failure atomicity of both lookups (nothing may raise after the store)
    eff = c03.Effects(ctx)
    for g in (gs.f, an.ctx_method("get_resource")):
        pairs, effs, _ = c03.atomicity(ctx, eff, g)
        if pairs:
            en, rn, effect, reason = pairs[0]
            rep.violate("C04.R3", g, rn.ast if isinstance(rn.ast, ast.AST) else g.node, f"lookup may raise ({reason}) after it changed the context ({effect})")
        else:
            rep.hold("C04.R3", g, g.node, f"no may-raise node after any of the {len(effs)} state-changing nodes of the lookup")


def rule_r5(ctx, an: Anchors, gs: GenBranch, ga: GenBranch) -> None:
    rep = ctx.rep
    a = ctx.a
    for g in (gs, ga):
        f = g.f
        cfg = a.cfg(f)
        # whether the product is awaitable is decided from the PRODUCT (a plain callable may
        # return a coroutine): every un-awaited call of the factory callback is followed by an
        # isawaitable()/iscoroutine() test of its result before that result is stored
        plain = [n for n in cfg.live_nodes() if n.kind == "stmt" and isinstance(n.ast, ast.Assign) and isinstance(n.ast.value, ast.Call) and isinstance(n.ast.value.func, ast.Attribute) and isinstance(n.ast.value.func.value, ast.Name) and n.ast.value.func.value.id == g.factory_var and n.ast.value.func.attr == g.callback_field and isinstance(n.ast.targets[0], ast.Name)]
        for pn in plain:
            v_ = pn.ast.targets[0].id
            tests_ = [t.id for t in cfg.live_nodes() if t.kind == "test" and any(isinstance(c_, ast.Call) and call_name(c_) in ("isawaitable", "iscoroutine", "isfuture") and c_.args and isinstance(c_.args[0], ast.Name) and c_.args[0].id == v_ for c_ in ast.walk(t.ast))]
            sids_ = [s.id for s, _ in g.stores]
            ok_ = bool(tests_) and bool(sids_) and all(cfg.all_paths_pass(pn.id, [sid], tests_, edge_ok=lambda s_, d_, lab: lab not in ("e", "h")) for sid in sids_ if sid in cfg.reach([pn.id]))
            rep.check("C04.R5", ok_, f, pn.ast, "the factory's product is tested for being awaitable before it is stored", "a product of the factory callback can be stored without having been tested with isawaitable()/iscoroutine(): a plain callable returning a coroutine (lambda, partial, object with async __call__) leaves the un-awaited coroutine registered as the resource")
        for n, m in g.stores:
            recv_ok = any(p[:-1] == ("self",) for p in expand_alias(f, m.path))
            rep.check("C04.R5", recv_ok, f, m.node, "generated value is stored in the requesting context (self)", f"generated value is stored in {'.'.join(m.path)}, not in the requesting context")
        # own table first, then factory table
        from .tables import node_reads_table

        sids = [s.id for s, _ in g.stores]
        rnodes = [n for n in cfg.live_nodes() if n.id not in sids and node_reads_table(a, an, f, cfg, n, an.resource_table)]
        fnodes = [n for n in cfg.live_nodes() if node_reads_table(a, an, f, cfg, n, an.factory_table) or (cfg.own_ast(n) is not None and any(isinstance(e, ast.Attribute) and e.attr == an.factory_table for e in iter_own(cfg.own_ast(n))))]
        if not rnodes or not fnodes:
            rep.unrecognised("C04.R5", f, f.node, "lookup does not read both tables")
            continue
        first_f = fnodes[-1] if False else min(fnodes, key=lambda n: n.lineno)
        ok = any(cfg.dominates(r.id, first_f.id) for r in rnodes)
        rep.check("C04.R5", ok, f, first_f.ast, "the context's own resources are consulted before the factory table", "the factory table is consulted without first looking at the resource table")
        # the factory call happens once per lookup: not in a loop, dominated by the miss
        call_nodes = cfg.nodes_containing(g.call)
        in_loop = bool(enclosing_loops(f, g.call))
        rep.check("C04.R5", not in_loop and len(call_nodes) == 1, f, g.call, "the factory is called at one site outside any loop", "the factory call sits in a loop or on duplicated paths: it can run more than once per lookup")
        if call_nodes:
            rep.check("C04.R5", any(cfg.dominates(r.id, call_nodes[0].id) for r in rnodes), f, g.call, "factory call is dominated by the lookup of the own table (runs only on a miss)", "the factory can be called without the own table having been consulted")
            # hit path returns before the factory call
            hit_tests = [n for n in rnodes if n.kind == "test"]
            if hit_tests:
                ht = hit_tests[0]
                hit_side = [d for d, lab in ht.succ if lab == "t"]
                rep.check("C04.R5", call_nodes[0].id not in cfg.reach(hit_side, avoid=[ht.id]), f, ht.ast, "a hit returns without calling the factory", "the factory is reachable on the hit path")


def rule_stored_before_return(ctx, an: Anchors, gs: GenBranch, ga: GenBranch, rule: str) -> None:
    """Every normal path from the factory call to a return passes the store: a generated
    object that is handed out is always the one later lookups will find."""
    rep = ctx.rep
    for g in (gs, ga):
        cfg = ctx.a.cfg(g.f)
        cn = cfg.nodes_containing(g.call)
        if not cn:
            continue
        stores = [n.id for n, _ in g.stores]
        # a store inside `for t in factory.types` is represented by the loop head (the
        # zero-iteration path is infeasible: a factory always has at least one type)
        for _, m in g.stores:
            for it, tgt, loopnode in enclosing_loops(g.f, m.node):
                stores += [x.id for x in cfg.live_nodes() if x.kind == "for_next" and x.ast is loopnode]
        ok = cfg.all_paths_pass(cn[0].id, [cfg.exit], stores, edge_ok=lambda s_, d, lab: lab not in ("e", "h"))
        rep.check(rule, ok, g.f, g.call, "every path that returns the factory's product has stored it in the context first", "some path returns the factory's product without storing it: the next lookup calls the factory again and returns a different object")


def rule_r6(ctx, an: Anchors, gs: GenBranch, ga: GenBranch) -> None:
    rep = ctx.rep
    n = 0
    for g in (gs, ga):
        cfg = ctx.a.cfg(g.f)
        for sn, m in g.stores:
            n += 1
            if m.kind == "call:setdefault":
                rep.hold("C04.R6", g.f, m.node, "generation fills only keys that are still free (setdefault)")
            elif m.kind == "store" and c03.guarded_store(ctx, g.f, cfg, sn, m, an.resource_table):
                rep.hold("C04.R6", g.f, m.node, "generation store is guarded by a not-in test on its key")
            else:
                rep.violate("C04.R6", g.f, m.node, "generation stores under every factory type unconditionally: a resource already registered under one of the types is replaced")
    rep.floor("C04.R6", n, 2)


def rule_miss_after_factories(ctx, an: Anchors, rule: str = "C04.R1") -> None:
    """A lookup gives up (None for optional, ResourceNotFound otherwise) only after it has
    consulted the factory table: `optional=True` must not short-cut the generation."""
    rep = ctx.rep
    a = ctx.a
    for name in ("get_resource_nowait", "get_resource"):
        f = an.ctx_method(name)
        cfg = a.cfg(f)
        fac_nodes = [n.id for n in cfg.live_nodes() if cfg.own_ast(n) is not None and any(isinstance(e, ast.Attribute) and e.attr == an.factory_table and isinstance(e.ctx, ast.Load) for e in iter_own(cfg.own_ast(n)))]
        misses = [n for n in cfg.live_nodes() if n.kind == "stmt" and ((isinstance(n.ast, ast.Return) and (n.ast.value is None or is_const(n.ast.value, None))) or (isinstance(n.ast, ast.Raise) and n.ast.exc is not None and "ResourceNotFound" in ast.unparse(exc_expr(n.ast))))]
        if not fac_nodes or not misses:
            rep.unrecognised(rule, f, f.node, "lookup without a factory-table read / without a miss exit")
            continue
        # which way a miss goes: ResourceNotFound only for a mandatory lookup, and there is one
        if "optional" in f.params:
            from ..dataflow import ReachingDefs
            from ..facts import Facts

            facts = Facts(a, f, ReachingDefs(a, f))
            raises = [m for m in misses if isinstance(m.ast, ast.Raise)]
            wrong = [m for m in raises if not facts.implied(m.id, ast.Name(id="optional", ctx=ast.Load()), False)]
            rep.check(rule, bool(raises) and not wrong, f, (wrong[0] if wrong else raises[0] if raises else misses[0]).ast, f"{name} raises ResourceNotFound exactly on the mandatory (optional falsy) miss path ({len(raises)} site(s))", f"{name} " + ("can raise ResourceNotFound for an optional lookup" if wrong else "never raises ResourceNotFound: a mandatory lookup that misses yields None"))
        bad = [m for m in misses if not cfg.all_paths_pass(cfg.entry, [m.id], fac_nodes, edge_ok=lambda s_, d_, lab: lab not in ("e", "h") or s_.id in fac_nodes)]
        rep.check(rule, not bad, f, bad[0].ast if bad else misses[0].ast, f"every miss exit of {name} ({len(misses)}) comes after the factory table was consulted", f"{name} can report a miss (`{ast.unparse(bad[0].ast) if bad else ''}`) without having looked for a factory: an optional lookup never triggers the factory, so the lookup paths disagree on what is visible")


def sync_async_agreement(ctx) -> None:
    """R1 + R3 only (used by C02: all lookup paths agree on what is visible)."""
    an = Anchors(ctx.a)
    gs, ga = rule_r1(ctx, an)
    if gs.ok and ga.ok:
        rule_r3(ctx, an, gs)
    rule_miss_after_factories(ctx, an, "C04.R3")


def run(ctx) -> None:
    an = Anchors(ctx.a)
    gs, ga = rule_r1(ctx, an)
    rule_miss_after_factories(ctx, an)
    rule_r2(ctx, an)
    if gs.ok and ga.ok:
        rule_r3(ctx, an, gs)
        rule_r5(ctx, an, gs, ga)
        rule_r6(ctx, an, gs, ga)
        rule_stored_before_return(ctx, an, gs, ga, "C04.R5")
    c03.rule_r5(ctx, an, rule="C04.R4")
    from . import c18

    c18.hit_test_rule(ctx, an, "C04.R5")
    # one caller = one sequential series of lookups: @inject must not fan its lookups out over
    # concurrent tasks (two parameters served by one async factory would race each other)
    from .. import extern as _extern

    inj = ctx.p.public("inject")
    if isinstance(inj, FuncInfo):
        fns = [inj] + [g for g in ctx.p.all_functions() if g.parent is inj or (g.parent is not None and g.parent.parent is inj)]
        spawned = [(g, c) for g in fns for c, _cal in ctx.a.func_calls(g) if call_name(c) in _extern.SPAWN_METHODS or call_name(c) == "create_task_group"]
        for g, c in spawned:
            ctx.rep.violate("C04.R4", g, c, "@inject resolves its dependencies in concurrently running tasks: lookups of two parameters backed by the same factory race, the factory runs more than once and the function receives objects that are not the registered one")
        if not spawned:
            ctx.rep.hold("C04.R4", inj, None, f"the {len(fns)} functions of @inject spawn no tasks: injected lookups are strictly sequential", nontrivial=False)
    # "generated in, stored in and owned by the REQUESTING context": lookups never walk to
    # another context (C02.R3, incl. helpers the lookups call)
    from .common import include_rules

    include_rules(ctx, "c02", "C04.R6", only=("C02.R3",))
