"""
Behaviour check for refactoring 2 (idiom changes in ``_init_component``, the function
that instantiates the whole component hierarchy before anything is prepared/started).
"""

from __future__ import annotations

from collections import UserDict
from typing import Any

import anyio
import pytest

from asphalt.core import (
    Component,
    ComponentStartError,
    Context,
    add_resource,
    get_resource,
    get_resource_nowait,
    start_component,
)

pytestmark = pytest.mark.anyio()


class Leaf(Component):
    log: list[tuple[str, str]] = []

    def __init__(self, label: str = "?", **kwargs: Any) -> None:
        self.label = label
        self.kwargs = kwargs
        self.log.append(("init", label))

    async def prepare(self) -> None:
        self.log.append(("prepare", self.label))

    async def start(self) -> None:
        await anyio.sleep(0.01)
        self.log.append(("start", self.label))
        add_resource(self.label)


class Branch(Leaf):
    def __init__(self, label: str = "?", **kwargs: Any) -> None:
        super().__init__(label, **kwargs)
        self.add_component("one", Leaf, label=f"{label}.one")
        self.add_component("two/alt", Leaf, label=f"{label}.two")
        self.add_component("nested", Mid, label=f"{label}.nested")

    async def start(self) -> None:
        self.log.append(("start", self.label))


class Mid(Leaf):
    def __init__(self, label: str = "?", **kwargs: Any) -> None:
        super().__init__(label, **kwargs)
        self.add_component("deep/x", Leaf, label=f"{label}.deep")

    async def start(self) -> None:
        self.log.append(("start", self.label))


@pytest.fixture(autouse=True)
def clear_log() -> None:
    Leaf.log.clear()


async def test_whole_hierarchy_constructed_first_in_depth_first_order() -> None:
    async with Context():
        with anyio.fail_after(3):
            root = await start_component(Branch, {"label": "r"})

        assert isinstance(root, Branch)
        log = Leaf.log
        inits = [label for what, label in log if what == "init"]
        # Depth-first, declaration order, parent before children
        assert inits == ["r", "r.one", "r.two", "r.nested", "r.nested.deep"]
        # All constructed before the first prepare()/start()
        assert [what for what, _ in log[:5]] == ["init"] * 5
        assert all(what != "init" for what, _ in log[5:])
        assert log[5] == ("prepare", "r")
        assert log[-1] == ("start", "r")
        for label in inits:
            assert log.count(("prepare", label)) == 1
            assert log.count(("start", label)) == 1

        # Default resource names derived from the alias ("two/alt" -> "alt", etc.)
        assert get_resource_nowait(str) == "r.one"
        assert get_resource_nowait(str, "alt") == "r.two"
        assert get_resource_nowait(str, "x") == "r.nested.deep"


@pytest.fixture
def leaf_entrypoint(monkeypatch: pytest.MonkeyPatch) -> None:
    from unittest.mock import Mock

    from asphalt.core._component import component_types

    entrypoint = Mock()
    entrypoint.load.configure_mock(return_value=Leaf)
    monkeypatch.setattr(component_types, "_entrypoints", {"leaf": entrypoint})


@pytest.mark.usefixtures("leaf_entrypoint")
async def test_external_config_merging_and_caller_config_not_modified() -> None:
    child_override = UserDict({"type": Leaf, "label": "overridden", "extra": 1})
    nested_override = {"components": {"deep/x": {"label": "deep-overridden"}}}
    config: dict[str, Any] = {
        "label": "r",
        "components": {
            "one": child_override,
            "two/alt": {},
            "leaf/viaalias": None,
            "nested": nested_override,
            "added/extra": {"type": Leaf, "label": "added"},
        },
    }
    async with Context():
        with anyio.fail_after(3):
            await start_component(Branch, config)

        inits = [label for what, label in Leaf.log if what == "init"]
        assert inits == [
            "r",
            "overridden",
            "r.two",
            "r.nested",
            "deep-overridden",
            "?",
            "added",
        ]
        assert get_resource_nowait(str, "viaalias") == "?"
        assert get_resource_nowait(str) == "overridden"
        assert get_resource_nowait(str, "alt") == "r.two"
        assert get_resource_nowait(str, "x") == "deep-overridden"
        assert get_resource_nowait(str, "extra") == "added"

    # The child configurations passed by the caller are left alone
    assert dict(child_override) == {"type": Leaf, "label": "overridden", "extra": 1}
    assert nested_override == {"components": {"deep/x": {"label": "deep-overridden"}}}
    assert config["components"]["added/extra"] == {"type": Leaf, "label": "added"}
    assert config["components"]["two/alt"] == {}
    assert config["components"]["leaf/viaalias"] is None


@pytest.mark.usefixtures("leaf_entrypoint")
async def test_type_from_alias_and_slash_in_type() -> None:
    class Root(Component):
        def __init__(self) -> None:
            # type taken from the alias, with the part after the slash cut off
            self.add_component("leaf/second", label="second")
            self.add_component("leaf", label="first")

    async with Context():
        with anyio.fail_after(3):
            await start_component(
                Root,
                {"components": {"third/t3": {"type": "leaf/ignored", "label": "third"}}},
            )

        assert get_resource_nowait(str) == "first"
        assert get_resource_nowait(str, "t3") == "third"
        assert get_resource_nowait(str, "second") == "second"

    inits = [label for what, label in Leaf.log if what == "init"]
    assert inits == ["second", "first", "third"]


async def test_third_default_resource_conflict() -> None:
    """Two children publishing the same default name conflict - in either version."""

    class Root(Component):
        def __init__(self) -> None:
            self.add_component("a", Leaf, label="a")
            self.add_component("b", Leaf, label="b")

    with pytest.raises(ComponentStartError) as exc:
        async with Context():
            await start_component(Root)

    assert "error starting component" in str(exc.value)


@pytest.mark.parametrize(
    "bad_config, type_name",
    [(5, "int"), ("text", "str"), ([("label", "x")], "list"), ((), "tuple")],
)
async def test_bad_child_config_type(bad_config: Any, type_name: str) -> None:
    async with Context():
        with pytest.raises(TypeError) as exc:
            await start_component(Branch, {"components": {"nested": bad_config}})

    assert str(exc.value) == (
        "nested: component configuration must be either None or a dict (or any other "
        f"mutable mapping type), not {type_name}"
    )
    # Construction stopped at the bad child; nothing was prepared or started
    assert Leaf.log == [("init", "?"), ("init", "?.one"), ("init", "?.two")]


async def test_constructor_error_in_grandchild_aborts_before_any_prepare() -> None:
    class Exploding(Component):
        def __init__(self, **kwargs: Any) -> None:
            raise RuntimeError("no way")

    with pytest.raises(
        ComponentStartError, match="error creating component 'nested.deep/x'"
    ) as exc:
        async with Context():
            await start_component(
                Branch,
                {"components": {"nested": {"components": {"deep/x": {"type": Exploding}}}}},
            )

    assert isinstance(exc.value.__cause__, RuntimeError)
    assert all(what == "init" for what, _ in Leaf.log)


async def test_bad_component_class_in_child() -> None:
    async with Context():
        with pytest.raises(TypeError) as exc:
            await start_component(Branch, {"components": {"one": {"type": int}}})

    assert str(exc.value).startswith("one: the declared component type (<class 'int'>)")


async def test_sibling_waits_for_aliased_default_resource() -> None:
    class Consumer(Component):
        got: str | None = None

        async def start(self) -> None:
            type(self).got = await get_resource(str, "alt")

    class Root(Component):
        def __init__(self) -> None:
            self.add_component("consumer", Consumer)
            self.add_component("two/alt", Leaf, label="producer")

    async with Context():
        with anyio.fail_after(3):
            await start_component(Root)

    assert Consumer.got == "producer"
