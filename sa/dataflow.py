"""Reaching definitions on the statement CFG, and flow-sensitive def-use closures."""
from __future__ import annotations

import ast
from dataclasses import dataclass, field

from .cfg import CFG, Node, iter_own
from .effects import Analysis
from .loader import FuncInfo, dotted

PARAM = -1


def _targets(t) -> list:
    out = []
    if isinstance(t, (ast.Tuple, ast.List)):
        for e in t.elts:
            out += _targets(e)
    elif isinstance(t, ast.Starred):
        out += _targets(t.value)
    elif isinstance(t, ast.Name):
        out.append(t.id)
    elif isinstance(t, ast.Attribute):
        d = dotted(t)
        if d:
            out.append(d)
    return out


@dataclass
class Closure:
    names: set = field(default_factory=set)  # parameter / free names reached
    attrs: set = field(default_factory=set)  # dotted attribute paths
    consts: set = field(default_factory=set)  # constant values (str/int/...)
    exprs: list = field(default_factory=list)  # every source expression visited
    calls: list = field(default_factory=list)  # ast.Call nodes among them


class ReachingDefs:
    def __init__(self, a: Analysis, func: FuncInfo):
        self.a = a
        self.func = func
        self.cfg = a.cfg(func)
        self.defs_of: dict = {}  # node id -> {var: value expr or None}
        self._collect()
        self.IN: dict = {}
        self._solve()

    def _collect(self) -> None:
        cfg = self.cfg
        for n in cfg.live_nodes():
            d: dict = {}
            if n.kind == "for_next":
                for v in _targets(n.ast.target):
                    d[v] = ("iter", n.ast.iter)
            elif n.kind == "with_enter":
                if n.item.optional_vars is not None:
                    for v in _targets(n.item.optional_vars):
                        d[v] = ("with", n.item.context_expr)
                for e in iter_own(n.item.context_expr):
                    if isinstance(e, ast.NamedExpr):
                        for v in _targets(e.target):
                            d[v] = ("value", e.value)
            elif n.kind == "handler":
                if n.ast.name:
                    d[n.ast.name] = ("exc", n.ast.type)
            else:
                root = cfg.own_ast(n)
                if root is not None:
                    for e in iter_own(root):
                        if isinstance(e, ast.NamedExpr):
                            for v in _targets(e.target):
                                d[v] = ("value", e.value)
                    s = n.ast if n.kind == "stmt" else None
                    if isinstance(s, ast.Assign):
                        for t in s.targets:
                            if isinstance(t, (ast.Tuple, ast.List)) and isinstance(s.value, (ast.Tuple, ast.List)) and len(t.elts) == len(s.value.elts):
                                for tt, vv in zip(t.elts, s.value.elts):
                                    for v in _targets(tt):
                                        d[v] = ("value", vv)
                            else:
                                ts = _targets(t)
                                for v in ts:
                                    d[v] = ("value", s.value) if not isinstance(t, (ast.Tuple, ast.List)) else ("elem", s.value)
                    elif isinstance(s, ast.AnnAssign) and s.value is not None:
                        for v in _targets(s.target):
                            d[v] = ("value", s.value)
                    elif isinstance(s, ast.AugAssign):
                        for v in _targets(s.target):
                            d[v] = ("aug", s.value)
                    elif isinstance(s, (ast.FunctionDef, ast.AsyncFunctionDef)):
                        d[s.name] = ("def", s)
                    elif isinstance(s, (ast.Import, ast.ImportFrom)):
                        for al in s.names:
                            d[(al.asname or al.name).split(".")[0]] = ("import", None)
            if d:
                self.defs_of[n.id] = d

    def _solve(self) -> None:
        cfg = self.cfg
        entry_state = {p: frozenset([PARAM]) for p in (self.func.params if not self.func.is_lambda else [])}
        IN = {cfg.entry: entry_state}
        work = [cfg.entry]
        while work:
            nid = work.pop()
            st = IN[nid]
            out = dict(st)
            d = self.defs_of.get(nid)
            if d:
                for v, (kind, _) in d.items():
                    if kind == "aug":
                        out[v] = out.get(v, frozenset()) | {nid}
                    else:
                        out[v] = frozenset([nid])
            for dst, lab in cfg.nodes[nid].succ:
                cur = IN.get(dst)
                if cur is None:
                    IN[dst] = dict(out)
                    work.append(dst)
                else:
                    changed = False
                    for v, ds in out.items():
                        nv = cur.get(v, frozenset()) | ds
                        if nv != cur.get(v):
                            cur[v] = nv
                            changed = True
                    if changed:
                        work.append(dst)
        self.IN = IN

    # ------------------------------------------------------------------ queries
    def at(self, node_id: int, var: str) -> frozenset:
        return self.IN.get(node_id, {}).get(var, frozenset())

    def def_info(self, def_id: int, var: str):
        if def_id == PARAM:
            return ("param", None)
        return self.defs_of.get(def_id, {}).get(var)

    def closure_at(self, node_id: int, expr, limit: int = 300) -> Closure:
        """Everything the value of ``expr``, evaluated at CFG node ``node_id``, may be derived from."""
        c = Closure()
        seen: set = set()
        work = [(node_id, expr)]
        steps = 0
        while work and steps < limit:
            steps += 1
            nid, e = work.pop()
            if e is None:
                continue
            c.exprs.append(e)
            for sub in ast.walk(e):
                if isinstance(sub, ast.Lambda):
                    continue
                if isinstance(sub, ast.Constant):
                    try:
                        c.consts.add(sub.value)
                    except TypeError:
                        pass
                elif isinstance(sub, ast.Call):
                    c.calls.append(sub)
                elif isinstance(sub, ast.Attribute):
                    d = dotted(sub)
                    if d:
                        c.attrs.add(d)
                        for di in self.at(nid, d):
                            key = (di, d)
                            if key not in seen:
                                seen.add(key)
                                info = self.def_info(di, d)
                                if info and info[1] is not None and isinstance(info[1], ast.AST) and info[0] != "def":
                                    work.append((di, info[1]))
                elif isinstance(sub, ast.Name) and isinstance(sub.ctx, ast.Load):
                    defs = self.at(nid, sub.id)
                    if not defs:
                        c.names.add(sub.id)
                    for di in defs:
                        key = (di, sub.id)
                        if key in seen:
                            continue
                        seen.add(key)
                        info = self.def_info(di, sub.id)
                        if info is None:
                            continue
                        if info[0] == "param":
                            c.names.add(sub.id)
                        elif info[0] in ("def", "import"):
                            c.names.add(sub.id)
                        elif isinstance(info[1], ast.AST):
                            work.append((di, info[1]))
        return c

    def node_of(self, target: ast.AST) -> int | None:
        ns = self.cfg.nodes_containing(target)
        return ns[0].id if ns else None


    # ------------------------------------------------------------------ copy propagation
    def resolve(self, node_id: int, expr, depth: int = 5):
        """``expr`` with local names replaced by what they are a plain copy of (single reaching
        definition whose value is a name / attribute chain / constant), evaluated at ``node_id``.
        `x = ctx._children; for c in x.values()`  ->  `ctx._children.values()`."""
        import copy as _copy

        rd = self

        class R(ast.NodeTransformer):
            def visit_Lambda(self, node):
                return node

            def visit_Name(self, node: ast.Name):
                if not isinstance(node.ctx, ast.Load) or depth <= 0:
                    return node
                defs = rd.at(node_id, node.id)
                if len(defs) != 1:
                    return node
                (d,) = defs
                info = rd.def_info(d, node.id)
                if not info or info[0] != "value" or not isinstance(info[1], ast.AST):
                    return node
                v = info[1]
                if isinstance(v, ast.Await):
                    return node
                if _is_copyable(v):
                    return rd.resolve(d, _copy.deepcopy(v), depth - 1)
                return node

        return R().visit(_copy.deepcopy(expr))

    def def_expr(self, node_id: int, expr):
        """If expr is a local name with a single reaching value definition, that definition's
        expression (whatever it is); else expr itself."""
        seen = 0
        while isinstance(expr, ast.Name) and seen < 5:
            defs = self.at(node_id, expr.id)
            if len(defs) != 1:
                break
            (d,) = defs
            info = self.def_info(d, expr.id)
            if not info or info[0] != "value" or not isinstance(info[1], ast.AST):
                break
            expr, node_id = info[1], d
            seen += 1
        return expr

    def text(self, node_id: int, expr) -> str:
        return ast.unparse(self.resolve(node_id, expr)) if expr is not None else ""


def _is_copyable(v) -> bool:
    if isinstance(v, (ast.Name, ast.Constant)):
        return True
    if isinstance(v, ast.Attribute):
        return _is_copyable(v.value)
    return False
