"""
Behaviour checks for refactoring 3 (private attribute renames on ``Component``, error
messages hoisted to module level templates, guard helpers for ``start_component()``).

Everything is exercised through the public API only.
"""

from __future__ import annotations

import sys
from collections import UserDict
from typing import Any
from unittest.mock import Mock

import pytest
from anyio import sleep
from pytest import MonkeyPatch

from asphalt.core import (
    Component,
    ComponentStartError,
    Context,
    NoCurrentContext,
    add_resource,
    get_resource_nowait,
    start_component,
)
from asphalt.core._component import component_types

if sys.version_info >= (3, 10):
    from importlib.metadata import EntryPoint
else:
    from importlib_metadata import EntryPoint

pytestmark = pytest.mark.anyio()

ADD_AFTER_START = (
    "child components cannot be added once start_component() has been called on the "
    "component"
)

created: list[str] = []


class Leaf(Component):
    def __init__(self, tag: str = "leaf", **kwargs: Any) -> None:
        self.tag = tag
        self.kwargs = kwargs
        created.append(tag)

    async def start(self) -> None:
        add_resource(self.tag)


class Container(Component):
    def __init__(self, children: int = 0) -> None:
        created.append("container")
        for index in range(children):
            self.add_component(f"leaf/c{index}", tag=f"c{index}")


@pytest.fixture(autouse=True)
def setup(monkeypatch: MonkeyPatch) -> None:
    created.clear()
    entrypoint = Mock(EntryPoint)
    entrypoint.load.configure_mock(return_value=Leaf)
    monkeypatch.setattr(component_types, "_entrypoints", {"leaf": entrypoint})
    monkeypatch.setattr(component_types, "_resolved", {})


# -- start_component() guards ------------------------------------------------------


async def test_no_context() -> None:
    with pytest.raises(RuntimeError) as exc:
        await start_component(Leaf)

    assert type(exc.value) is RuntimeError
    assert str(exc.value) == "start_component() requires an active Asphalt context"
    assert exc.value.__cause__ is None
    assert exc.value.__suppress_context__ is True
    assert isinstance(exc.value.__context__, NoCurrentContext)
    assert created == []


async def test_no_context_is_checked_before_config_and_type() -> None:
    with pytest.raises(RuntimeError, match="requires an active Asphalt context"):
        await start_component(Leaf, "bad config")  # type: ignore[call-overload]

    with pytest.raises(RuntimeError, match="requires an active Asphalt context"):
        await start_component(int, None)  # type: ignore[type-var]


@pytest.mark.parametrize(
    "bad_config", ["foo", ["a"], (), 0, False, 1.5, frozenset(), b""], ids=repr
)
async def test_bad_root_config(bad_config: object) -> None:
    async with Context():
        with pytest.raises(TypeError) as exc:
            await start_component(Leaf, bad_config)  # type: ignore[call-overload]

    assert str(exc.value) == (
        "config must be a dict (or any other mutable mapping) or None"
    )
    assert exc.value.__cause__ is None
    assert created == []


async def test_bad_root_config_is_checked_before_type() -> None:
    async with Context():
        with pytest.raises(TypeError, match="config must be a dict"):
            await start_component("nonexistent", "foo")  # type: ignore[call-overload]

        with pytest.raises(LookupError, match="no such entry point"):
            await start_component("nonexistent", {})


async def test_root_config_variants() -> None:
    for args in ((), (None,), ({},), (UserDict(),)):
        async with Context():
            root = await start_component(Leaf, *args)
            assert type(root) is Leaf
            assert root.tag == "leaf" and root.kwargs == {}
            assert get_resource_nowait(str) == "leaf"

    config = {"tag": "configured", "x": 1, "components": {"leaf/sub": {"tag": "sub"}}}
    wrapped = UserDict(config)
    async with Context():
        root = await start_component("leaf", wrapped)
        assert isinstance(root, Leaf)
        assert root.tag == "configured" and root.kwargs == {"x": 1}
        assert get_resource_nowait(str, "sub") == "sub"

    # The configuration passed by the caller is never modified
    assert set(config) == set(wrapped) == {"tag", "x", "components"}
    assert config["components"] == {"leaf/sub": {"tag": "sub"}}


async def test_type_key_in_root_config_takes_precedence() -> None:
    async with Context():
        root = await start_component(Container, {"type": "leaf", "tag": "sneaky"})
        assert type(root) is Leaf
        assert root.tag == "sneaky"

        with pytest.raises(TypeError) as exc:
            await start_component(Leaf, {"type": {"a": "{b}"}})

    assert str(exc.value) == (
        "(root): the declared component type ({'a': '{b}'}) resolved to "
        "{'a': '{b}'} which is not a subclass of Component"
    )
    assert created == ["sneaky"]


async def test_bad_component_type_messages() -> None:
    class NotAComponent:
        def __repr__(self) -> str:
            return "{0} {} {path!r} %s"

    instance = NotAComponent()
    async with Context():
        with pytest.raises(TypeError) as exc:
            await start_component(instance)  # type: ignore[call-overload]

        assert str(exc.value) == (
            "(root): the declared component type ({0} {} {path!r} %s) resolved to "
            "{0} {} {path!r} %s which is not a subclass of Component"
        )

        config = {"components": {"a{}": {"type": Container, "components": {"b": 7}}}}
        with pytest.raises(TypeError) as exc:
            await start_component(Container, config)

        assert str(exc.value) == (
            "a{}.b: component configuration must be either None or a dict (or any "
            "other mutable mapping type), not int"
        )

        config = {"components": {"a{}": {"type": Container, "components": {"b": {}}}}}
        with pytest.raises(LookupError):
            await start_component(Container, config)

        config["components"]["a{}"]["components"]["b"]["type"] = NotAComponent
        with pytest.raises(TypeError) as exc:
            await start_component(Container, config)

        assert str(exc.value) == (
            f"a{{}}.b: the declared component type ({NotAComponent!r}) resolved to "
            f"{NotAComponent!r} which is not a subclass of Component"
        )


@pytest.mark.parametrize("timeout", [None, 0, 0.0, False, 5, 0.5])
async def test_timeout_values_that_do_not_expire(timeout: Any) -> None:
    class Slowish(Component):
        async def start(self) -> None:
            await sleep(0.05)
            add_resource(1)

    async with Context():
        root = await start_component(Slowish, {}, timeout=timeout)
        assert type(root) is Slowish
        assert get_resource_nowait(int) == 1


async def test_timeout_expiry_and_failure_with_watchdog() -> None:
    class Stalling(Component):
        async def prepare(self) -> None:
            await sleep(5)

    class Failing(Component):
        async def start(self) -> None:
            await sleep(0.01)
            raise LookupError("nope")

    async with Context():
        with pytest.raises(TimeoutError) as exc:
            await start_component(Stalling, timeout=0.05)

        assert str(exc.value) == "timeout starting component tree"

        for timeout in (None, 3):
            with pytest.raises(ComponentStartError) as exc2:
                await start_component(Failing, timeout=timeout)

            assert exc2.value.phase == "starting"
            assert type(exc2.value.__cause__) is LookupError


# -- Component.add_component() -----------------------------------------------------


@pytest.mark.parametrize("alias", ["dup", "{}", "{0}", "{alias!r}", "%s", 'q"uote'])
def test_duplicate_alias_message(alias: str) -> None:
    component = Component()
    component.add_component(alias, Leaf)
    with pytest.raises(ValueError) as exc:
        component.add_component(alias)

    assert exc.value.args == (f'there is already a child component named "{alias}"',)
    # Other aliases are still fine
    component.add_component(alias + "2")


def test_str_subclass_alias() -> None:
    class Fancy(str):
        def __format__(self, spec: str) -> str:
            return "formatted"

        def __str__(self) -> str:
            return "stringified"

    component = Component()
    component.add_component(Fancy("x"), Leaf)
    with pytest.raises(ValueError) as exc:
        component.add_component(Fancy("x"), Leaf)

    assert str(exc.value) == 'there is already a child component named "formatted"'


@pytest.mark.parametrize("alias", ["", 0, None, 3.5, b"x", ("a",)], ids=repr)
def test_bad_alias(alias: object) -> None:
    component = Component()
    component.add_component("taken")
    with pytest.raises(TypeError) as exc:
        component.add_component(alias, Leaf)  # type: ignore[arg-type]

    assert exc.value.args == ("alias must be a nonempty string",)


async def test_children_are_per_instance_and_actually_started() -> None:
    first = Container(2)
    second = Container(1)
    first.add_component("leaf/extra", tag="extra")
    del first, second  # only their class-level state could have leaked

    async with Context():
        root = await start_component(Container, {"children": 1})
        assert get_resource_nowait(str, "c0") == "c0"
        assert get_resource_nowait(str, "c1", optional=True) is None
        assert get_resource_nowait(str, "extra", optional=True) is None

        # The started instance is sealed...
        with pytest.raises(RuntimeError) as exc:
            root.add_component("leaf/late")

        assert exc.value.args == (ADD_AFTER_START,)
        # ...and the "started" check comes before alias validation
        with pytest.raises(RuntimeError):
            root.add_component("")  # type: ignore[arg-type]

        with pytest.raises(RuntimeError):
            root.add_component("leaf/c0")

        # ...but a fresh instance of the same class is not
        fresh = Container()
        fresh.add_component("leaf/late")
        with pytest.raises(ValueError):
            fresh.add_component("leaf/late")


async def test_add_component_in_prepare_and_start_of_root_and_child() -> None:
    class AddsInPrepare(Component):
        async def prepare(self) -> None:
            self.add_component("leaf")

    class AddsInStart(Component):
        async def start(self) -> None:
            self.add_component("leaf")

    for cls, phase in ((AddsInPrepare, "preparing"), (AddsInStart, "starting")):
        async with Context():
            with pytest.raises(ComponentStartError) as exc:
                await start_component(cls)

            assert (exc.value.phase, exc.value.path) == (phase, "")
            assert type(exc.value.__cause__) is RuntimeError
            assert exc.value.__cause__.args == (ADD_AFTER_START,)
            assert str(exc.value) == (
                f"error {phase} the root component ({__name__}."
                f"test_add_component_in_prepare_and_start_of_root_and_child.<locals>."
                f"{cls.__name__}): RuntimeError: {ADD_AFTER_START}"
            )

        async with Context():
            with pytest.raises(ComponentStartError) as exc:
                await start_component(
                    Container, {"children": 1, "components": {"kid": {"type": cls}}}
                )

            assert (exc.value.phase, exc.value.path) == (phase, "kid")
            assert exc.value.component_type is cls
            assert exc.value.__cause__.args == (ADD_AFTER_START,)  # type: ignore[union-attr]

    assert "leaf" not in created


async def test_hardcoded_children_merge_with_config() -> None:
    class Parent(Component):
        def __init__(self) -> None:
            self.add_component("leaf/a", tag="a", opts={"x": 1})
            self.add_component("b/bres", Leaf, tag="b")
            self.add_component("leaf", type=None)

    async with Context():
        await start_component(
            Parent,
            {
                "components": {
                    "leaf/a": {"opts": {"y": 2}},
                    "b/bres": {"tag": "b2"},
                    "leaf/c": None,
                }
            },
        )
        assert get_resource_nowait(str, "a") == "a"
        assert get_resource_nowait(str, "bres") == "b2"
        assert get_resource_nowait(str, "c") == "leaf"
        assert get_resource_nowait(str) == "leaf"

    assert created == ["a", "b2", "leaf", "leaf"]
