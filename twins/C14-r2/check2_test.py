"""
Behaviour check for refactoring 2 (merge_config restructured; locals of
_init_component renamed).

Exercises the layered deep merge of add_component() defaults with the external
``components`` configuration at several depths, config-only children, ``None`` child
configs, dict-vs-non-dict replacement rules, ordering of children, and
merge_config() itself (public API) including its non-mutation guarantees.
"""

from __future__ import annotations

from collections import OrderedDict
from copy import deepcopy
from types import MappingProxyType
from typing import Any

import pytest

from asphalt.core import Component, Context, merge_config, start_component

pytestmark = pytest.mark.anyio()

CREATED: list[tuple[str, str, dict[str, Any]]] = []


class Leaf(Component):
    def __init__(self, ident: str = "?", **kwargs: Any) -> None:
        CREATED.append(("Leaf", ident, kwargs))


class Mid(Component):
    def __init__(self, ident: str = "?", **kwargs: Any) -> None:
        CREATED.append(("Mid", ident, kwargs))
        self.add_component(
            "inner",
            Leaf,
            ident=f"{ident}.inner",
            opts={"a": 1, "b": {"c": 2, "d": 3}},
            seq=[1, 2],
            scalar=1,
        )
        self.add_component("other", Leaf, ident=f"{ident}.other")


class Root(Component):
    def __init__(self, **kwargs: Any) -> None:
        CREATED.append(("Root", "", kwargs))
        self.add_component("mid", Mid, ident="mid", level=1)
        self.add_component("solo", Leaf, ident="solo", opts={"keep": True})


@pytest.fixture(autouse=True)
def clear_created() -> None:
    CREATED.clear()


async def test_defaults_only() -> None:
    async with Context():
        await start_component(Root)

    assert CREATED == [
        ("Root", "", {}),
        ("Mid", "mid", {"level": 1}),
        (
            "Leaf",
            "mid.inner",
            {"opts": {"a": 1, "b": {"c": 2, "d": 3}}, "seq": [1, 2], "scalar": 1},
        ),
        ("Leaf", "mid.other", {}),
        ("Leaf", "solo", {"opts": {"keep": True}}),
    ]


EXTERNAL: dict[str, Any] = {
    "rootopt": {"x": 1},
    "components": {
        # config-only child listed first: must still come after the hard-coded ones
        "extra": {"type": Leaf, "ident": "extra", "opts": {"n": None}},
        "mid": {
            "level": 2,
            "components": {
                "inner": {
                    "opts": {"b": {"d": 4, "e": 5}, "f": 6},  # deep merge
                    "seq": [3],  # lists are replaced, not merged
                    "scalar": {"now": "dict"},  # non-dict replaced by dict
                },
                "other": {},  # an empty override leaves the defaults as they are
                "added": {"type": Leaf, "ident": "mid.added"},
                "deeper": {
                    "type": Mid,
                    "ident": "mid.deeper",
                    "components": {"inner": {"opts": {"b": "flat"}}},
                },
            },
        },
        "solo": {"opts": {}, "ident": "solo2"},  # empty dict override merges to same
    },
}


async def test_layered_merge_at_every_depth() -> None:
    async with Context():
        await start_component(Root, EXTERNAL)

    assert CREATED == [
        ("Root", "", {"rootopt": {"x": 1}}),
        ("Mid", "mid", {"level": 2}),
        (
            "Leaf",
            "mid.inner",
            {
                "opts": {"a": 1, "b": {"c": 2, "d": 4, "e": 5}, "f": 6},
                "seq": [3],
                "scalar": {"now": "dict"},
            },
        ),
        ("Leaf", "mid.other", {}),
        ("Leaf", "mid.added", {}),
        ("Mid", "mid.deeper", {}),
        (
            "Leaf",
            "mid.deeper.inner",
            {"opts": {"a": 1, "b": "flat"}, "seq": [1, 2], "scalar": 1},
        ),
        ("Leaf", "mid.deeper.other", {}),
        ("Leaf", "solo2", {"opts": {"keep": True}}),
        ("Leaf", "extra", {"opts": {"n": None}}),
    ]


async def test_equal_configs_give_equal_trees_and_config_is_reusable() -> None:
    config = deepcopy(EXTERNAL)
    pristine = deepcopy(EXTERNAL)
    async with Context():
        await start_component(Root, config)

    first = list(CREATED)
    assert config == pristine
    CREATED.clear()
    async with Context():
        await start_component(Root, config)

    assert CREATED == first
    assert config == pristine
    CREATED.clear()
    async with Context():
        await start_component(Root, deepcopy(pristine))

    assert CREATED == first


async def test_none_overriding_a_hard_coded_child_drops_its_defaults() -> None:
    # An explicit None *replaces* the hard-coded dict (None is not a dict, so no merge)
    class Parent(Component):
        def __init__(self) -> None:
            self.add_component("child", Leaf, ident="hard-coded", z=1)

    async with Context():
        with pytest.raises(LookupError, match="no such entry point"):
            # the type (Leaf) was part of the hard-coded config that got replaced, so
            # the type falls back to the alias "child" which is not resolvable
            await start_component(Parent, {"components": {"child": None}})

    assert CREATED == []
    async with Context():
        await start_component(Parent, {"components": {"child": {}}})
        await start_component(Parent, {"components": {}})
        await start_component(Parent, {"components": None})

    assert CREATED == [("Leaf", "hard-coded", {"z": 1})] * 3


def test_merge_config_semantics() -> None:
    original = {"a": 1, "b": {"x": 1, "y": {"p": 1}}, "c": {"k": 1}, "d": [1]}
    overrides = {"b": {"y": {"q": 2}, "z": 3}, "c": 5, "d": {"new": 1}, "e": {"f": 1}}
    original_copy = deepcopy(original)
    overrides_copy = deepcopy(overrides)
    merged = merge_config(original, overrides)
    assert merged == {
        "a": 1,
        "b": {"x": 1, "y": {"p": 1, "q": 2}, "z": 3},
        "c": 5,
        "d": {"new": 1},
        "e": {"f": 1},
    }
    assert list(merged) == ["a", "b", "c", "d", "e"]
    assert original == original_copy
    assert overrides == overrides_copy
    # merged nested dicts are fresh objects; untouched ones are shared with original
    assert merged["b"] is not original["b"]
    assert merged["b"]["y"] is not original["b"]["y"]
    assert merged["e"] is overrides["e"]
    assert merged["d"] is overrides["d"]


@pytest.mark.parametrize(
    "original, overrides, expected",
    [
        (None, None, {}),
        ({}, {}, {}),
        ({"a": 1}, None, {"a": 1}),
        ({"a": 1}, {}, {"a": 1}),
        (None, {"a": 1}, {"a": 1}),
        ({}, {"a": {"b": 1}}, {"a": {"b": 1}}),
        ({"a": None}, {"a": {"b": 1}}, {"a": {"b": 1}}),
        ({"a": {"b": 1}}, {"a": None}, {"a": None}),
        ({"a": {"b": 1}}, {"a": {}}, {"a": {"b": 1}}),
        ({"a": {}}, {"a": {"b": 1}}, {"a": {"b": 1}}),
    ],
)
def test_merge_config_edge_cases(
    original: dict[str, Any] | None,
    overrides: dict[str, Any] | None,
    expected: dict[str, Any],
) -> None:
    result = merge_config(original, overrides)
    assert result == expected
    assert type(result) is dict
    assert result is not original
    assert result is not overrides


def test_merge_config_non_dict_mappings() -> None:
    # only real dicts are merged recursively; other mappings are replaced wholesale
    proxy = MappingProxyType({"b": 2})
    result = merge_config({"a": {"b": 1, "c": 1}}, {"a": proxy})
    assert result["a"] is proxy
    result = merge_config({"a": proxy}, {"a": {"c": 3}})
    assert result == {"a": {"c": 3}}
    # top-level arguments may be arbitrary mappings; the result is a plain dict
    result = merge_config(MappingProxyType({"a": {"x": 1}}), OrderedDict(a={"y": 2}))
    assert type(result) is dict
    assert result == {"a": {"x": 1, "y": 2}}
    # a dict subclass counts as a dict, and the merged value is a plain dict
    result = merge_config({"a": OrderedDict(x=1)}, {"a": OrderedDict(y=2)})
    assert type(result["a"]) is dict
    assert result == {"a": {"x": 1, "y": 2}}
