"""
Property C18: resource_added announces every publication exactly once, on the right
context.

Model-based check (random histories over a tree of contexts with a listener on every
context; expected event log computed from an independent model), run both with and
without debug logging enabled, plus scenarios around factory generated resources whose
types are partly occupied by regular resources.
"""


from __future__ import annotations

import logging
import random
from collections.abc import AsyncIterator
from contextlib import AsyncExitStack, asynccontextmanager
from typing import Any

import pytest
from anyio import create_task_group, wait_all_tasks_blocked
from anyio.abc import TaskStatus

from asphalt.core import (
    AsyncResourceError,
    Context,
    ResourceConflict,
    ResourceEvent,
    ResourceNotFound,
)

pytestmark = pytest.mark.anyio


class A: ...


class B: ...


class C: ...


class D: ...


TYPES = [A, B, C, D, int, str]
NAMES = ["default", "x", "y"]
BAD_NAMES = ["", "a b", "a.b"]


class FactoryBoom(Exception):
    pass


def fields(event: ResourceEvent) -> tuple[Any, ...]:
    return (
        tuple(event.resource_types),
        event.resource_name,
        event.resource_description,
        event.is_factory,
    )


class Node:
    """A context, its listener log and its model."""

    def __init__(self, label: str, ctx: Context, parent: Node | None) -> None:
        self.label = label
        self.ctx = ctx
        self.received: list[ResourceEvent] = []
        self.expected: list[tuple[Any, ...]] = []
        if parent is None:
            self.resources: dict[tuple[type, str], bool] = {}
            self.factories: dict[tuple[type, str], dict[str, Any]] = {}
        else:
            self.resources = {
                k: gen for k, gen in parent.resources.items() if not gen
            }
            self.factories = dict(parent.factories)


class Harness:
    def __init__(self, tg: Any, stack: AsyncExitStack) -> None:
        self.tg = tg
        self.stack = stack
        self.nodes: list[Node] = []

    async def open(self, label: str, parent: Node | None) -> Node:
        ctx = Context(parent.ctx if parent else None)
        await self.stack.enter_async_context(ctx)
        node = Node(label, ctx, parent)
        await self.tg.start(self._listen, node)
        self.nodes.append(node)
        return node

    @staticmethod
    async def _listen(node: Node, *, task_status: TaskStatus[None]) -> None:
        async with node.ctx.resource_added.stream_events(
            max_queue_size=10000
        ) as stream:
            task_status.started()
            async for event in stream:
                node.received.append(event)

    async def verify(self) -> None:
        await wait_all_tasks_blocked()
        for node in self.nodes:
            got = [fields(e) for e in node.received]
            assert got == node.expected, node.label
            for event in node.received:
                assert type(event) is ResourceEvent
                assert event.source is node.ctx, node.label
                assert event.topic == "resource_added"

    # -- operations, each one updating the model ---------------------------------

    def add_resource(
        self,
        node: Node,
        value: Any,
        name: str,
        types: Any,
        description: str | None,
    ) -> None:
        if types:
            types_ = (types,) if isinstance(types, type) else tuple(types)
        else:
            types_ = (type(value),)

        if value is None or name in BAD_NAMES:
            expected_exc: type[BaseException] | None = ValueError
        elif any((t, name) in node.resources for t in types_):
            expected_exc = ResourceConflict
        else:
            expected_exc = None

        if expected_exc:
            with pytest.raises(expected_exc):
                node.ctx.add_resource(value, name, types, description=description)
        else:
            node.ctx.add_resource(value, name, types, description=description)
            for t in types_:
                node.resources[(t, name)] = False

            node.expected.append((types_, name, description, False))

    def add_factory(
        self,
        node: Node,
        kind: str,
        name: str,
        types: Any,
        description: str | None,
    ) -> None:
        info: dict[str, Any] = {"kind": kind, "calls": 0}

        def sync_factory() -> Any:
            info["calls"] += 1
            return ("generated", name, info["calls"])

        async def async_factory() -> Any:
            info["calls"] += 1
            return ("generated", name, info["calls"])

        def failing_factory() -> Any:
            info["calls"] += 1
            raise FactoryBoom

        callback = {
            "sync": sync_factory,
            "async": async_factory,
            "fail": failing_factory,
        }[kind]
        types_ = (types,) if isinstance(types, type) else tuple(types)
        if name in BAD_NAMES:
            expected_exc: type[BaseException] | None = ValueError
        elif any((t, name) in node.factories for t in types_):
            expected_exc = ResourceConflict
        else:
            expected_exc = None

        if expected_exc:
            with pytest.raises(expected_exc):
                node.ctx.add_resource_factory(
                    callback, name, types=types, description=description
                )
        else:
            node.ctx.add_resource_factory(
                callback, name, types=types, description=description
            )
            info.update(types=types_, name=name, description=description)
            for t in types_:
                node.factories[(t, name)] = info

            node.expected.append((types_, name, description, True))

    async def lookup(
        self, node: Node, type_: type, name: str, nowait: bool, optional: bool
    ) -> None:
        async def call() -> Any:
            if nowait:
                return node.ctx.get_resource_nowait(type_, name, optional=optional)
            else:
                return await node.ctx.get_resource(type_, name, optional=optional)

        key = (type_, name)
        if key in node.resources:
            # Merely returns an existing resource: no event
            assert await call() is not None
        elif key in node.factories:
            info = node.factories[key]
            calls_before = info["calls"]
            if info["kind"] == "fail":
                with pytest.raises(FactoryBoom):
                    await call()
            elif info["kind"] == "async" and nowait:
                with pytest.raises(AsyncResourceError):
                    await call()
            else:
                value = await call()
                assert value == ("generated", name, calls_before + 1)
                for t in info["types"]:
                    node.resources.setdefault((t, name), True)

                node.expected.append(
                    (info["types"], name, info["description"], False)
                )
        elif optional:
            assert await call() is None
        else:
            with pytest.raises(ResourceNotFound):
                await call()


@asynccontextmanager
async def harness() -> AsyncIterator[Harness]:
    async with create_task_group() as tg:
        try:
            async with AsyncExitStack() as stack:
                yield Harness(tg, stack)
        finally:
            # All contexts have been closed; stop the listeners
            tg.cancel_scope.cancel()


async def run_random_history(seed: int, steps: int = 120) -> None:
    rng = random.Random(seed)
    async with harness() as h:
        root = await h.open("root", None)
        open_points = {
            rng.randrange(5, 30): ("child1", "root"),
            rng.randrange(30, 50): ("grandchild", "child1"),
            rng.randrange(50, 80): ("child2", "root"),
        }
        by_label = {"root": root}
        for step in range(steps):
            if step in open_points:
                label, parent_label = open_points[step]
                if parent_label in by_label:
                    by_label[label] = await h.open(label, by_label[parent_label])

            # The most recently entered context is the current one, but resources can
            # be added to any open context in the tree
            node = rng.choice(h.nodes)
            name = rng.choice(NAMES + BAD_NAMES[: rng.randrange(0, 4)])
            description = rng.choice([None, "some description", f"step {step}"])
            op = rng.randrange(10)
            if op < 3:
                value: Any = rng.choice([A(), B(), 5, "text", None])
                types: Any = rng.choice(
                    [(), (), A, [A, B], (C, D), [int], (B, str)]
                )
                h.add_resource(node, value, name, types, description)
            elif op < 5:
                kind = rng.choice(["sync", "sync", "async", "fail"])
                types = rng.choice([A, [A, B], (C,), (C, D), [int, str], (B, D)])
                h.add_factory(node, kind, name, types, description)
            else:
                await h.lookup(
                    node,
                    rng.choice(TYPES),
                    rng.choice(NAMES),
                    nowait=rng.random() < 0.5,
                    optional=rng.random() < 0.5,
                )

            if step % 10 == 0:
                await h.verify()

        await h.verify()
        # Every context must have seen something for the run to be meaningful
        assert sum(len(n.expected) for n in h.nodes) > 10


@pytest.mark.parametrize("debug_logging", [False, True], ids=["nolog", "debuglog"])
@pytest.mark.parametrize("seed", range(300, 308))
async def test_random_histories(
    seed: int, debug_logging: bool, caplog: pytest.LogCaptureFixture
) -> None:
    caplog.set_level(
        logging.DEBUG if debug_logging else logging.WARNING, "asphalt.core"
    )
    await run_random_history(seed)


@pytest.mark.parametrize("debug_logging", [False, True], ids=["nolog", "debuglog"])
@pytest.mark.parametrize("nowait", [False, True], ids=["async", "nowait"])
async def test_shadowed_generation_announced_once(
    nowait: bool, debug_logging: bool, caplog: pytest.LogCaptureFixture
) -> None:
    """
    Factories whose types are partly (or, in a child, wholly except one) occupied by
    regular resources: the generation is announced exactly once on the requesting
    context with all the factory's types, and never again.
    """
    caplog.set_level(
        logging.DEBUG if debug_logging else logging.WARNING, "asphalt.core"
    )
    async with harness() as h:
        root = await h.open("root", None)
        h.add_factory(root, "sync", "default", (A, B, C), "abc factory")
        h.add_resource(root, B(), "default", B, "plain b")
        child = await h.open("child", root)
        h.add_resource(child, A(), "default", A, "plain a")
        grandchild = await h.open("grandchild", child)

        for node in (grandchild, child, root):
            await h.lookup(node, B, "default", nowait=nowait, optional=False)
            await h.lookup(node, C, "default", nowait=nowait, optional=False)
            await h.lookup(node, C, "default", nowait=not nowait, optional=True)
            await h.lookup(node, A, "default", nowait=nowait, optional=True)
            await h.verify()

        generated = ((A, B, C), "default", "abc factory", False)
        assert [fields(e) for e in grandchild.received] == [generated]
        assert [fields(e) for e in child.received] == [
            ((A,), "default", "plain a", False),
            generated,
        ]
        # In the root, A was not occupied, so looking up A there merely returns the
        # resource that was generated (once) when C was requested
        assert [fields(e) for e in root.received] == [
            ((A, B, C), "default", "abc factory", True),
            ((B,), "default", "plain b", False),
            generated,
        ]


async def test_failed_generation_with_shadowed_types_dispatches_nothing(
    caplog: pytest.LogCaptureFixture,
) -> None:
    caplog.set_level(logging.DEBUG, "asphalt.core")
    async with harness() as h:
        root = await h.open("root", None)
        h.add_resource(root, A(), "x", A, None)
        h.add_factory(root, "fail", "x", (A, B), None)
        h.add_factory(root, "async", "y", (A, B), "async one")
        h.add_resource(root, A(), "y", A, None)
        child = await h.open("child", root)
        for node in (root, child):
            await h.lookup(node, B, "x", nowait=True, optional=False)  # factory raises
            await h.lookup(node, B, "x", nowait=False, optional=True)  # factory raises
            await h.lookup(node, B, "y", nowait=True, optional=False)  # async error
            await h.lookup(node, A, "y", nowait=True, optional=False)  # existing
            await h.verify()

        assert len(root.received) == 4
        assert child.received == []
        await h.lookup(child, B, "y", nowait=False, optional=False)  # generates
        await h.lookup(child, B, "y", nowait=True, optional=False)  # existing
        await h.verify()
        assert [fields(e) for e in child.received] == [
            ((A, B), "y", "async one", False)
        ]
        assert len(root.received) == 4


async def test_concurrent_first_lookups_of_async_factory() -> None:
    """
    Two tasks requesting the same not yet generated resource from an async factory:
    the generation is announced on the requesting context only, none on the parent.
    """
    calls = 0

    async def factory() -> A:
        nonlocal calls
        calls += 1
        await wait_all_tasks_blocked()
        return A()

    async with harness() as h:
        root = await h.open("root", None)
        root.ctx.add_resource_factory(factory, types=[A, B], description="slow")
        root.expected.append(((A, B), "default", "slow", True))
        child = await h.open("child", root)
        child.ctx.add_resource(B(), description="plain")
        child.expected.append(((B,), "default", "plain", False))

        async with create_task_group() as tg:
            tg.start_soon(child.ctx.get_resource, A)
            tg.start_soon(child.ctx.get_resource, A)

        assert await child.ctx.get_resource(A) is child.ctx.get_resource_nowait(A)
        await wait_all_tasks_blocked()
        generated = [fields(e) for e in child.received[1:]]
        # At least the first generation is announced, at most one event per completed
        # factory call, and further lookups add nothing
        assert 1 <= len(generated) <= calls
        assert set(generated) == {((A, B), "default", "slow", False)}
        assert all(e.source is child.ctx for e in child.received)
        assert [fields(e) for e in child.received[:1]] == child.expected
        assert [fields(e) for e in root.received] == root.expected
