"""
Behaviour check for refactoring 3 (merge_config split into a copying front end and an
in-place recursive helper; attribute walk of resolve_reference done with reduce();
qualified_name / callable_name restructured around conditional expressions).

Everything goes through the public API (``asphalt.core`` functions, components, and the
``asphalt run`` command line entry point).
"""

from __future__ import annotations

import sys
from collections import ChainMap, UserDict
from functools import partial
from pathlib import Path
from typing import Any
from unittest.mock import patch

import pytest
from click.testing import CliRunner

from asphalt.core import (
    Component,
    Context,
    ResourceNotFound,
    _cli,
    callable_name,
    get_resource_nowait,
    merge_config,
    qualified_name,
    resolve_reference,
    start_component,
)

pytestmark = pytest.mark.anyio


@pytest.fixture
def anyio_backend() -> str:
    return "asyncio"


# --- merge_config: instrumented mappings pin the exact sequence of operations -------

log: list[str] = []


class LoggingDict(dict):  # type: ignore[type-arg]
    """A dict that records how it is inspected."""

    def __init__(self, label: str, *args: Any, **kwargs: Any) -> None:
        super().__init__(*args, **kwargs)
        self.label = label

    def __bool__(self) -> bool:
        log.append(f"{self.label}.bool")
        return len(self) > 0

    def items(self) -> Any:
        log.append(f"{self.label}.items")
        return super().items()

    def keys(self) -> Any:
        log.append(f"{self.label}.keys")
        return super().keys()

    def __iter__(self) -> Any:
        log.append(f"{self.label}.iter")
        return super().__iter__()

    def __getitem__(self, key: Any) -> Any:
        log.append(f"{self.label}.getitem[{key}]")
        return super().__getitem__(key)

    def get(self, key: Any, default: Any = None) -> Any:
        log.append(f"{self.label}.get[{key}]")
        return super().get(key, default)


class AlwaysFalseDict(dict):  # type: ignore[type-arg]
    def __bool__(self) -> bool:
        return False


class AlwaysTrueDict(dict):  # type: ignore[type-arg]
    def __bool__(self) -> bool:
        return True


def test_merge_config_operation_sequence() -> None:
    log.clear()
    inner_orig = LoggingDict("io", x=1)
    inner_over = LoggingDict("iv", y=2)
    original = LoggingDict("o", a=inner_orig, b=1)
    overrides = LoggingDict("v", b=2, a=inner_over, c=LoggingDict("c"))
    result = merge_config(original, overrides)
    assert result == {"a": {"x": 1, "y": 2}, "b": 2, "c": {}}
    assert type(result) is dict and type(result["a"]) is dict
    assert result["c"] is overrides.get("c")
    log.pop()  # the .get() of the line above
    # dict(<dict subclass>) copies through the C fast path unless keys()/__iter__ are
    # consulted; whichever it is, it is pinned here for both versions alike
    assert [entry for entry in log if entry.split(".")[1] in ("bool", "items")] == [
        "o.bool",
        "v.bool",
        "v.items",
        "io.bool",
        "iv.bool",
        "iv.items",
    ]


def test_merge_config_truthiness_quirks() -> None:
    # A "falsey" non-empty original dict is treated as empty, on every level
    assert merge_config(AlwaysFalseDict(a=1), {"b": 2}) == {"b": 2}
    assert merge_config({"k": AlwaysFalseDict(a=1)}, {"k": {"b": 2}}) == {
        "k": {"b": 2}
    }
    # ...and "falsey" overrides are ignored, on every level
    assert merge_config({"a": 1}, AlwaysFalseDict(a=2)) == {"a": 1}
    merged = merge_config({"k": {"a": 1}}, {"k": AlwaysFalseDict(a=2)})
    assert merged == {"k": {"a": 1}}
    assert type(merged["k"]) is dict
    # "truthy" empty ones take the regular path
    merged = merge_config({"k": AlwaysTrueDict()}, {"k": AlwaysTrueDict()})
    assert merged == {"k": {}} and type(merged["k"]) is dict
    assert merge_config(AlwaysTrueDict(), AlwaysTrueDict()) == {}


def test_merge_config_fresh_dicts_on_every_merged_level() -> None:
    original = {"a": {"b": {"c": {"d": 1}}, "keep": {"z": 1}}, "top": {"t": 1}}
    overrides = {"a": {"b": {"c": {"e": 2}}}}
    result = merge_config(original, overrides)
    assert result == {
        "a": {"b": {"c": {"d": 1, "e": 2}}, "keep": {"z": 1}},
        "top": {"t": 1},
    }
    assert result["a"] is not original["a"]
    assert result["a"]["b"] is not original["a"]["b"]
    assert result["a"]["b"]["c"] is not original["a"]["b"]["c"]
    assert result["a"]["b"]["c"] is not overrides["a"]["b"]["c"]
    assert result["a"]["keep"] is original["a"]["keep"]
    assert result["top"] is original["top"]
    # mutating the result's merged levels leaves the inputs alone
    result["a"]["b"]["c"]["f"] = 3
    result["a"]["new"] = 1
    assert original == {
        "a": {"b": {"c": {"d": 1}}, "keep": {"z": 1}},
        "top": {"t": 1},
    }
    assert overrides == {"a": {"b": {"c": {"e": 2}}}}


def test_merge_config_mapping_types_on_top_level() -> None:
    user_dict = UserDict({"a": {"x": 1}})
    chain = ChainMap({"a": {"y": 2}}, {"a": {"hidden": 0}, "b": {"z": 3}})
    result = merge_config(user_dict, chain)
    assert result == {"a": {"x": 1, "y": 2}, "b": {"z": 3}}
    # a UserDict value is not a dict: replaced, not merged
    result = merge_config({"a": {"x": 1}}, {"a": UserDict({"y": 2})})
    assert type(result["a"]) is UserDict
    result = merge_config({"a": UserDict({"y": 2})}, {"a": {"x": 1}})
    assert result["a"] == {"x": 1} and type(result["a"]) is dict


def test_merge_config_self_reference_and_duplicates() -> None:
    shared = {"s": 1}
    result = merge_config({"a": shared, "b": shared}, {"a": {"t": 2}})
    assert result["a"] == {"s": 1, "t": 2}
    assert result["b"] is shared and shared == {"s": 1}
    # the same dict as original and overrides
    same = {"k": {"v": 1}}
    result = merge_config(same, same)
    assert result == same and result is not same
    assert result["k"] is not same["k"]


def test_merge_config_deep_recursion_error() -> None:
    depth = sys.getrecursionlimit() * 2
    original: dict[str, Any] = {}
    overrides: dict[str, Any] = {}
    o, v = original, overrides
    for _ in range(depth):
        o["n"] = {}
        v["n"] = {}
        o, v = o["n"], v["n"]

    o["n"] = 1
    v["n"] = 2
    with pytest.raises(RecursionError):
        merge_config(original, overrides)


def test_merge_config_exception_from_mapping() -> None:
    class Exploding(dict):  # type: ignore[type-arg]
        def items(self) -> Any:
            raise RuntimeError("items exploded")

    with pytest.raises(RuntimeError, match="items exploded"):
        merge_config({"a": {"b": 1}}, {"a": Exploding(x=1)})

    with pytest.raises(RuntimeError, match="items exploded"):
        merge_config({}, Exploding(x=1))

    # never consulted when there is nothing to merge with
    exploding = Exploding(x=1)
    assert merge_config({"a": 1}, {"a": exploding})["a"] is exploding
    assert merge_config(exploding, None) == {"x": 1}


# --- merge_config through the command line ------------------------------------------


def test_cli_merges_config_files_and_service_config() -> None:
    runner = CliRunner()
    with runner.isolated_filesystem(), patch(
        "asphalt.core._cli.run_application"
    ) as run_app:
        Path("base.yml").write_text(
            """\
---
max_threads: 5
logging:
  version: 1
  loggers:
    asphalt.core: {level: INFO}
    other: {level: ERROR, propagate: false}
services:
  web:
    max_threads: 8
    component:
      type: proj:Web
      components:
        db: {url: "sqlite://", pool: {size: 1, timeout: 3}}
  worker:
    component:
      type: proj:Worker
"""
        )
        Path("local.yml").write_text(
            """\
---
logging:
  loggers:
    asphalt.core: {level: DEBUG}
    other: 7
services:
  web:
    component:
      components:
        db: {pool: {size: 10}}
        cache: {}
"""
        )
        result = runner.invoke(
            _cli.run,
            ["base.yml", "local.yml", "-s", "web", "--set", "services.web.component.extra=[1]"],
        )
        assert result.exit_code == 0, result.output
        args, kwargs = run_app.call_args
        assert args == (
            "proj:Web",
            {
                "components": {
                    "db": {"url": "sqlite://", "pool": {"size": 10, "timeout": 3}},
                    "cache": {},
                },
                "extra": [1],
            },
        )
        assert list(args[1]["components"]) == ["db", "cache"]
        assert kwargs == {
            "backend": "asyncio",
            "backend_options": {},
            "max_threads": 8,
            "logging": {
                "version": 1,
                "loggers": {"asphalt.core": {"level": "DEBUG"}, "other": 7},
            },
        }

        result = runner.invoke(_cli.run, ["base.yml", "local.yml", "-s", "nope"])
        assert result.exit_code == 1
        assert result.output == "Error: Service 'nope' has not been defined\n"

        Path("bad.yml").write_text("services: [1]\n")
        result = runner.invoke(_cli.run, ["base.yml", "bad.yml"])
        assert result.exit_code == 1
        assert result.output == 'Error: The "services" key must be a dict, not list\n'


# --- merge_config and resolve_reference through components --------------------------


class Recorder(Component):
    instances: list[Recorder] = []

    def __init__(self, **options: Any) -> None:
        self.options = options
        Recorder.instances.append(self)


class Container(Component):
    def __init__(self, flavour: str = "plain") -> None:
        self.add_component(
            "rec", f"{__name__}:Recorder", opts={"a": {"b": 1}}, flavour=flavour
        )
        self.add_component("rec/second", Recorder, opts=None)


class Root(Component):
    def __init__(self) -> None:
        self.add_component("box", Container)


async def test_component_tree_config_merging() -> None:
    Recorder.instances.clear()
    async with Context():
        await start_component(
            f"{__name__}:Root",
            {
                "components": {
                    "box": {
                        "flavour": "spicy",
                        "components": {
                            "rec": {"opts": {"a": {"c": 2}, "d": 3}},
                            "rec/second": {"opts": {"only": "override"}},
                            "extra": {"type": f"{__name__}:Recorder"},
                        },
                    }
                }
            },
        )

    assert [rec.options for rec in Recorder.instances] == [
        {"opts": {"a": {"b": 1, "c": 2}, "d": 3}, "flavour": "spicy"},
        {"opts": {"only": "override"}},
        {},
    ]


async def test_component_tree_bad_child_reference() -> None:
    async with Context():
        with pytest.raises(LookupError) as exc:
            await start_component(
                Root,
                {
                    "components": {
                        "box": {
                            "components": {"rec": {"type": f"{__name__}:Recorder.x.y"}}
                        }
                    }
                },
            )

        assert str(exc.value) == (
            f"error resolving reference {__name__}:Recorder.x.y: error looking up "
            f"object"
        )
        assert type(exc.value.__context__) is AttributeError
        assert str(exc.value.__context__) == (
            "type object 'Recorder' has no attribute 'x'"
        )
        assert exc.value.__cause__ is None


# --- resolve_reference: the attribute walk -------------------------------------------


class Walk:
    accessed: list[str] = []

    class Level1:
        class Level2:
            target = "found"

    def __getattr__(self, name: str) -> Any:
        Walk.accessed.append(name)
        if name.startswith("dyn"):
            return self

        if name == "boom":
            raise KeyError(name)

        raise AttributeError(f"no {name}")


walk = Walk()


def test_resolve_reference_attribute_walk() -> None:
    assert resolve_reference(f"{__name__}:Walk.Level1.Level2.target") == "found"
    assert resolve_reference(f"{__name__}:walk.Level1.Level2") is Walk.Level1.Level2
    Walk.accessed.clear()
    assert resolve_reference(f"{__name__}:walk.dyn1.dyn2.dyn3") is walk
    assert Walk.accessed == ["dyn1", "dyn2", "dyn3"]
    # stops at the first failing attribute
    Walk.accessed.clear()
    with pytest.raises(LookupError) as exc:
        resolve_reference(f"{__name__}:walk.dyn1.missing.dyn2")

    assert Walk.accessed == ["dyn1", "missing"]
    assert str(exc.value) == (
        f"error resolving reference {__name__}:walk.dyn1.missing.dyn2: error looking "
        f"up object"
    )
    assert str(exc.value.__context__) == "no missing"
    # a non-AttributeError raised by the walk goes through untouched
    Walk.accessed.clear()
    with pytest.raises(KeyError) as exc2:
        resolve_reference(f"{__name__}:walk.dyn1.boom.dyn2")

    assert exc2.value.args == ("boom",)
    assert Walk.accessed == ["dyn1", "boom"]


def test_resolve_reference_edge_shapes() -> None:
    for ref in (
        f"{__name__}:",
        f"{__name__}:.walk",
        f"{__name__}:walk.",
        f"{__name__}:walk:dyn",
        f"{__name__}: walk",
    ):
        with pytest.raises(LookupError) as exc:
            resolve_reference(ref)

        assert str(exc.value) == (
            f"error resolving reference {ref}: error looking up object"
        )

    # only the first colon splits
    Walk.accessed.clear()
    assert resolve_reference(f"{__name__}:walk.dyn:x") is walk
    assert Walk.accessed == ["dyn:x"]
    # import failures
    for ref in ("no_such_pkg_q.sub:walk", f"{__name__}.sub:walk", " :x"):
        with pytest.raises(LookupError) as exc:
            resolve_reference(ref)

        assert str(exc.value) == (
            f"error resolving reference {ref}: could not import module"
        )
        assert isinstance(exc.value.__cause__, ImportError)

    # non-strings and colon-less strings come back untouched
    for value in (None, 0, b"a:b", ("a:b",), "plain", ""):
        assert resolve_reference(value) is value


# --- qualified_name / callable_name --------------------------------------------------


class Meta(type):
    pass


class WithMeta(metaclass=Meta):
    def method(self) -> None:
        pass

    @classmethod
    def clsmethod(cls) -> None:
        pass

    @staticmethod
    def static() -> None:
        pass


class CallableThing:
    def __call__(self) -> None:
        pass


class CallableWithQualname:
    __qualname__ = "Custom.Qualname"

    def __call__(self) -> None:
        pass


async def coroutine_function() -> None:
    pass


def test_qualified_name_matrix() -> None:
    here = __name__
    assert qualified_name(WithMeta) == f"{here}.WithMeta"
    assert qualified_name(WithMeta()) == f"{here}.WithMeta"
    assert qualified_name(Meta) == f"{here}.Meta"
    assert qualified_name(ValueError("x")) == "ValueError"
    assert qualified_name(ResourceNotFound) == "asphalt.core.ResourceNotFound"
    assert qualified_name(Path) == "pathlib.Path"
    assert qualified_name(sys) == "module"
    assert qualified_name(coroutine_function) == "function"
    assert qualified_name(list[int]) == "types.GenericAlias"

    class Local:
        pass

    assert qualified_name(Local()) == (
        f"{here}.test_qualified_name_matrix.<locals>.Local"
    )


def test_callable_name_matrix() -> None:
    here = __name__
    assert callable_name(WithMeta.method) == f"{here}.WithMeta.method"
    assert callable_name(WithMeta().method) == f"{here}.WithMeta.method"
    assert callable_name(WithMeta.clsmethod) == f"{here}.WithMeta.clsmethod"
    assert callable_name(WithMeta.static) == f"{here}.WithMeta.static"
    assert callable_name(WithMeta) == f"{here}.WithMeta"
    assert callable_name(coroutine_function) == f"{here}.coroutine_function"
    assert callable_name(CallableThing()) == f"{here}.CallableThing"
    assert callable_name(partial(CallableThing(), 1)) == f"{here}.CallableThing"
    # instances see the class level __qualname__, so they are not replaced by their type
    assert callable_name(CallableWithQualname()) == f"{here}.Custom.Qualname"
    assert callable_name(partial(WithMeta().method)) == f"{here}.WithMeta.method"
    assert callable_name(partial(sorted, key=len)) == "sorted"
    assert callable_name(isinstance) == "isinstance"
    assert callable_name(ValueError) == "ValueError"
    assert callable_name(get_resource_nowait) == "asphalt.core.get_resource_nowait"
    assert callable_name(Context.add_resource) == (
        "asphalt.core._context.Context.add_resource"
    )
    # things without __module__ or __name__ fail the same way as ever
    with pytest.raises(AttributeError):
        callable_name(int.__add__)

    with pytest.raises(AttributeError):
        callable_name(partial(int.__add__))


async def test_teardown_callback_and_resource_errors_use_names() -> None:
    with pytest.raises(ResourceNotFound) as exc:
        async with Context():
            get_resource_nowait(WithMeta)  # type: ignore[type-var]

    assert str(exc.value) == (
        f"no matching resource was found for type={__name__}.WithMeta name='default'"
    )
    with pytest.raises(ResourceNotFound) as exc:
        async with Context():
            get_resource_nowait(int, "num")

    assert str(exc.value) == "no matching resource was found for type=int name='num'"
