"""
Behaviour checks for refactoring 2 (decomposition of
``Context._run_teardown_callbacks`` into helpers and a NamedTuple record).

Everything is exercised through the public API only.
"""

from __future__ import annotations

import sys
from typing import Any, Optional

import anyio
import pytest
from anyio import CancelScope, get_cancelled_exc_class
from anyio.lowlevel import checkpoint

from asphalt.core import (
    Context,
    add_resource,
    add_teardown_callback,
    current_context,
    start_service_task,
)

if sys.version_info < (3, 11):
    from exceptiongroup import BaseExceptionGroup, ExceptionGroup

pytestmark = pytest.mark.anyio()

TEARDOWN_MESSAGE = "Exceptions were raised during context teardown"


class TestRegistration:
    async def test_state_checks(self) -> None:
        ctx = Context()
        with pytest.raises(RuntimeError, match="^this context has not been entered yet$"):
            ctx.add_teardown_callback(lambda: None)

        events: list[str] = []
        async with ctx:
            ctx.add_teardown_callback(lambda: events.append("ran"))

        assert events == ["ran"]
        with pytest.raises(RuntimeError, match="^this context has already been closed$"):
            ctx.add_teardown_callback(lambda: events.append("never"))

        assert events == ["ran"]

    async def test_state_is_checked_before_callable(self) -> None:
        with pytest.raises(RuntimeError, match="not been entered"):
            Context().add_teardown_callback("not callable")  # type: ignore[arg-type]

        async with Context() as ctx:
            for bad in (None, 1, "x", object()):
                with pytest.raises(TypeError, match="^callback must be a callable$"):
                    ctx.add_teardown_callback(bad)  # type: ignore[arg-type]

    async def test_rejected_callback_is_not_registered(self) -> None:
        events: list[str] = []
        async with Context() as ctx:
            ctx.add_teardown_callback(lambda: events.append("good"))
            with pytest.raises(TypeError):
                ctx.add_teardown_callback(42)  # type: ignore[arg-type]

        assert events == ["good"]

    async def test_same_callback_twice(self) -> None:
        events: list[Any] = []

        def callback(*args: Any) -> None:
            events.append(args)

        async with Context() as ctx:
            ctx.add_teardown_callback(callback)
            ctx.add_teardown_callback(callback, True)
            ctx.add_teardown_callback(callback)

        assert events == [(), (None,), ()]

    async def test_callable_objects(self) -> None:
        events: list[Any] = []

        class Callback:
            def __call__(self, *args: Any) -> None:
                events.append(("object", args))

        class Holder:
            def method(self) -> None:
                events.append("method")

            async def amethod(self, exc: Optional[BaseException]) -> None:
                await checkpoint()
                events.append(("amethod", exc))

        holder = Holder()
        async with Context() as ctx:
            ctx.add_teardown_callback(Callback(), True)
            ctx.add_teardown_callback(holder.method)
            ctx.add_teardown_callback(holder.amethod, True)
            ctx.add_teardown_callback(events.append, True)

        assert events == [None, ("amethod", None), "method", ("object", (None,))]


class TestRunning:
    async def test_callbacks_added_during_teardown(self) -> None:
        events: list[str] = []

        def late() -> None:
            events.append("late")
            assert ctx.closed

        def later(exc: Optional[BaseException]) -> None:
            events.append(f"later:{exc}")

        def second() -> None:
            events.append("second")
            # The context is being torn down, but registration is still allowed
            ctx.add_teardown_callback(late)
            add_teardown_callback(later, True)

        async with Context() as ctx:
            ctx.add_teardown_callback(lambda: events.append("first"))
            ctx.add_teardown_callback(second)
            ctx.add_teardown_callback(lambda: events.append("third"))

        assert events == ["third", "second", "later:None", "late", "first"]

    async def test_callback_added_by_failing_callback(self) -> None:
        events: list[str] = []
        error = ValueError("x")

        def failing() -> None:
            ctx.add_teardown_callback(lambda: events.append("added"))
            raise error

        async with Context():
            with pytest.raises(ExceptionGroup) as exc_info:
                async with Context() as ctx:
                    ctx.add_teardown_callback(lambda: events.append("first"))
                    ctx.add_teardown_callback(failing)

        assert events == ["added", "first"]
        assert exc_info.value.exceptions == (error,)

    async def test_awaitable_return_values(self) -> None:
        events: list[str] = []

        class Awaitable:
            def __await__(self) -> Any:
                events.append("awaited")
                yield from checkpoint().__await__()
                events.append("resumed")

        async def coro_func() -> None:
            events.append("coro start")
            await checkpoint()
            events.append("coro end")

        async with Context() as ctx:
            ctx.add_teardown_callback(lambda: events.append("sync"))
            ctx.add_teardown_callback(Awaitable)
            ctx.add_teardown_callback(coro_func)
            ctx.add_teardown_callback(lambda: [1, 2, 3])

        assert events == ["coro start", "coro end", "awaited", "resumed", "sync"]

    async def test_awaited_before_next_callback(self) -> None:
        events: list[str] = []

        async def slow() -> None:
            events.append("slow start")
            await anyio.sleep(0.05)
            events.append("slow end")

        async with Context() as ctx:
            ctx.add_teardown_callback(lambda: events.append("after slow"))
            ctx.add_teardown_callback(slow)

        assert events == ["slow start", "slow end", "after slow"]

    async def test_wrong_arity(self) -> None:
        events: list[str] = []

        def needs_argument(exc: Optional[BaseException]) -> None:
            events.append("never")

        def takes_nothing() -> None:
            events.append("never")

        async with Context():
            with pytest.raises(ExceptionGroup) as exc_info:
                async with Context() as ctx:
                    ctx.add_teardown_callback(lambda: events.append("ok"))
                    ctx.add_teardown_callback(needs_argument)
                    ctx.add_teardown_callback(takes_nothing, True)

        assert events == ["ok"]
        assert len(exc_info.value.exceptions) == 2
        assert all(isinstance(exc, TypeError) for exc in exc_info.value.exceptions)
        assert "takes_nothing" in str(exc_info.value.exceptions[0])
        assert "needs_argument" in str(exc_info.value.exceptions[1])

    async def test_all_errors_collected_in_order(self) -> None:
        original = RuntimeError("original")
        errors = [ValueError(str(i)) for i in range(4)]
        received: list[Any] = []

        def make(index: int) -> Any:
            async def async_fail(exc: Optional[BaseException]) -> None:
                received.append((index, exc))
                await checkpoint()
                raise errors[index]

            def sync_fail() -> None:
                received.append((index, "no arg"))
                raise errors[index]

            return async_fail if index % 2 else sync_fail

        async with Context():
            with pytest.raises(ExceptionGroup) as exc_info:
                async with Context() as ctx:
                    for index in range(4):
                        ctx.add_teardown_callback(make(index), bool(index % 2))

                    raise original

        assert received == [
            (3, original),
            (2, "no arg"),
            (1, original),
            (0, "no arg"),
        ]
        assert exc_info.value.message == TEARDOWN_MESSAGE
        assert exc_info.value.exceptions == tuple(reversed(errors))
        assert exc_info.value.__cause__ is original
        # Callbacks run while the original exception is still being handled
        assert [exc.__context__ for exc in errors] == [original] * 4
        assert [exc.__cause__ for exc in errors] == [None] * 4

    async def test_root_context_single_error_is_coalesced(self) -> None:
        error = ValueError("root")

        def fail() -> None:
            raise error

        with pytest.raises(ExceptionGroup) as exc_info:
            async with Context() as ctx:
                ctx.add_teardown_callback(fail)

        # The task group of the root context wraps the teardown group; a single
        # leaf exception would have been unwrapped, a nested group is not.
        assert len(exc_info.value.exceptions) == 1
        inner = exc_info.value.exceptions[0]
        assert isinstance(inner, ExceptionGroup)
        assert inner.message == TEARDOWN_MESSAGE
        assert inner.exceptions == (error,)
        assert inner.__cause__ is None

    async def test_callbacks_run_once(self) -> None:
        counter = 0

        def callback() -> None:
            nonlocal counter
            counter += 1

        ctx = Context()
        async with ctx:
            ctx.add_teardown_callback(callback)

        assert counter == 1
        with pytest.raises(RuntimeError, match="already been closed"):
            async with ctx:
                pass

        assert counter == 1

    async def test_resource_teardown_interleaves_with_callbacks(self) -> None:
        events: list[str] = []
        async with Context() as ctx:
            ctx.add_teardown_callback(lambda: events.append("cb1"))
            add_resource("value", teardown_callback=lambda: events.append("resource"))
            ctx.add_teardown_callback(lambda: events.append("cb2"))

        assert events == ["cb2", "resource", "cb1"]

    async def test_service_task_teardown_ordering(self) -> None:
        events: list[str] = []

        async def service() -> None:
            try:
                await anyio.sleep_forever()
            finally:
                events.append("service cancelled")

        async with Context() as ctx:
            ctx.add_teardown_callback(lambda: events.append("before"))
            await start_service_task(service, "svc")
            ctx.add_teardown_callback(lambda: events.append("after"))

        assert events == ["after", "service cancelled", "before"]

    async def test_current_context_inside_callbacks(self) -> None:
        seen: list[Any] = []
        async with Context() as outer:
            async with Context() as inner:
                inner.add_teardown_callback(lambda: seen.append(current_context()))

            outer.add_teardown_callback(lambda: seen.append(current_context()))

        assert seen == [inner, outer]


class TestCancellation:
    async def test_cancelled_during_async_callback(self) -> None:
        events: list[Any] = []
        cancelled_exc_class = get_cancelled_exc_class()

        async def blocking() -> None:
            events.append("blocking start")
            try:
                await anyio.sleep_forever()
            except BaseException as exc:
                events.append(type(exc))
                raise

        async def also_cancelled() -> None:
            events.append("next start")
            try:
                await checkpoint()
            except BaseException as exc:
                events.append(type(exc))
                raise

        outcome: list[Any] = []
        async with Context():
            with CancelScope() as scope:
                try:
                    async with Context() as ctx:
                        ctx.add_teardown_callback(lambda: events.append("sync still runs"))
                        ctx.add_teardown_callback(also_cancelled)
                        ctx.add_teardown_callback(blocking)
                        ctx.add_teardown_callback(scope.cancel)
                except BaseException as exc:
                    outcome.append(exc)
                    raise

            assert scope.cancelled_caught

        assert events == [
            "blocking start",
            cancelled_exc_class,
            "next start",
            cancelled_exc_class,
            "sync still runs",
        ]
        assert len(outcome) == 1
        assert isinstance(outcome[0], BaseExceptionGroup)
        assert outcome[0].message == TEARDOWN_MESSAGE
        assert [type(exc) for exc in outcome[0].exceptions] == [
            cancelled_exc_class,
            cancelled_exc_class,
        ]

    async def test_cancelled_body_passes_cancellation_to_callbacks(self) -> None:
        received: list[Any] = []
        cancelled_exc_class = get_cancelled_exc_class()
        async with Context():
            with CancelScope() as scope:
                async with Context() as ctx:
                    ctx.add_teardown_callback(received.append, True)
                    ctx.add_teardown_callback(lambda: received.append("plain"))
                    scope.cancel()
                    await checkpoint()

            assert scope.cancelled_caught

        assert received[0] == "plain"
        assert isinstance(received[1], cancelled_exc_class)
        assert len(received) == 2
