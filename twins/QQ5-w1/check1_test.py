"""Behaviour checks for refactoring 1 (qualified_name / callable_name / merge_config)."""

from __future__ import annotations

import collections
from collections import OrderedDict
from functools import partial
from types import MappingProxyType
from typing import Any

import pytest

from asphalt.core import (
    Component,
    Context,
    Event,
    Signal,
    callable_name,
    merge_config,
    qualified_name,
)


class Outer:
    class Inner:
        def method(self) -> None:
            pass

        def __call__(self) -> None:
            pass


def plain_function() -> None:
    pass


class NoModuleName:
    """Instances pretend to be function-like but lack ``__module__`` lookups."""

    __slots__ = ()
    __qualname__ = "custom.qualname"  # type: ignore[assignment]


class TestQualifiedName:
    def test_builtin_class_and_instance(self) -> None:
        assert qualified_name(int) == "int"
        assert qualified_name(5) == "int"
        assert qualified_name(None) == "NoneType"
        assert qualified_name(ValueError("x")) == "ValueError"

    def test_stdlib_class_and_instance(self) -> None:
        assert qualified_name(OrderedDict) == "collections.OrderedDict"
        assert qualified_name(OrderedDict()) == "collections.OrderedDict"
        assert qualified_name(collections) == "module"

    def test_nested_class_uses_qualname(self) -> None:
        assert qualified_name(Outer.Inner) == f"{__name__}.Outer.Inner"
        assert qualified_name(Outer.Inner()) == f"{__name__}.Outer.Inner"

    def test_function_is_reported_by_type(self) -> None:
        assert qualified_name(plain_function) == "function"
        assert qualified_name(len) == "builtin_function_or_method"

    def test_public_classes(self) -> None:
        assert qualified_name(Context) == "asphalt.core.Context"
        assert qualified_name(Component) == "asphalt.core.Component"

    def test_metaclass_without_module_raises_attribute_error(self) -> None:
        class Meta(type):
            @property
            def __module__(cls) -> str:  # type: ignore[override]
                raise AttributeError("no module here")

        class Odd(metaclass=Meta):
            pass

        with pytest.raises(AttributeError, match="no module here"):
            qualified_name(Odd)

    def test_module_is_builtins_string_spoof(self) -> None:
        class Spoof:
            pass

        Spoof.__module__ = "builtins"
        Spoof.__qualname__ = "Qual.Spoof"
        # builtins -> __name__, not __qualname__
        assert qualified_name(Spoof) == "Spoof"
        assert qualified_name(Spoof()) == "Spoof"


class TestCallableName:
    def test_plain_and_builtin(self) -> None:
        assert callable_name(plain_function) == f"{__name__}.plain_function"
        assert callable_name(len) == "len"
        assert callable_name(qualified_name) == "asphalt.core.qualified_name"

    def test_partial_is_unwrapped_once(self) -> None:
        assert callable_name(partial(plain_function)) == f"{__name__}.plain_function"
        assert callable_name(partial(len, [])) == "len"
        nested = partial(partial(plain_function))
        # functools flattens nested partials, so this is still the function
        assert callable_name(nested) == f"{__name__}.plain_function"

    def test_methods(self) -> None:
        assert callable_name(Outer.Inner.method) == f"{__name__}.Outer.Inner.method"
        assert callable_name(Outer.Inner().method) == f"{__name__}.Outer.Inner.method"
        # existing behaviour (not "fixed"): builtin methods have __module__ None
        assert callable_name([].append) == "None.list.append"
        # method descriptors have no __module__ at all
        with pytest.raises(AttributeError, match="__module__"):
            callable_name(str.upper)

    def test_callable_instance_uses_class(self) -> None:
        assert callable_name(Outer.Inner()) == f"{__name__}.Outer.Inner"
        assert callable_name(partial(Outer.Inner())) == f"{__name__}.Outer.Inner"

    def test_class_itself(self) -> None:
        assert callable_name(Outer.Inner) == f"{__name__}.Outer.Inner"
        assert callable_name(dict) == "dict"

    def test_lambda(self) -> None:
        func = lambda: None  # noqa: E731
        assert callable_name(func) == (
            f"{__name__}.TestCallableName.test_lambda.<locals>.<lambda>"
        )

    def test_spoofed_builtins_module_uses_dunder_name(self) -> None:
        def func() -> None:
            pass

        func.__module__ = "builtins"
        func.__name__ = "short"
        func.__qualname__ = "long.qualified"
        assert callable_name(func) == "short"

    def test_none_module(self) -> None:
        def func() -> None:
            pass

        func.__module__ = None  # type: ignore[assignment]
        assert callable_name(func).startswith("None.")

    def test_instance_with_qualname_but_no_name(self) -> None:
        obj = NoModuleName()
        # has __qualname__ (class attribute), so it is not replaced by its type;
        # __module__ is found on the class
        assert callable_name(obj) == f"{__name__}.custom.qualname"  # type: ignore[arg-type]


class TestMergeConfig:
    def test_none_and_empty(self) -> None:
        assert merge_config(None, None) == {}
        assert merge_config({}, {}) == {}
        assert merge_config(None, {"a": 1}) == {"a": 1}
        assert merge_config({"a": 1}, None) == {"a": 1}
        assert merge_config({"a": 1}, {}) == {"a": 1}

    def test_result_is_a_new_plain_dict(self) -> None:
        original = OrderedDict(a=1)
        result = merge_config(original, None)
        assert type(result) is dict
        assert result is not original
        result2 = merge_config(MappingProxyType({"a": 1}), MappingProxyType({"b": 2}))
        assert type(result2) is dict
        assert result2 == {"a": 1, "b": 2}

    def test_nested_merge_does_not_mutate_inputs(self) -> None:
        original = {"a": {"x": 1, "y": {"p": 1}}, "b": 2, "c": {"k": 1}}
        overrides = {"a": {"y": {"q": 2}, "z": 3}, "b": {"n": 1}, "c": 5, "d": {}}
        snapshot_original = {"a": {"x": 1, "y": {"p": 1}}, "b": 2, "c": {"k": 1}}
        snapshot_overrides = {
            "a": {"y": {"q": 2}, "z": 3},
            "b": {"n": 1},
            "c": 5,
            "d": {},
        }
        result = merge_config(original, overrides)
        assert result == {
            "a": {"x": 1, "y": {"p": 1, "q": 2}, "z": 3},
            "b": {"n": 1},
            "c": 5,
            "d": {},
        }
        assert list(result) == ["a", "b", "c", "d"]
        assert original == snapshot_original
        assert overrides == snapshot_overrides
        # merged sub-dicts are copies, replaced values are shared
        assert result["a"] is not original["a"]
        assert result["a"]["y"] is not original["a"]["y"]
        assert result["b"] is overrides["b"]
        assert result["d"] is overrides["d"]

    def test_untouched_nested_values_are_shared(self) -> None:
        inner: dict[str, Any] = {"x": 1}
        result = merge_config({"a": inner}, {"b": 1})
        assert result["a"] is inner

    def test_non_dict_mappings_are_replaced_not_merged(self) -> None:
        result = merge_config(
            {"a": MappingProxyType({"x": 1}), "b": {"x": 1}},
            {"a": {"y": 2}, "b": MappingProxyType({"y": 2})},
        )
        assert result["a"] == {"y": 2}
        assert dict(result["b"]) == {"y": 2}

    def test_dict_subclasses_merge_into_plain_dict(self) -> None:
        result = merge_config({"a": OrderedDict(x=1)}, {"a": OrderedDict(y=2)})
        assert type(result["a"]) is dict
        assert result["a"] == {"x": 1, "y": 2}

    def test_empty_override_dict_merges_to_copy(self) -> None:
        inner = {"x": 1}
        result = merge_config({"a": inner}, {"a": {}})
        assert result["a"] == {"x": 1}
        assert result["a"] is not inner

    def test_dotted_keys_are_literal(self) -> None:
        assert merge_config({"a": {"b": 1}}, {"a.b": 2}) == {"a": {"b": 1}, "a.b": 2}

    def test_non_mapping_original_raises(self) -> None:
        with pytest.raises(TypeError):
            merge_config(5, {"a": 1})  # type: ignore[arg-type]

    def test_non_mapping_overrides_raises_attribute_error(self) -> None:
        with pytest.raises(AttributeError):
            merge_config({"a": 1}, [("a", 2)])  # type: ignore[arg-type]

    def test_falsy_non_mapping_inputs_are_ignored(self) -> None:
        assert merge_config(0, ()) == {}  # type: ignore[arg-type]

    def test_overrides_items_called_once_and_bool_once(self) -> None:
        calls: list[str] = []

        class Spy(dict):  # type: ignore[type-arg]
            def __bool__(self) -> bool:
                calls.append("bool")
                return True

            def items(self):  # type: ignore[no-untyped-def]
                calls.append("items")
                return super().items()

        assert merge_config({"a": 1}, Spy(b=2)) == {"a": 1, "b": 2}
        assert calls == ["bool", "items"]


def test_dispatch_type_mismatch_message_uses_qualified_name() -> None:
    class MyEvent(Event):
        pass

    class Source:
        sig = Signal(MyEvent)

    with pytest.raises(TypeError) as exc:
        Source().sig.dispatch(Event())  # type: ignore[arg-type]

    assert str(exc.value) == (
        "Event type mismatch: event (asphalt.core.Event) is not a subclass of "
        f"{__name__}.test_dispatch_type_mismatch_message_uses_qualified_name."
        "<locals>.MyEvent"
    )
