"""
Behaviour checks for refactoring 2 (helper extraction in ``_event.py``):

* ``Signal.__get__``   - binding moved to ``Signal._bind()``
* ``Signal.dispatch``  - event stamping and per-subscriber delivery moved to helpers
  (the queue-full warning must still point to the caller of ``dispatch()``)
* ``stream_events``    - the ``filter_events`` closure became a module level generator

Everything is exercised through the public API of ``asphalt.core``.
"""

from __future__ import annotations

import gc
import sys
import time
import warnings
from datetime import timezone
from typing import Any

import pytest
from anyio import create_task_group, fail_after, sleep, wait_all_tasks_blocked
from anyio.abc import TaskStatus
from anyio.lowlevel import checkpoint

from asphalt.core import (
    Event,
    Signal,
    SignalQueueFull,
    UnboundSignal,
    stream_events,
    wait_event,
)

pytestmark = pytest.mark.anyio()


@pytest.fixture(params=["asyncio", "trio"])
def anyio_backend(request: Any) -> str:
    return request.param


class NumberEvent(Event):
    def __init__(self, number: int = 0) -> None:
        self.number = number


class SpecialEvent(NumberEvent):
    pass


class UnrelatedEvent(Event):
    pass


class Source:
    numbers = Signal(NumberEvent)
    specials = Signal(SpecialEvent)
    unrelated = Signal(UnrelatedEvent)


@pytest.fixture
def source() -> Source:
    return Source()


# ---------------------------------------------------------------------------
# Binding
# ---------------------------------------------------------------------------


def test_binding(source: Source) -> None:
    other = Source()
    assert Source.numbers is Source.__dict__["numbers"]
    assert source.numbers is source.numbers
    assert source.numbers is not other.numbers
    assert source.numbers is not Source.numbers
    assert source.numbers.event_class is NumberEvent
    assert source.specials.event_class is SpecialEvent
    assert source.numbers._topic == "numbers"
    assert source.numbers._instance() is source
    assert source.numbers._send_streams == []
    assert source.numbers._send_streams is not other.numbers._send_streams


def test_binding_is_weak() -> None:
    declared = Source.__dict__["numbers"]
    gc.collect()
    before = len(declared._bound_signals)
    obj = Source()
    bound = obj.numbers
    assert len(declared._bound_signals) == before + 1
    del obj
    gc.collect()
    assert len(declared._bound_signals) == before
    assert bound._instance() is None


def test_binding_failure_for_unhashable_owner() -> None:
    class Unhashable:
        sig = Signal(NumberEvent)
        __hash__ = None  # type: ignore[assignment]

    with pytest.raises(TypeError, match="unhashable"):
        Unhashable().sig


# ---------------------------------------------------------------------------
# dispatch()
# ---------------------------------------------------------------------------


def test_dispatch_stamps_event_without_listeners(source: Source) -> None:
    event = NumberEvent(7)
    before = time.time()
    source.numbers.dispatch(event)
    after = time.time()
    assert event.source is source
    assert event.topic == "numbers"
    assert before <= event.time <= after
    assert event.utc_timestamp.tzinfo is timezone.utc
    assert repr(event) == f"NumberEvent(source={source!r}, topic='numbers')"


def test_dispatch_accepts_subclass_events(source: Source) -> None:
    event = SpecialEvent(1)
    source.numbers.dispatch(event)
    assert event.topic == "numbers"


def test_dispatch_restamps_redispatched_event(source: Source) -> None:
    other = Source()
    event = SpecialEvent(1)
    source.numbers.dispatch(event)
    first_time = event.time
    other.specials.dispatch(event)
    assert event.source is other
    assert event.topic == "specials"
    assert event.time >= first_time


def test_dispatch_type_mismatch_leaves_event_untouched(source: Source) -> None:
    event = NumberEvent(1)
    with pytest.raises(TypeError) as exc_info:
        source.specials.dispatch(event)

    assert str(exc_info.value) == (
        f"Event type mismatch: event ({__name__}.NumberEvent) is not a subclass of "
        f"{__name__}.SpecialEvent"
    )
    assert not hasattr(event, "source")
    assert not hasattr(event, "topic")
    assert not hasattr(event, "time")

    with pytest.raises(TypeError, match=r"event \(str\) is not a subclass of"):
        source.numbers.dispatch("not an event")  # type: ignore[arg-type]


def test_dispatch_unbound_checked_before_type() -> None:
    with pytest.raises(UnboundSignal) as exc_info:
        Source.numbers.dispatch("not an event")  # type: ignore[arg-type]

    assert str(exc_info.value) == (
        "attempted to use a signal that is not bound to an instance"
    )


def test_dispatch_event_with_readonly_attribute(source: Source) -> None:
    """An event that refuses ``topic`` still gets ``source`` set first."""

    class Stubborn(NumberEvent):
        assigned: list[str] = []

        def __setattr__(self, name: str, value: Any) -> None:
            if name == "topic":
                raise AttributeError("topic is read-only")

            Stubborn.assigned.append(name)
            object.__setattr__(self, name, value)

    event = Stubborn()
    Stubborn.assigned.clear()
    with pytest.raises(AttributeError, match="topic is read-only"):
        source.numbers.dispatch(event)

    assert Stubborn.assigned == ["source"]
    assert event.source is source
    assert not hasattr(event, "time")


async def test_dispatch_delivers_to_all_subscribers_in_order(source: Source) -> None:
    async with source.numbers.stream_events() as first, stream_events(
        [source.numbers, source.specials]
    ) as second:
        assert len(source.numbers._send_streams) == 2
        assert len(source.specials._send_streams) == 1
        source.numbers.dispatch(NumberEvent(1))
        source.specials.dispatch(SpecialEvent(2))
        source.numbers.dispatch(NumberEvent(3))

        with fail_after(3):
            assert [(await first.__anext__()).number for _ in range(2)] == [1, 3]
            received = [await second.__anext__() for _ in range(3)]

        assert [event.number for event in received] == [1, 2, 3]
        assert [event.topic for event in received] == [
            "numbers",
            "specials",
            "numbers",
        ]

    assert source.numbers._send_streams == []
    assert source.specials._send_streams == []


async def test_queue_full_warning_points_to_dispatch_caller(source: Source) -> None:
    async with source.numbers.stream_events(max_queue_size=2) as stream:
        source.numbers.dispatch(NumberEvent(1))
        source.numbers.dispatch(NumberEvent(2))
        with warnings.catch_warnings(record=True) as caught:
            warnings.simplefilter("always")
            lineno = sys._getframe().f_lineno + 1
            source.numbers.dispatch(NumberEvent(3))

        assert len(caught) == 1
        warning = caught[0]
        assert warning.category is SignalQueueFull
        assert str(warning.message) == (
            "Queue full (2) when trying to send dispatched event to subscriber"
        )
        assert warning.filename == __file__
        assert warning.lineno == lineno

        with fail_after(3):
            assert (await stream.__anext__()).number == 1
            assert (await stream.__anext__()).number == 2


async def test_queue_full_only_affects_the_slow_subscriber(source: Source) -> None:
    async with source.numbers.stream_events(
        max_queue_size=1
    ) as small, source.numbers.stream_events(max_queue_size=5) as big:
        source.numbers.dispatch(NumberEvent(1))
        with pytest.warns(SignalQueueFull, match=r"Queue full \(1\)") as record:
            source.numbers.dispatch(NumberEvent(2))
            source.numbers.dispatch(NumberEvent(3))

        assert len(record) == 2
        with fail_after(3):
            assert (await small.__anext__()).number == 1
            assert [(await big.__anext__()).number for _ in range(3)] == [1, 2, 3]


async def test_queue_full_warning_as_error_stops_delivery(source: Source) -> None:
    """
    If the warning is turned into an exception, it propagates from ``dispatch()`` (with
    the ``WouldBlock`` as its context) and later subscribers are not served.

    """
    async with source.numbers.stream_events(
        max_queue_size=1
    ) as small, source.numbers.stream_events(max_queue_size=5) as big:
        source.numbers.dispatch(NumberEvent(1))
        with warnings.catch_warnings():
            warnings.simplefilter("error", SignalQueueFull)
            with pytest.raises(SignalQueueFull) as exc_info:
                source.numbers.dispatch(NumberEvent(2))

        assert type(exc_info.value.__context__).__name__ == "WouldBlock"
        with pytest.warns(SignalQueueFull):
            source.numbers.dispatch(NumberEvent(3))  # warns normally again

        with fail_after(3):
            assert (await small.__anext__()).number == 1
            assert [(await big.__anext__()).number for _ in range(2)] == [1, 3]


async def test_dispatch_to_closed_receiver_is_ignored(source: Source) -> None:
    """A subscriber whose receive stream was closed is skipped silently."""
    async with source.numbers.stream_events() as broken, source.numbers.stream_events(
    ) as healthy:
        # Exhausting/closing the generator closes nothing by itself; close the
        # receiving end by finishing the filter generator
        await broken.aclose()
        with warnings.catch_warnings():
            warnings.simplefilter("error")
            source.numbers.dispatch(NumberEvent(5))

        with fail_after(3):
            assert (await healthy.__anext__()).number == 5


# ---------------------------------------------------------------------------
# stream_events() / wait_event()
# ---------------------------------------------------------------------------


async def test_stream_events_filter(source: Source) -> None:
    calls: list[int] = []

    def is_even(event: NumberEvent) -> bool:
        calls.append(event.number)
        return event.number % 2 == 0

    async with source.numbers.stream_events(is_even) as stream:
        for number in range(1, 7):
            source.numbers.dispatch(NumberEvent(number))

        # The filter is only applied when the consumer iterates
        assert calls == []
        with fail_after(3):
            assert (await stream.__anext__()).number == 2
            assert calls == [1, 2]
            assert (await stream.__anext__()).number == 4
            assert calls == [1, 2, 3, 4]


async def test_stream_events_truthy_filter_results(source: Source) -> None:
    async with source.numbers.stream_events(lambda e: e.number and "yes") as stream:
        for number in (0, 3, 0, 4):
            source.numbers.dispatch(NumberEvent(number))

        with fail_after(3):
            assert (await stream.__anext__()).number == 3
            assert (await stream.__anext__()).number == 4


async def test_stream_events_filter_exception_ends_the_stream(source: Source) -> None:
    def bad_filter(event: NumberEvent) -> bool:
        raise ZeroDivisionError("bad filter")

    async with source.numbers.stream_events(bad_filter) as stream:
        source.numbers.dispatch(NumberEvent(1))
        source.numbers.dispatch(NumberEvent(2))
        with fail_after(3):
            with pytest.raises(ZeroDivisionError, match="bad filter"):
                await stream.__anext__()

            with pytest.raises(StopAsyncIteration):
                await stream.__anext__()

        # Still subscribed until the context manager exits
        assert len(source.numbers._send_streams) == 1

    assert source.numbers._send_streams == []


async def test_stream_events_unbound_signal_unsubscribes_others(
    source: Source,
) -> None:
    with pytest.raises(UnboundSignal):
        async with stream_events([source.numbers, Source.specials]):
            pytest.fail("should not get here")

    assert source.numbers._send_streams == []


async def test_stream_events_same_signal_twice(source: Source) -> None:
    async with stream_events([source.numbers, source.numbers]) as stream:
        assert len(source.numbers._send_streams) == 2
        source.numbers.dispatch(NumberEvent(1))
        with fail_after(3):
            assert (await stream.__anext__()).number == 1
            assert (await stream.__anext__()).number == 1

    assert source.numbers._send_streams == []


async def test_stream_events_no_signals() -> None:
    async with stream_events([]) as stream:
        assert hasattr(stream, "__anext__")
        assert stream.__aiter__() is stream


async def test_stream_events_body_exception_cleans_up(source: Source) -> None:
    with pytest.raises(KeyError, match="body failed"):
        async with source.numbers.stream_events() as stream:
            source.numbers.dispatch(NumberEvent(1))
            raise KeyError("body failed")

    assert source.numbers._send_streams == []
    # The generator was closed by the context manager
    with pytest.raises(StopAsyncIteration):
        await stream.__anext__()


async def test_stream_events_async_for_and_cancellation(source: Source) -> None:
    received: list[int] = []

    async def consume(*, task_status: TaskStatus[None]) -> None:
        async with source.numbers.stream_events(lambda e: e.number != 2) as stream:
            task_status.started()
            async for event in stream:
                received.append(event.number)

    async with create_task_group() as tg:
        await tg.start(consume)
        assert len(source.numbers._send_streams) == 1
        for number in (1, 2, 3):
            source.numbers.dispatch(NumberEvent(number))

        await wait_all_tasks_blocked()
        tg.cancel_scope.cancel()

    assert received == [1, 3]
    assert source.numbers._send_streams == []


async def test_wait_event(source: Source) -> None:
    results: list[Event] = []

    async def waiter(*, task_status: TaskStatus[None]) -> None:
        task_status.started()
        results.append(await source.numbers.wait_event(lambda e: e.number > 1))
        results.append(await wait_event([source.numbers, source.unrelated]))

    async with create_task_group() as tg:
        await tg.start(waiter)
        await wait_all_tasks_blocked()
        source.numbers.dispatch(NumberEvent(1))
        await checkpoint()
        assert results == []
        source.numbers.dispatch(NumberEvent(2))
        await wait_all_tasks_blocked()
        assert [type(event) for event in results] == [NumberEvent]
        source.unrelated.dispatch(UnrelatedEvent())
        with fail_after(3):
            while len(results) < 2:
                await sleep(0.01)

    assert isinstance(results[1], UnrelatedEvent)
    assert results[1].topic == "unrelated"
    assert source.numbers._send_streams == []
    assert source.unrelated._send_streams == []


async def test_wait_event_unbound() -> None:
    with pytest.raises(UnboundSignal):
        await wait_event([Source.numbers])

    with pytest.raises(UnboundSignal):
        await Source.numbers.wait_event()


async def test_wait_event_cancelled(source: Source) -> None:
    async with create_task_group() as tg:
        tg.start_soon(source.numbers.wait_event)
        await wait_all_tasks_blocked()
        assert len(source.numbers._send_streams) == 1
        tg.cancel_scope.cancel()

    assert source.numbers._send_streams == []
