"""
Behaviour check for refactoring 3 (private attribute ``_teardown_callbacks`` and the
locals of ``_run_teardown_callbacks`` renamed; ``_ensure_state``'s if/elif chain
replaced by a message lookup table).

Exercises property C01 through the public API, concentrating on the state the context
reports before/during/after teardown, on which registrations are accepted when, and on
the shape of the raised exception group.
"""

from __future__ import annotations

import gc
import weakref
from typing import Any

import pytest
from anyio import CancelScope, create_task_group, get_cancelled_exc_class, sleep
from anyio.lowlevel import checkpoint

from asphalt.core import Context, add_teardown_callback, context_teardown

pytestmark = pytest.mark.anyio


@pytest.fixture(params=["asyncio", "trio"])
def anyio_backend(request: pytest.FixtureRequest) -> str:
    return request.param


@pytest.fixture
async def root_context() -> Any:
    async with Context() as ctx:
        yield ctx


class MyBaseError(BaseException):
    pass


async def test_state_errors_for_registration() -> None:
    ctx = Context()
    assert not ctx.closed
    with pytest.raises(RuntimeError, match="^this context has not been entered yet$"):
        ctx.add_teardown_callback(lambda: None)

    with pytest.raises(RuntimeError, match="^this context has not been entered yet$"):
        ctx.add_resource(1, teardown_callback=lambda: None)

    async with ctx:
        assert not ctx.closed
        with pytest.raises(
            RuntimeError, match="^this context has already been entered$"
        ):
            await ctx.__aenter__()

        # State check comes before the callable check
        with pytest.raises(TypeError, match="^callback must be a callable$"):
            ctx.add_teardown_callback(None)  # type: ignore[arg-type]

    assert ctx.closed
    with pytest.raises(RuntimeError, match="^this context has already been closed$"):
        ctx.add_teardown_callback(lambda: None)

    with pytest.raises(RuntimeError, match="^this context has already been closed$"):
        ctx.add_teardown_callback(None)  # type: ignore[arg-type]

    with pytest.raises(RuntimeError, match="^this context has already been closed$"):
        await ctx.__aenter__()


async def test_being_torn_down_error_and_closed_flag_during_teardown() -> None:
    seen: list[Any] = []
    ctx = Context()

    async def callback() -> None:
        seen.append(ctx.closed)
        # Registration is allowed while closing...
        ctx.add_teardown_callback(lambda: seen.append("late"))
        # ...but entering is not
        try:
            await ctx.__aenter__()
        except RuntimeError as exc:
            seen.append(str(exc))

        try:
            ctx.add_teardown_callback(42)  # type: ignore[arg-type]
        except TypeError as exc:
            seen.append(str(exc))

    async with ctx:
        ctx.add_teardown_callback(lambda: seen.append("bottom"))
        ctx.add_teardown_callback(callback)
        seen.append(ctx.closed)

    assert seen == [
        False,
        True,
        "this context is being torn down",
        "callback must be a callable",
        "late",
        "bottom",
    ]
    assert ctx.closed


async def test_each_callback_runs_exactly_once_lifo_even_when_reentered() -> None:
    calls: list[int] = []
    ctx = Context()

    def make(i: int) -> Any:
        if i % 3 == 0:

            async def async_cb() -> None:
                calls.append(i)
                await checkpoint()
                if i == 6:
                    # registered mid-teardown: runs next, before the older ones
                    ctx.add_teardown_callback(make(100))
                    ctx.add_teardown_callback(make(101))

            return async_cb

        def sync_cb() -> None:
            calls.append(i)

        return sync_cb

    async with ctx:
        for i in range(10):
            ctx.add_teardown_callback(make(i))

    assert calls == [9, 8, 7, 6, 101, 100, 5, 4, 3, 2, 1, 0]
    assert ctx.closed


async def test_same_callable_registered_several_times() -> None:
    calls: list[BaseException | None | str] = []

    def callback(*args: Any) -> None:
        calls.append(args[0] if args else "noarg")

    error = OSError("x")
    with pytest.raises(OSError) as exc_info:
        async with Context() as ctx:
            ctx.add_teardown_callback(callback)
            ctx.add_teardown_callback(callback, True)
            add_teardown_callback(callback, pass_exception=False)
            add_teardown_callback(callback, True)
            raise error

    assert exc_info.value is error
    assert calls == [error, "noarg", error, "noarg"]
    assert ctx.closed


@pytest.mark.parametrize(
    "block_error", [None, ValueError("block"), MyBaseError("block")], ids=repr
)
async def test_group_contents_cause_and_closed(
    block_error: BaseException | None, root_context: Context
) -> None:
    ran: list[str] = []
    e1, e2, e3 = MyBaseError("e1"), RuntimeError("e2"), KeyboardInterrupt()

    async def cb1() -> None:
        ran.append("cb1")
        await checkpoint()
        raise e1

    def cb2(exc: BaseException | None) -> None:
        ran.append("cb2")
        assert exc is block_error
        raise e2

    def cb3() -> None:
        ran.append("cb3")

    async def cb4(exc: BaseException | None) -> None:
        ran.append("cb4")
        assert exc is block_error
        raise e3

    with pytest.raises(BaseExceptionGroup) as exc_info:
        async with Context() as ctx:
            ctx.add_teardown_callback(cb1)
            ctx.add_teardown_callback(cb2, True)
            ctx.add_teardown_callback(cb3)
            ctx.add_teardown_callback(cb4, True)
            if block_error is not None:
                raise block_error

    group = exc_info.value
    assert ran == ["cb4", "cb3", "cb2", "cb1"]
    assert type(group) is BaseExceptionGroup
    assert group.message == "Exceptions were raised during context teardown"
    assert group.exceptions == (e3, e2, e1)
    assert group.__cause__ is block_error
    assert group.__suppress_context__
    assert ctx.closed
    assert ctx.parent is root_context


async def test_failed_assertion_in_pass_exception_callback_is_not_swallowed(
    root_context: Context,
) -> None:
    """Guards the test above: a wrong ``exc`` would show up in the group."""

    def cb(exc: BaseException | None) -> None:
        assert exc is not None

    with pytest.raises(ExceptionGroup) as exc_info:
        async with Context() as ctx:
            ctx.add_teardown_callback(cb, True)

    assert [type(e) for e in exc_info.value.exceptions] == [AssertionError]
    assert ctx.closed


async def test_child_contexts_torn_down_independently(root_context: Context) -> None:
    events: list[str] = []

    @context_teardown
    async def start(name: str) -> Any:
        yield
        events.append(name)

    async with Context() as outer:
        outer.add_teardown_callback(lambda: events.append("outer cb"))
        async with Context() as inner:
            assert inner.parent is outer
            inner.add_teardown_callback(lambda: events.append("inner cb"))
            await start("inner gen")

        assert inner.closed and not outer.closed
        events.append("between")
        await start("outer gen")

    assert outer.closed and not root_context.closed
    assert events == ["inner gen", "inner cb", "between", "outer gen", "outer cb"]


async def test_cancellation_from_other_task_while_block_waits() -> None:
    events: list[Any] = []
    received: list[BaseException | None] = []

    async def slow_cb() -> None:
        events.append("slow begin")
        with CancelScope(shield=True):
            await sleep(0.05)

        events.append("slow end")

    async with create_task_group() as tg:
        with CancelScope() as scope:
            async with Context() as ctx:
                ctx.add_teardown_callback(lambda: events.append("bottom"))
                ctx.add_teardown_callback(slow_cb)
                ctx.add_teardown_callback(received.append, True)

                async def canceller() -> None:
                    await sleep(0.02)
                    scope.cancel()

                tg.start_soon(canceller)
                await sleep(10)
                pytest.fail("should have been cancelled")

    assert scope.cancelled_caught
    assert len(received) == 1
    assert isinstance(received[0], get_cancelled_exc_class())
    assert events == ["slow begin", "slow end", "bottom"]
    assert ctx.closed


async def test_callbacks_are_released_after_teardown() -> None:
    class Callback:
        def __call__(self) -> None:
            pass

    callback = Callback()
    ref = weakref.ref(callback)
    async with Context() as ctx:
        ctx.add_teardown_callback(callback)
        del callback
        gc.collect()
        assert ref() is not None  # the context keeps it alive until teardown

    gc.collect()
    assert ref() is None
    assert ctx.closed
