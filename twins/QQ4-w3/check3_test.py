"""
Behaviour checks for refactoring 3 (child specification handling of
``_init_component``, the start-up timeout report built from generators, and the
exception description helper of ``ComponentStartError``).
"""

from __future__ import annotations

import logging
import re
from collections import UserDict
from typing import Any

import pytest
from anyio import sleep
from pytest import LogCaptureFixture

from asphalt.core import (
    Component,
    ComponentStartError,
    Context,
    add_resource,
    get_resource,
    get_resource_nowait,
    get_resources,
    start_component,
)

pytestmark = pytest.mark.anyio()

created: list[tuple[str, dict[str, Any]]] = []


@pytest.fixture(autouse=True)
def clear_created() -> None:
    created.clear()


class Leaf(Component):
    def __init__(self, **kwargs: Any) -> None:
        created.append(("Leaf", kwargs))
        self.kwargs = kwargs

    async def start(self) -> None:
        add_resource(self)


class Branch(Component):
    def __init__(self, **kwargs: Any) -> None:
        created.append(("Branch", kwargs))
        self.add_component("x", Leaf, a=1, b={"c": 2})
        self.add_component(f"{__name__}:Leaf/y", a=10)
        self.add_component("z/zed", Leaf)


class Stuck(Component):
    def __init__(self, depth: int = 0) -> None:
        if depth:
            self.add_component("down", Stuck, depth=depth - 1)
            self.add_component("idle", Component)
            self.add_component(f"ok/d{depth}", Leaf)
        self.depth = depth

    async def start(self) -> None:
        if not self.depth:
            await get_resource(bytes)


async def test_child_configs_merged_copied_and_ordered() -> None:
    x_override = {"b": {"d": 3}, "e": 4}
    frozen_view = UserDict({"a": 11})
    config = {
        "components": {
            "z/zed": {},
            "x": x_override,
            f"{__name__}:Leaf/y": frozen_view,
            "extra/w": {"type": f"{__name__}:Leaf/whatever", "q": 1},
            f"{__name__}:Leaf/n": None,
        },
    }
    snapshot = {"components": dict(config["components"])}
    async with Context():
        root = await start_component(Branch, config)
        assert isinstance(root, Branch)
        leaves = get_resources(Leaf)

    # Creation order: parent first, then the children in declaration order followed
    # by those only present in the configuration overrides
    assert created == [
        ("Branch", {}),
        ("Leaf", {"a": 1, "b": {"c": 2, "d": 3}, "e": 4}),
        ("Leaf", {"a": 11}),
        ("Leaf", {}),
        ("Leaf", {"q": 1}),
        ("Leaf", {}),
    ]
    assert sorted(leaves) == ["default", "n", "w", "y", "zed"]
    assert leaves["y"].kwargs == {"a": 11}
    assert leaves["w"].kwargs == {"q": 1}
    # The caller's configuration objects were not modified ("type" neither added nor
    # popped, "components" still in place)
    assert x_override == {"b": {"d": 3}, "e": 4}
    assert dict(frozen_view) == {"a": 11}
    assert config == snapshot
    assert config["components"]["extra/w"] == {
        "type": f"{__name__}:Leaf/whatever",
        "q": 1,
    }


async def test_nested_paths_in_errors() -> None:
    class Bad(Component):
        def __init__(self, **kwargs: Any) -> None:
            raise ValueError("nope")

    def nest(inner: Any) -> dict[str, Any]:
        return {
            "components": {
                "a": {"type": Component, "components": {"b/c": inner}},
            }
        }

    async with Context():
        with pytest.raises(
            TypeError,
            match=r"^a\.b/c: component configuration must be either None or a dict "
            r"\(or any other mutable mapping type\), not tuple$",
        ):
            await start_component(Component, nest(("type", Leaf)))

        with pytest.raises(
            TypeError,
            match=r"^a\.b/c: the declared component type \(3\.5\) resolved to 3\.5 "
            r"which is not a subclass of Component$",
        ):
            await start_component(Component, nest({"type": 3.5}))

        with pytest.raises(
            TypeError,
            match=r"^a\.b/c: the declared component type \(<class 'int'>\) resolved "
            r"to <class 'int'> which is not a subclass of Component$",
        ):
            await start_component(Component, nest({"type": int}))

        with pytest.raises(
            TypeError,
            match=r"^\(root\): the declared component type \('builtins:len'\) "
            r"resolved to <built-in function len> which is not a subclass",
        ):
            await start_component("builtins:len")

        with pytest.raises(ComponentStartError) as exc_info:
            await start_component(Component, nest({"type": Bad, "k": 1}))

        exc = exc_info.value
        assert (exc.phase, exc.path, exc.component_type) == ("creating", "a.b/c", Bad)
        assert isinstance(exc.__cause__, ValueError)
        assert str(exc) == (
            f"error creating component 'a.b/c' ({__name__}."
            f"test_nested_paths_in_errors.<locals>.Bad): ValueError: nope"
        )

        # Unexpected keyword argument for the component class
        with pytest.raises(ComponentStartError) as exc_info:
            await start_component(Component, nest({"type": Component, "k": 1}))

        assert exc_info.value.path == "a.b/c"
        assert isinstance(exc_info.value.__cause__, TypeError)

        # Nothing was started in any of these cases
        assert get_resource_nowait(Leaf, optional=True) is None


async def test_earlier_siblings_created_before_error(caplog: LogCaptureFixture) -> None:
    caplog.set_level(logging.DEBUG, "asphalt.core")
    config = {"components": {"one": {"type": Leaf}, "two": 5, "three": {"type": Leaf}}}
    async with Context():
        with pytest.raises(TypeError, match="^two: component configuration must be"):
            await start_component(Component, config)

    assert created == [("Leaf", {})]
    assert caplog.messages == [
        "Creating the root component (asphalt.core.Component)",
        "Created the root component (asphalt.core.Component)",
        f"Creating component 'one' ({__name__}.Leaf)",
        f"Created component 'one' ({__name__}.Leaf)",
    ]


async def test_timeout_report(caplog: LogCaptureFixture) -> None:
    caplog.set_level(logging.ERROR, "asphalt.core")
    async with Context():
        with pytest.raises(TimeoutError, match="^timeout starting component tree$"):
            await start_component(Stuck, {"depth": 2}, timeout=0.1)

    assert len(caplog.records) == 1
    assert caplog.records[0].msg == "%s"
    report = caplog.messages[0]
    head, _, stacks = report.partition(
        "\n\nStack summaries of components still waiting to start\n"
        "----------------------------------------------------\n\n"
    )
    assert head == (
        "Timeout waiting for the component tree to start\n"
        "\n"
        "Current status of the components still waiting to finish startup\n"
        "----------------------------------------------------------------\n"
        "\n"
        "(root): starting children\n"
        "  down: starting children\n"
        "    down: starting"
    )
    assert re.match(rf"down\.down \({__name__}\.Stuck\):\n  File \"", stacks)
    # Exactly one component is stuck in a coroutine
    assert len(re.findall(r"^\S.* \(.+\):$", stacks, flags=re.MULTILINE)) == 1
    assert "in start\n" in stacks
    assert not stacks.endswith("\n")


async def test_timeout_report_two_branches(caplog: LogCaptureFixture) -> None:
    class Sleeper(Component):
        async def prepare(self) -> None:
            await sleep(5)

    class Root(Component):
        def __init__(self) -> None:
            self.add_component("s1", Sleeper)
            self.add_component("leaf", Leaf)
            self.add_component("s2", Sleeper)

        async def prepare(self) -> None:
            pass

    caplog.set_level(logging.ERROR, "asphalt.core")
    async with Context():
        with pytest.raises(TimeoutError):
            await start_component(Root, timeout=0.1)

    sections = caplog.messages[0].split("\n\n")
    assert sections[2] == "(root): starting children\n  s1: preparing\n  s2: preparing"
    assert [s.split(" ")[0] for s in sections[4:]] == ["s1", "s2"]
    assert len(sections) == 6


def test_component_start_error_description() -> None:
    exc = ComponentStartError("starting", "", Leaf)
    assert str(exc) == (
        f"error starting the root component ({__name__}.Leaf): NoneType: None"
    )
    exc.__cause__ = OSError()
    assert str(exc) == f"error starting the root component ({__name__}.Leaf): OSError"
    exc.__cause__ = OSError(5, "boom")
    assert str(exc) == (
        f"error starting the root component ({__name__}.Leaf): "
        f"OSError: [Errno 5] boom"
    )
    exc.phase = "preparing"
    exc.path = "p.q"
    exc.__cause__ = ComponentStartError("creating", "r", Component)
    assert str(exc) == (
        f"error preparing component 'p.q' ({__name__}.Leaf): "
        f"asphalt.core.ComponentStartError: error creating component 'r' "
        f"(asphalt.core.Component): NoneType: None"
    )
    assert repr(exc) == f"ComponentStartError('starting', '', {Leaf!r})"
