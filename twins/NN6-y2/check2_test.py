"""
Behaviour checks for refactoring 2 (module-level helpers extracted from ``inject``).

Focus: the signature scan (which parameters become dependencies, which errors are
raised and in which order relative to each other), the one-time resolution of the
annotations into (type, optional) pairs, and that the state recorded on the
``resource()`` markers is what it was before.
"""

from __future__ import annotations

import functools
import sys
import warnings
from typing import Any, Dict, List, Optional, Union

import pytest

from asphalt.core import (
    Context,
    ResourceNotFound,
    add_resource,
    add_resource_factory,
    inject,
    resource,
)

pytestmark = pytest.mark.anyio()

UNION_ERROR = (
    "Unions are only valid with dependency injection when there are exactly two "
    "items and other item is None"
)


class Service:
    def __init__(self, label: str = "svc") -> None:
        self.label = label


class TestSignatureScan:
    async def test_all_parameter_kinds(self) -> None:
        @inject
        def func(
            pos: int,
            /,
            normal: str,
            injected_normal: Service = resource(),
            *args: int,
            kwonly: bytes = b"x",
            injected_kwonly: Optional[float] = resource("ratio"),
            **kwargs: Any,
        ) -> Any:
            return pos, normal, injected_normal, args, kwonly, injected_kwonly, kwargs

        service = Service()
        async with Context():
            add_resource(service)
            assert func(1, "n") == (1, "n", service, (), b"x", None, {})
            add_resource(0.5, "ratio")
            assert func(1, normal="n", kwonly=b"y", extra=3) == (
                1,
                "n",
                service,
                (),
                b"y",
                0.5,
                {"extra": 3},
            )

    def test_errors_in_signature_order(self) -> None:
        def posonly_then_unannotated(a: int = resource(), /, *, b=resource()):  # type: ignore
            pass

        def unannotated_then_posonly_impossible(b=resource(), *, c: int = resource):  # type: ignore
            pass

        with pytest.raises(TypeError) as exc:
            inject(posonly_then_unannotated)

        assert str(exc.value) == (
            "Cannot inject dependency to positional-only parameter 'a'"
        )
        with pytest.raises(TypeError) as exc:
            inject(unannotated_then_posonly_impossible)

        assert str(exc.value).startswith("Dependency for parameter 'b' of function '")
        assert str(exc.value).endswith(
            ".unannotated_then_posonly_impossible' is missing the type annotation"
        )

    def test_resource_function_as_default_on_kwonly(self) -> None:
        def func(*, a: int = resource) -> None:  # type: ignore[assignment]
            pass

        with pytest.raises(TypeError) as exc:
            inject(func)

        message = str(exc.value)
        assert message.startswith("Default value for parameter 'a' of function ")
        assert f"{__name__}.TestSignatureScan." in message
        assert message.endswith(
            ".<locals>.func was the 'resource' function – did you forget to add the "
            "parentheses at the end?"
        )

    def test_other_defaults_ignored(self) -> None:
        class Lookalike:
            name = "default"

        def func(a: int = 1, b: Any = Lookalike(), c: Any = None) -> None:
            pass

        with pytest.warns(UserWarning) as caught:
            assert inject(func) is func

        assert len(caught) == 1
        assert str(caught[0].message).endswith(
            ".func does not have any injectable resources declared"
        )

    def test_no_warning_when_something_is_injectable(self) -> None:
        with warnings.catch_warnings():
            warnings.simplefilter("error")

            @inject
            def func(a: int = resource()) -> int:
                return a

    def test_errors_reported_before_warning(self) -> None:
        # A signature that is broken never reaches the "no injectables" warning
        def func(a: int = resource) -> None:  # type: ignore[assignment]
            pass

        with warnings.catch_warnings():
            warnings.simplefilter("error")
            with pytest.raises(TypeError):
                inject(func)

    async def test_method_injection(self) -> None:
        class Handler:
            @inject
            def sync_method(self, prefix: str, svc: Service = resource()) -> str:
                return prefix + svc.label

            @inject
            async def async_method(self, *, svc: Service = resource("other")) -> str:
                return svc.label

            @staticmethod
            @inject
            def static(svc: Service = resource()) -> str:
                return svc.label

        handler = Handler()
        async with Context():
            add_resource(Service("one"))
            add_resource(Service("two"), "other")
            assert handler.sync_method(">") == ">one"
            assert await handler.async_method() == "two"
            assert Handler.static() == "one"

    def test_objects_without_qualname_fail_before_the_scan(self) -> None:
        # The "<locals>" test on __qualname__ comes first, so even a signature that
        # the scan would reject is not looked at
        def func(a: int, svc=resource):  # type: ignore[no-untyped-def]
            return a, svc

        class CallableObject:
            def __call__(self, svc=resource()):  # type: ignore[no-untyped-def]
                return svc

        with pytest.raises(AttributeError, match="__qualname__"):
            inject(functools.partial(func, 1))

        with pytest.raises(AttributeError, match="__qualname__"):
            inject(CallableObject())

    async def test_bound_method_and_class_as_callables(self) -> None:
        class Handler:
            def __init__(self, svc: Service = resource()) -> None:
                self.svc = svc

            def method(self, *, svc: Optional[Service] = resource("m")) -> Any:
                return svc

        service = Service()
        async with Context():
            add_resource(service)
            # decorating a class passes the scan (it looks at __init__) but the
            # type hints of a class are those of its body, hence the KeyError
            wrapped_class = inject(Handler)
            for _ in range(2):
                with pytest.raises(KeyError) as exc:
                    wrapped_class()

                assert exc.value.args == ("svc",)

            handler = Handler(service)
            assert inject(handler.method)() is None


class TestHintResolution:
    async def test_marker_state_after_resolution(self) -> None:
        plain = resource()
        optional = resource("opt")
        generic = resource("gen")

        @inject
        def func(
            a: Service = plain,
            b: Optional[Service] = optional,
            c: List[int] = generic,
        ) -> Any:
            return a, b, c

        for marker in (plain, optional, generic):
            assert marker.optional is False
            with pytest.raises(AttributeError):
                marker.cls

        service = Service()
        numbers = [1, 2]
        async with Context():
            add_resource(service)
            add_resource(numbers, "gen", types=[List[int]])
            assert func() == (service, None, numbers)

        assert plain.cls is Service and plain.optional is False
        assert optional.cls is Service and optional.optional is True
        assert generic.cls == List[int] and generic.optional is False

    async def test_failed_resolution_leaves_partial_state_and_retries(self) -> None:
        ok = resource()
        bad = resource()
        never = resource()

        @inject
        async def func(
            a: Union[None, int] = ok,
            b: Union[int, str, None] = bad,
            c: int = never,
        ) -> Any:
            return a, b, c

        async with Context():
            add_resource(1)
            for _ in range(3):
                with pytest.raises(TypeError) as exc:
                    await func()

                assert str(exc.value) == UNION_ERROR
                assert ok.cls is int and ok.optional is True
                assert bad.cls == Union[int, str, None]
                assert bad.optional is False
                with pytest.raises(AttributeError):
                    never.cls

    async def test_resolution_happens_once(self) -> None:
        calls: list[str] = []

        class Tracker(dict):  # type: ignore[type-arg]
            def __getitem__(self, key: str) -> Any:
                calls.append(key)
                return super().__getitem__(key)

        def func(svc=resource()):  # type: ignore[no-untyped-def]
            return svc

        # get_type_hints() reads __annotations__ each time it is called
        func.__annotations__ = Tracker(svc=Service)
        wrapped = inject(func)
        service = Service()
        async with Context():
            add_resource(service)
            assert wrapped() is service
            first = len(calls)
            assert wrapped() is service
            assert wrapped() is service

        assert len(calls) == first

    async def test_dict_and_nested_optional_generics(self) -> None:
        @inject
        def func(
            mapping: Optional[Dict[str, int]] = resource(),
        ) -> Any:
            return mapping

        data = {"a": 1}
        async with Context():
            assert func() is None
            add_resource(data, types=[Dict[str, int]])
            assert func() is data

    @pytest.mark.skipif(sys.version_info < (3, 10), reason="Requires Python 3.10+")
    async def test_pep604_objects(self) -> None:
        def good(svc=resource()):  # type: ignore[no-untyped-def]
            return svc

        def bad(svc=resource()):  # type: ignore[no-untyped-def]
            return svc

        good.__annotations__["svc"] = None | Service
        bad.__annotations__["svc"] = Service | int
        wrapped_good = inject(good)
        wrapped_bad = inject(bad)
        async with Context():
            assert wrapped_good() is None
            with pytest.raises(TypeError) as exc:
                wrapped_bad()

            assert str(exc.value) == UNION_ERROR

    async def test_shared_marker_between_functions(self) -> None:
        shared = resource("shared")

        @inject
        def first(svc: Optional[Service] = shared) -> Any:
            return svc

        @inject
        def second(svc: Service = shared) -> Any:
            return svc

        async with Context():
            assert first() is None
            assert shared.cls is Service and shared.optional is True
            # the second function re-resolves the shared marker: the class is
            # overwritten, the optional flag is sticky
            assert second() is None
            assert shared.cls is Service and shared.optional is True


class TestLookups:
    async def test_required_resource_missing(self) -> None:
        @inject
        def func(svc: Service = resource("nope")) -> Any:
            return svc

        async with Context():
            with pytest.raises(ResourceNotFound) as exc:
                func()

            assert exc.value.type is Service
            assert exc.value.name == "nope"

    async def test_factories_invoked_in_parameter_order(self) -> None:
        order: list[str] = []

        def make_int() -> int:
            order.append("int")
            return 3

        def make_str() -> str:
            order.append("str")
            return "s"

        @inject
        def func(*, s: str = resource(), i: int = resource()) -> Any:
            return s, i

        async with Context():
            add_resource_factory(make_int)
            add_resource_factory(make_str)
            assert func() == ("s", 3)
            assert func() == ("s", 3)

        assert order == ["str", "int"]
