"""Self-test campaign (mutants, twins, positive controls) - filled in later."""


def run_for_check(prop, project, tier):
    return [], {}
