"""
Behaviour checks for refactoring 3 (control flow restructuring of
``run_background_task()`` and friends in ``_concurrent.py``).

Exercises, through the public API only: how the target function gets called, when
``task_status.started()`` is called on its behalf, the exact log records emitted on each
exit path (success, crash, handled crash, cancellation) and name/start value handling
in the task factory.
"""

from __future__ import annotations

import logging
import sys
from typing import Any, NoReturn

import pytest
from anyio import (
    Event,
    create_task_group,
    fail_after,
    get_current_task,
    sleep,
    wait_all_tasks_blocked,
)
from anyio.abc import TaskStatus
from pytest import LogCaptureFixture

from asphalt.core import (
    Context,
    TaskHandle,
    start_background_task_factory,
    start_service_task,
)

if sys.version_info < (3, 11):
    from exceptiongroup import BaseExceptionGroup, ExceptionGroup

pytestmark = [pytest.mark.anyio(), pytest.mark.timeout(30)]


@pytest.fixture
def anyio_backend() -> str:
    return "asyncio"


def leaves(exc: BaseException) -> list[BaseException]:
    if isinstance(exc, BaseExceptionGroup):
        return [leaf for sub in exc.exceptions for leaf in leaves(sub)]

    return [exc]


def task_records(caplog: LogCaptureFixture, name: str) -> list[logging.LogRecord]:
    return [
        record
        for record in caplog.records
        if record.name == "asphalt.core" and record.args == (name,)
    ]


class TestInvocation:
    async def test_called_without_arguments(self) -> None:
        calls: list[tuple[tuple[Any, ...], dict[str, Any]]] = []
        event = Event()

        async def taskfunc(*args: Any, **kwargs: Any) -> None:
            calls.append((args, kwargs))
            await event.wait()

        async with Context():
            factory = await start_background_task_factory()
            # start_task() returns although the function is still running, because
            # started() was called on the function's behalf
            with fail_after(3):
                handle = await factory.start_task(taskfunc)

            assert handle.start_value is None
            assert calls == [((), {})]
            event.set()

    async def test_called_with_only_task_status(self) -> None:
        calls: list[tuple[tuple[Any, ...], dict[str, Any]]] = []

        async def taskfunc(*args: Any, task_status: Any, **kwargs: Any) -> None:
            calls.append((args, kwargs))
            assert callable(task_status.started)
            task_status.started(len(calls))

        async with Context():
            factory = await start_background_task_factory()
            handle = await factory.start_task(taskfunc)
            assert handle.start_value == 1
            assert await start_service_task(taskfunc, "svc") == 2

        assert calls == [((), {}), ((), {})]

    async def test_started_called_before_function(self) -> None:
        """
        If the function does not take ``task_status``, the starter is released even
        when the function crashes right away.

        """
        handled: list[Exception] = []

        async def taskfunc() -> NoReturn:
            raise ValueError("immediate")

        async with Context():
            factory = await start_background_task_factory(
                exception_handler=lambda exc: handled.append(exc) or True
            )
            handle = await factory.start_task(taskfunc)
            assert handle.start_value is None
            await handle.wait_finished()

        assert [str(exc) for exc in handled] == ["immediate"]

    async def test_started_not_called_on_behalf(self) -> None:
        """With ``task_status``, start_task() blocks until the function calls it."""
        event = Event()

        async def taskfunc(task_status: TaskStatus[str]) -> None:
            await event.wait()
            task_status.started("late")

        async with Context():
            factory = await start_background_task_factory()
            with pytest.raises(TimeoutError):
                with fail_after(0.05):
                    await factory.start_task(taskfunc, "blocked")

            # The cancelled start attempt leaves nothing behind
            await wait_all_tasks_blocked()
            assert factory.all_task_handles() == set()

            async with create_task_group() as tg:
                tg.start_soon(_set, event)
                handle = await factory.start_task(taskfunc, "unblocked")

            assert handle.start_value == "late"

    async def test_start_value_assigned_after_start(self) -> None:
        seen: list[bool] = []

        async def taskfunc(task_status: TaskStatus[int]) -> None:
            (handle,) = factory.all_task_handles()
            seen.append(hasattr(handle, "start_value"))
            task_status.started(5)
            await sleep(0)
            seen.append(hasattr(handle, "start_value"))

        async with Context():
            factory = await start_background_task_factory()
            handle = await factory.start_task(taskfunc)
            assert handle.start_value == 5
            await handle.wait_finished()

        assert seen[0] is False

    async def test_task_runs_in_own_context_and_named_task(self) -> None:
        from asphalt.core import add_resource, current_context, get_resource_nowait

        async def taskfunc() -> None:
            assert get_current_task().name == "ctxtask"
            assert current_context() is not outer
            assert get_resource_nowait(str) == "inherited"
            add_resource(b"task-local")

        async with Context() as outer:
            add_resource("inherited")
            factory = await start_background_task_factory()
            handle = await factory.start_task(taskfunc, "ctxtask")
            await handle.wait_finished()
            assert get_resource_nowait(bytes, optional=True) is None


async def _set(event: Event) -> None:
    event.set()


class TestLogRecords:
    async def test_success(self, caplog: LogCaptureFixture) -> None:
        caplog.set_level(logging.DEBUG, "asphalt.core")

        async def taskfunc() -> None:
            pass

        async with Context():
            factory = await start_background_task_factory()
            handle = await factory.start_task(taskfunc, "ok %s %d")
            await handle.wait_finished()

        records = task_records(caplog, "ok %s %d")
        assert [(rec.levelno, rec.msg) for rec in records] == [
            (logging.DEBUG, "Background task (%s) starting"),
            (logging.DEBUG, "Background task (%s) finished successfully"),
        ]
        assert records[1].getMessage() == (
            "Background task (ok %s %d) finished successfully"
        )
        assert all(rec.exc_info is None for rec in records)
        assert all(rec.funcName == "run_background_task" for rec in records)

    async def test_crash_unhandled(self, caplog: LogCaptureFixture) -> None:
        caplog.set_level(logging.DEBUG, "asphalt.core")

        async def taskfunc() -> NoReturn:
            raise ValueError("bad")

        with pytest.raises(BaseExceptionGroup) as excinfo:
            async with Context():
                factory = await start_background_task_factory()
                factory.start_task_soon(taskfunc, "crasher")

        (error,) = leaves(excinfo.value)
        records = task_records(caplog, "crasher")
        assert [(rec.levelno, rec.msg) for rec in records] == [
            (logging.DEBUG, "Background task (%s) starting"),
            (logging.ERROR, "Background task (%s) crashed"),
        ]
        assert records[1].exc_info is not None
        assert records[1].exc_info[1] is error
        assert records[1].funcName == "run_background_task"

    @pytest.mark.parametrize("handled", [True, False])
    async def test_crash_with_handler(
        self, handled: bool, caplog: LogCaptureFixture
    ) -> None:
        caplog.set_level(logging.DEBUG, "asphalt.core")
        order: list[str] = []

        class Handler(logging.Handler):
            def emit(self, record: logging.LogRecord) -> None:
                if record.args == ("crasher",):
                    order.append(f"log: {record.getMessage()}")

        def exception_handler(exc: Exception) -> bool:
            order.append(f"handler: {exc}")
            return handled

        async def taskfunc(task_status: TaskStatus[None]) -> NoReturn:
            task_status.started()
            await sleep(0)
            raise ValueError("bad")

        log_handler = Handler(logging.DEBUG)
        logger = logging.getLogger("asphalt.core")
        logger.addHandler(log_handler)
        try:
            async with Context():
                factory = await start_background_task_factory(
                    exception_handler=exception_handler
                )
                handle = await factory.start_task(taskfunc, "crasher")
                with fail_after(3):
                    await handle.wait_finished()

                order.append("finished")
        except BaseExceptionGroup as excgrp:
            assert not handled
            assert [str(exc) for exc in leaves(excgrp)] == ["bad"]
        else:
            assert handled
        finally:
            logger.removeHandler(log_handler)

        # Logged first, then handled; and never reported as a success
        assert order == [
            "log: Background task (crasher) starting",
            "log: Background task (crasher) crashed",
            "handler: bad",
            "finished",
        ]

    async def test_exception_group_is_a_crash(self, caplog: LogCaptureFixture) -> None:
        caplog.set_level(logging.DEBUG, "asphalt.core")
        handled: list[Exception] = []

        async def fail(msg: str) -> NoReturn:
            raise ValueError(msg)

        async def taskfunc() -> None:
            async with create_task_group() as tg:
                tg.start_soon(fail, "one")
                tg.start_soon(fail, "two")

        async with Context():
            factory = await start_background_task_factory(
                exception_handler=lambda exc: handled.append(exc) or True
            )
            handle = await factory.start_task(taskfunc, "group")
            with fail_after(3):
                await handle.wait_finished()

        assert len(handled) == 1
        assert isinstance(handled[0], ExceptionGroup)
        assert sorted(str(exc) for exc in leaves(handled[0])) == ["one", "two"]
        assert [rec.msg for rec in task_records(caplog, "group")] == [
            "Background task (%s) starting",
            "Background task (%s) crashed",
        ]

    async def test_handle_cancel(self, caplog: LogCaptureFixture) -> None:
        """Cancellation via the handle is absorbed by the handle's cancel scope."""
        caplog.set_level(logging.DEBUG, "asphalt.core")
        handled: list[Exception] = []

        async with Context():
            factory = await start_background_task_factory(
                exception_handler=lambda exc: handled.append(exc) or True
            )
            handle = await factory.start_task(lambda: sleep(10), "sleeper")
            handle.cancel()
            with fail_after(3):
                await handle.wait_finished()

        assert handled == []
        assert [rec.msg for rec in task_records(caplog, "sleeper")] == [
            "Background task (%s) starting",
            "Background task (%s) finished successfully",
        ]

    async def test_outer_cancel(self, caplog: LogCaptureFixture) -> None:
        """Cancellation from the outside is neither a crash nor a success."""
        caplog.set_level(logging.DEBUG, "asphalt.core")
        handled: list[Exception] = []
        handles: list[TaskHandle] = []

        async def main(*, task_status: TaskStatus[None]) -> None:
            async with Context():
                factory = await start_background_task_factory(
                    exception_handler=lambda exc: handled.append(exc) or True
                )
                handles.append(await factory.start_task(lambda: sleep(10), "outer"))
                task_status.started()
                await sleep(10)

        async with create_task_group() as tg:
            await tg.start(main)
            tg.cancel_scope.cancel()

        with fail_after(1):
            await handles[0].wait_finished()

        assert handled == []
        assert [rec.msg for rec in task_records(caplog, "outer")] == [
            "Background task (%s) starting",
        ]

    async def test_name_read_at_logging_time(self, caplog: LogCaptureFixture) -> None:
        caplog.set_level(logging.DEBUG, "asphalt.core")

        async def taskfunc() -> None:
            (handle,) = factory.all_task_handles()
            handle.name = "renamed"

        async with Context():
            factory = await start_background_task_factory()
            handle = await factory.start_task(taskfunc, "original")
            await handle.wait_finished()

        assert handle.name == "renamed"
        assert [rec.msg for rec in task_records(caplog, "original")] == [
            "Background task (%s) starting",
        ]
        assert [rec.msg for rec in task_records(caplog, "renamed")] == [
            "Background task (%s) finished successfully",
        ]


class TestFactoryDetails:
    @pytest.mark.parametrize("soon", [False, True], ids=["start", "soon"])
    @pytest.mark.parametrize("name", [None, "", "given"])
    async def test_name_fallback(self, soon: bool, name: str | None) -> None:
        async def taskfunc() -> None:
            assert get_current_task().name == expected

        qualname = "TestFactoryDetails.test_name_fallback.<locals>.taskfunc"
        expected = name if name else f"{__name__}.{qualname}"
        async with Context():
            factory = await start_background_task_factory()
            if soon:
                handle = factory.start_task_soon(taskfunc, name)
            else:
                handle = await factory.start_task(taskfunc, name)

            assert handle.name == expected
            assert repr(handle) == f"TaskHandle(name={expected!r})"
            await handle.wait_finished()

    async def test_usable_immediately(self) -> None:
        """The factory's task group is in place as soon as the factory is returned."""
        ran: list[str] = []

        async def taskfunc() -> None:
            ran.append(get_current_task().name)

        async with Context():
            factory = await start_background_task_factory()
            factory.start_task_soon(taskfunc, "first")
            factory.start_task_soon(taskfunc, "second")
            assert len(factory.all_task_handles()) == 2

        assert sorted(ran) == ["first", "second"]

    async def test_failed_start_leaves_no_start_value(self) -> None:
        handles: list[TaskHandle] = []

        async def taskfunc(task_status: TaskStatus[None]) -> NoReturn:
            handles.extend(factory.all_task_handles())
            raise ValueError("before started")

        async with Context():
            factory = await start_background_task_factory()
            with pytest.raises(ValueError, match="^before started$"):
                await factory.start_task(taskfunc)

            assert factory.all_task_handles() == set()

        assert len(handles) == 1
        assert not hasattr(handles[0], "start_value")
        with fail_after(1):
            await handles[0].wait_finished()
