"""
Behaviour check for refactoring 1 (extraction of the resource name validation and of
the "store a factory-generated resource" step into shared helpers).

Exercises property C03 through the public API only.
"""

from __future__ import annotations

from typing import Any, Union

import pytest

from asphalt.core import (
    AsyncResourceError,
    Context,
    ResourceConflict,
    ResourceEvent,
    ResourceNotFound,
)

pytestmark = pytest.mark.anyio()

NAME_ERROR = (
    '"name" must be a nonempty string consisting only of alphanumeric '
    "characters and underscores"
)
BAD_NAMES = ["", " ", "a b", "foo-bar", "foo.bar", "a\n", "\n", "x/y", "default "]
GOOD_NAMES = ["default", "_", "a1", "ABC_def", "0", "ünïcode", "a" * 200]


class _Sentinel:
    pass


class EventLog:
    """Collects ResourceEvents of a context without blocking."""

    def __init__(self, ctx: Context, stream: Any) -> None:
        self.ctx = ctx
        self.stream = stream
        self.counter = 0

    async def drain(self) -> list[tuple[tuple[type, ...], str, str | None, bool]]:
        self.counter += 1
        marker = f"sentinel_{self.counter}"
        self.ctx.add_resource(_Sentinel(), marker)
        events = []
        async for event in self.stream:
            assert isinstance(event, ResourceEvent)
            assert event.source is self.ctx
            if event.resource_name == marker:
                break

            events.append(
                (
                    event.resource_types,
                    event.resource_name,
                    event.resource_description,
                    event.is_factory,
                )
            )

        return events


def snapshot(ctx: Context, types: list[type]) -> dict[type, dict[str, Any]]:
    result = {}
    for type_ in types:
        mapping = dict(ctx.get_resources(type_))
        result[type_] = {
            name: value
            for name, value in mapping.items()
            if not name.startswith("sentinel_")
        }

    return result


@pytest.mark.parametrize("name", BAD_NAMES)
async def test_invalid_name_changes_nothing(name: str) -> None:
    teardown_calls: list[str] = []
    async with Context() as ctx:
        ctx.add_resource(1, "existing")
        async with ctx.resource_added.stream_events() as stream:
            log = EventLog(ctx, stream)
            before = snapshot(ctx, [int, str, float])

            with pytest.raises(ValueError) as exc:
                ctx.add_resource(
                    5,
                    name,
                    types=[int, float],
                    teardown_callback=lambda: teardown_calls.append("resource"),
                )
            assert str(exc.value) == NAME_ERROR

            with pytest.raises(ValueError) as exc:
                ctx.add_resource_factory(lambda: "x", name, types=[str, float])
            assert str(exc.value) == NAME_ERROR

            assert snapshot(ctx, [int, str, float]) == before
            assert await log.drain() == []
            for type_ in (int, str, float):
                assert ctx.get_resource_nowait(type_, name, optional=True) is None
                assert await ctx.get_resource(type_, name, optional=True) is None

            # The name is still free for factories (nothing was registered): a valid
            # registration under another name works and generates nothing under ``name``
            assert await log.drain() == []

    assert teardown_calls == []


@pytest.mark.parametrize("name", BAD_NAMES)
async def test_invalid_name_precedence(name: str) -> None:
    """The relative order of the validation steps is part of the behaviour."""
    async with Context() as ctx:
        # invalid types are reported before a None value and before an invalid name
        with pytest.raises(TypeError, match="types must be a type or sequence"):
            ctx.add_resource(None, name, types=[int, 3])  # type: ignore[list-item]

        # None value is reported before the invalid name
        with pytest.raises(ValueError, match='"value" must not be None'):
            ctx.add_resource(None, name)

        # for factories the name is checked before the types / return annotation
        with pytest.raises(ValueError) as exc:
            ctx.add_resource_factory(lambda: 1, name)
        assert str(exc.value) == NAME_ERROR

        with pytest.raises(ValueError) as exc:
            ctx.add_resource_factory(lambda: 1, name, types=[int, None])  # type: ignore[list-item]
        assert str(exc.value) == NAME_ERROR

    # The state check comes before the name check
    ctx2 = Context()
    with pytest.raises(RuntimeError, match="has not been entered yet"):
        ctx2.add_resource(1, name)
    with pytest.raises(RuntimeError, match="has not been entered yet"):
        ctx2.add_resource_factory(lambda: 1, name, types=[int])


@pytest.mark.parametrize("name", GOOD_NAMES)
async def test_valid_names(name: str) -> None:
    async with Context() as ctx:
        ctx.add_resource(1, name)
        ctx.add_resource_factory(lambda: "generated", name, types=[str])
        assert ctx.get_resource_nowait(int, name) == 1
        assert ctx.get_resource_nowait(str, name) == "generated"
        with pytest.raises(ResourceConflict):
            ctx.add_resource(2, name)
        with pytest.raises(ResourceConflict):
            ctx.add_resource_factory(lambda: "other", name, types=[str])


@pytest.mark.parametrize("use_async_lookup", [False, True])
async def test_generated_resource_is_stable(use_async_lookup: bool) -> None:
    calls: list[int] = []

    def factory() -> Union[list, dict]:  # type: ignore[type-arg]
        calls.append(len(calls))
        return [len(calls)]

    async def lookup(ctx: Context, type_: type, name: str = "default") -> Any:
        if use_async_lookup:
            return await ctx.get_resource(type_, name)

        return ctx.get_resource_nowait(type_, name)

    async with Context() as ctx:
        async with ctx.resource_added.stream_events() as stream:
            log = EventLog(ctx, stream)
            ctx.add_resource_factory(factory, "gen", description="a factory")
            assert await log.drain() == [((list, dict), "gen", "a factory", True)]
            assert snapshot(ctx, [list, dict]) == {list: {}, dict: {}}

            first = await lookup(ctx, list, "gen")
            assert first == [1]
            assert calls == [0]
            assert await log.drain() == [((list, dict), "gen", "a factory", False)]

            # Every later lookup under either type returns the same object, without
            # calling the factory again and without dispatching further events
            for _ in range(3):
                assert await lookup(ctx, list, "gen") is first
                assert await lookup(ctx, dict, "gen") is first
                assert ctx.get_resource_nowait(dict, "gen") is first
                assert await ctx.get_resource(list, "gen") is first

            assert calls == [0]
            assert await log.drain() == []
            assert snapshot(ctx, [list, dict]) == {
                list: {"gen": first},
                dict: {"gen": first},
            }

            # The pair is now taken: a static add under it conflicts and changes nothing
            with pytest.raises(ResourceConflict):
                ctx.add_resource([], "gen")
            with pytest.raises(ResourceConflict):
                ctx.add_resource({}, "gen", types=[set, dict])
            assert ctx.get_resources(set) == {}
            assert await log.drain() == []

            # Each child context gets its own generated resource, also stable
            async with Context() as child:
                assert child.get_resources(list) == {}
                child_value = await lookup(child, dict, "gen")
                assert child_value == [2]
                assert child_value is not first
                assert await lookup(child, list, "gen") is child_value
                assert await lookup(ctx, list, "gen") is first

            assert calls == [0, 1]
            assert await log.drain() == []


@pytest.mark.parametrize("use_async_lookup", [False, True])
async def test_generated_resource_does_not_replace_static(
    use_async_lookup: bool,
) -> None:
    """Static resource and a multi-type factory meeting on one of the pairs."""
    generated = []

    def factory() -> object:
        generated.append(object())
        return generated[-1]

    async def lookup(ctx: Context, type_: type) -> Any:
        if use_async_lookup:
            return await ctx.get_resource(type_)

        return ctx.get_resource_nowait(type_)

    async with Context() as ctx:
        async with ctx.resource_added.stream_events() as stream:
            log = EventLog(ctx, stream)
            ctx.add_resource("static")
            ctx.add_resource_factory(factory, types=[str, bytes, int], description="d")
            assert await log.drain() == [
                ((str,), "default", None, False),
                ((str, bytes, int), "default", "d", True),
            ]

            # The static resource wins for (str, default), no factory call
            assert await lookup(ctx, str) == "static"
            assert generated == []
            assert await log.drain() == []

            value = await lookup(ctx, bytes)
            assert value is generated[0]
            assert await log.drain() == [((str, bytes, int), "default", "d", False)]
            assert await lookup(ctx, int) is value
            assert await lookup(ctx, bytes) is value
            assert await lookup(ctx, str) == "static"
            assert len(generated) == 1
            assert await log.drain() == []
            assert ctx.get_resources(int) == {"default": value}
            assert ctx.get_resources(bytes) == {"default": value}


async def test_async_factory() -> None:
    async def factory() -> bytearray:
        return bytearray(b"x")

    async with Context() as ctx:
        async with ctx.resource_added.stream_events() as stream:
            log = EventLog(ctx, stream)
            ctx.add_resource_factory(factory)
            await log.drain()

            with pytest.raises(AsyncResourceError):
                ctx.get_resource_nowait(bytearray)

            # The failed lookup left nothing behind
            assert ctx.get_resources(bytearray) == {}
            assert await log.drain() == []

            value = await ctx.get_resource(bytearray)
            assert value == bytearray(b"x")
            assert ctx.get_resource_nowait(bytearray) is value
            assert await ctx.get_resource(bytearray) is value
            assert await log.drain() == [((bytearray,), "default", None, False)]


async def test_failing_factory_leaves_nothing() -> None:
    attempts = []

    def factory() -> frozenset:  # type: ignore[type-arg]
        attempts.append(1)
        if len(attempts) == 1:
            raise LookupError("boom")

        return frozenset(attempts)

    async with Context() as ctx:
        async with ctx.resource_added.stream_events() as stream:
            log = EventLog(ctx, stream)
            ctx.add_resource_factory(factory, "f")
            await log.drain()
            with pytest.raises(LookupError, match="boom"):
                await ctx.get_resource(frozenset, "f")

            assert ctx.get_resources(frozenset) == {}
            assert await log.drain() == []
            with pytest.raises(ResourceNotFound):
                ctx.get_resource_nowait(frozenset, "default")

            value = ctx.get_resource_nowait(frozenset, "f")
            assert value == frozenset([1])
            assert await ctx.get_resource(frozenset, "f") is value
            assert len(attempts) == 2
