#!/usr/bin/env python3
"""Systematic first-order mutation sweep over src/asphalt/core, used to look for gaps of the
static checks (development tool; not part of any registered check).

  gen     enumerate AST-level mutants of the package             -> <work>/mutants.jsonl
  suite   run the unedited test suite on each (16 workers, scratch copies under <work>)
                                                                  -> <work>/suite.jsonl
  static  run all 19 checks in memory on every mutant the suite does NOT kill
                                                                  -> <work>/static.jsonl
  report  summary + the list of suite-surviving mutants no check reports
                                                                  -> /verif/sweep/

usage: tools/mutation_sweep.py gen|suite|static|report [--work DIR] [--files a.py,b.py]
The work directory (default /tmp/mutsweep) holds scratch copies of the repository and is not
needed by anything afterwards.
"""
from __future__ import annotations

import ast
import copy
import json
import os
import shutil
import subprocess
import sys
from concurrent.futures import ProcessPoolExecutor

VERIF = os.path.dirname(os.path.dirname(os.path.abspath(__file__)))
sys.path.insert(0, VERIF)
REPO = "/repo"
PKG = "src/asphalt/core"
WORK = "/tmp/mutsweep"
PREFIX = "n" if ("--ops2" in sys.argv or os.environ.get("SWEEP_OPS2")) else "m"
if "--work" in sys.argv:
    WORK = sys.argv[sys.argv.index("--work") + 1]
DESELECT = " ".join(f"--deselect tests/test_cli.py::{t}" for t in ("test_run_bad_override", "test_run_bad_path", "test_run_missing_root_component_config", "test_run_missing_root_component_type"))


# ----------------------------------------------------------------------------- mutant generation
class Site:
    def __init__(self, path, op, desc):
        self.path, self.op, self.desc = path, op, desc


def _is_docstring(st):
    return isinstance(st, ast.Expr) and isinstance(st.value, ast.Constant) and isinstance(st.value.value, str)


def _type_checking_block(st):
    return isinstance(st, ast.If) and "TYPE_CHECKING" in ast.unparse(st.test)


def enumerate_mutants(rel: str, src: str) -> list:
    """[(op, lineno, description, mutated source)]"""
    tree = ast.parse(src)
    out = []
    nodes = list(ast.walk(tree))
    parents = {}
    for n in nodes:
        for c in ast.iter_child_nodes(n):
            parents[id(c)] = n

    def in_function(n):
        if isinstance(n, (ast.FunctionDef, ast.AsyncFunctionDef)):
            return True
        cur = n
        while id(cur) in parents:
            cur = parents[id(cur)]
            if isinstance(cur, (ast.FunctionDef, ast.AsyncFunctionDef)):
                return True
        return False

    def in_overload_or_typing(n):
        cur = n
        if isinstance(cur, (ast.FunctionDef, ast.AsyncFunctionDef)) and any("overload" in ast.unparse(d) for d in cur.decorator_list):
            return True
        while id(cur) in parents:
            cur = parents[id(cur)]
            if isinstance(cur, (ast.FunctionDef, ast.AsyncFunctionDef)) and any("overload" in ast.unparse(d) for d in cur.decorator_list):
                return True
            if _type_checking_block(cur):
                return True
        return False

    def emit(op, node, desc, apply, undo):
        apply()
        try:
            txt = ast.unparse(tree)
            compile(txt, rel, "exec")
            out.append((op, getattr(node, "lineno", 0), desc, txt + "\n"))
        except Exception:
            pass
        finally:
            undo()

    for n in nodes:
        if not in_function(n) or in_overload_or_typing(n):
            continue
        # statement deletion
        for fld in ("body", "orelse", "finalbody"):
            block = getattr(n, fld, None)
            if isinstance(block, list) and block and isinstance(block[0], ast.stmt):
                for i, st in enumerate(list(block)):
                    if _is_docstring(st) or isinstance(st, (ast.FunctionDef, ast.AsyncFunctionDef, ast.ClassDef, ast.Import, ast.ImportFrom, ast.Pass, ast.Global, ast.Nonlocal)):
                        continue
                    if isinstance(st, (ast.Expr, ast.Assign, ast.AugAssign, ast.AnnAssign, ast.Raise, ast.Break, ast.Continue, ast.Delete, ast.Assert)):
                        if isinstance(st, ast.AnnAssign) and st.value is None:
                            continue
                        repl = ast.copy_location(ast.Pass(), st)

                        def ap(block=block, i=i, repl=repl):
                            block[i] = repl

                        def un(block=block, i=i, st=st):
                            block[i] = st

                        emit("del-stmt", st, f"delete `{ast.unparse(st)[:70]}`", ap, un)
                    if isinstance(st, ast.Return) and st.value is not None and not (isinstance(st.value, ast.Constant) and st.value.value is None):
                        old = st.value

                        def ap(st=st):
                            st.value = ast.Constant(value=None)

                        def un(st=st, old=old):
                            st.value = old

                        emit("return-none", st, f"`{ast.unparse(st)[:60]}` -> return None", ap, un)
                    if isinstance(st, (ast.If, ast.While)) and not _type_checking_block(st):
                        old = st.test

                        def ap(st=st, old=old):
                            st.test = ast.UnaryOp(op=ast.Not(), operand=old)

                        def un(st=st, old=old):
                            st.test = old

                        emit("negate-test", st, f"negate `{ast.unparse(old)[:60]}`", ap, un)
                        if isinstance(st, ast.If):
                            for const in (True, False):
                                def ap(st=st, const=const):
                                    st.test = ast.Constant(value=const)

                                emit("const-test", st, f"`if {ast.unparse(old)[:50]}` -> if {const}", ap, un)
                    if isinstance(st, (ast.With, ast.AsyncWith)) and len(st.items) >= 1:
                        # drop one context manager (keep the body)
                        for k in range(len(st.items)):
                            if len(st.items) == 1:
                                def ap(block=block, i=i, st=st):
                                    block[i : i + 1] = st.body

                                def un(block=block, i=i, st=st):
                                    block[i : i + len(st.body)] = [st]

                                if st.items[0].optional_vars is None:
                                    emit("drop-with", st, f"drop `with {ast.unparse(st.items[0])[:50]}`", ap, un)
                            else:
                                it = st.items[k]
                                if it.optional_vars is not None:
                                    continue

                                def ap(st=st, k=k):
                                    st.items.pop(k)

                                def un(st=st, k=k, it=it):
                                    st.items.insert(k, it)

                                emit("drop-with", st, f"drop `{ast.unparse(it)[:50]}` from with", ap, un)
                    if isinstance(st, ast.Try):
                        for k, h in enumerate(list(st.handlers)):
                            if len(st.handlers) > 1 or st.finalbody:
                                def ap(st=st, k=k):
                                    st.handlers.pop(k)

                                def un(st=st, k=k, h=h):
                                    st.handlers.insert(k, h)

                                emit("drop-handler", h, f"drop handler `except {ast.unparse(h.type) if h.type else ''}`", ap, un)
                            if h.type is not None and "BaseException" in ast.unparse(h.type):
                                oldt = h.type

                                def ap(h=h):
                                    h.type = ast.Name(id="Exception", ctx=ast.Load())

                                def un(h=h, oldt=oldt):
                                    h.type = oldt

                                emit("narrow-handler", h, "except BaseException -> except Exception", ap, un)
                        if st.finalbody:
                            fb = st.finalbody

                            def ap(st=st):
                                st.finalbody = []
                                if not st.handlers:
                                    st.handlers = [ast.ExceptHandler(type=ast.Name(id="_NeverRaised_", ctx=ast.Load()), name=None, body=[ast.Pass()])]

                            def un(st=st, fb=fb, hs=list(st.handlers)):
                                st.finalbody = fb
                                st.handlers = hs

                            emit("drop-finally", st, f"drop finally `{ast.unparse(fb[0])[:50]}`", ap, un)
        # expression-level
        if isinstance(n, ast.Compare) and len(n.ops) == 1:
            swaps = {ast.Is: ast.IsNot, ast.IsNot: ast.Is, ast.Eq: ast.NotEq, ast.NotEq: ast.Eq, ast.In: ast.NotIn, ast.NotIn: ast.In, ast.Lt: ast.LtE, ast.LtE: ast.Lt, ast.Gt: ast.GtE, ast.GtE: ast.Gt}
            old = n.ops[0]
            new = swaps.get(type(old))
            if new is not None:
                def ap(n=n, new=new):
                    n.ops = [new()]

                def un(n=n, old=old):
                    n.ops = [old]

                emit("cmp-swap", n, f"`{ast.unparse(n)[:60]}` operator -> {new.__name__}", ap, un)
        if isinstance(n, ast.BoolOp):
            old = n.op
            new = ast.Or() if isinstance(old, ast.And) else ast.And()

            def ap(n=n, new=new):
                n.op = new

            def un(n=n, old=old):
                n.op = old

            emit("boolop-swap", n, f"`{ast.unparse(n)[:60]}` and<->or", ap, un)
            if len(n.values) >= 2:
                for k in range(len(n.values)):
                    v = n.values[k]
                    if len(n.values) == 2:
                        continue  # replaced below by operand drop through parent is complex; skip

        if isinstance(n, ast.UnaryOp) and isinstance(n.op, ast.Not):
            par = parents.get(id(n))
            for fld, val in ast.iter_fields(par) if par is not None else []:
                if val is n:
                    def ap(par=par, fld=fld, n=n):
                        setattr(par, fld, n.operand)

                    def un(par=par, fld=fld, n=n):
                        setattr(par, fld, n)

                    emit("drop-not", n, f"drop not in `{ast.unparse(n)[:60]}`", ap, un)
        if isinstance(n, ast.Constant) and isinstance(n.value, bool):
            old = n.value

            def ap(n=n, old=old):
                n.value = not old

            def un(n=n, old=old):
                n.value = old

            emit("bool-flip", n, f"{old} -> {not old}", ap, un)
        if isinstance(n, ast.Constant) and type(n.value) is int and not isinstance(parents.get(id(n)), ast.Subscript):
            old = n.value

            def ap(n=n, old=old):
                n.value = old + 1

            def un(n=n, old=old):
                n.value = old

            emit("int-inc", n, f"{old} -> {old + 1}", ap, un)
        if isinstance(n, ast.Call):
            for k, kw in enumerate(list(n.keywords)):
                if kw.arg is None:
                    continue

                def ap(n=n, k=k):
                    n.keywords.pop(k)

                def un(n=n, k=k, kw=kw):
                    n.keywords.insert(k, kw)

                emit("drop-kwarg", n, f"drop {kw.arg}= from `{ast.unparse(n)[:60]}`", ap, un)
            if len(n.args) >= 2 and not any(isinstance(x, ast.Starred) for x in n.args[:2]) and ast.unparse(n.args[0]) != ast.unparse(n.args[1]):
                def ap(n=n):
                    n.args[0], n.args[1] = n.args[1], n.args[0]

                emit("swap-args", n, f"swap first two args of `{ast.unparse(n)[:60]}`", ap, ap)
            if isinstance(n.func, ast.Attribute) and n.func.attr == "pop" and not n.args:
                def ap(n=n):
                    n.args = [ast.Constant(value=0)]

                def un(n=n):
                    n.args = []

                emit("pop-front", n, f"`{ast.unparse(n)[:60]}` -> pop(0)", ap, un)
            if isinstance(n.func, ast.Attribute) and n.func.attr == "append" and len(n.args) == 1:
                def ap(n=n):
                    n.func.attr = "insert"
                    n.args = [ast.Constant(value=0), n.args[0]]

                def un(n=n):
                    n.func.attr = "append"
                    n.args = [n.args[1]]

                emit("append-front", n, f"`{ast.unparse(n)[:60]}` -> insert(0, ..)", ap, un)
            if isinstance(n.func, ast.Attribute) and n.func.attr in ("setdefault",) and len(n.args) == 2:
                pass
            if isinstance(n.func, ast.Attribute) and n.func.attr == "copy" and not n.args:
                par = parents.get(id(n))
                for fld, val in ast.iter_fields(par) if par is not None else []:
                    if val is n:
                        def ap(par=par, fld=fld, n=n):
                            setattr(par, fld, n.func.value)

                        def un(par=par, fld=fld, n=n):
                            setattr(par, fld, n)

                        emit("drop-copy", n, f"`{ast.unparse(n)[:60]}` without .copy()", ap, un)
        if isinstance(n, ast.Await):
            par = parents.get(id(n))
            if isinstance(par, ast.Expr):
                continue  # statement deletion covers it
        if isinstance(n, ast.IfExp):
            par = parents.get(id(n))
            for fld, val in ast.iter_fields(par) if par is not None else []:
                if val is n:
                    for which in ("body", "orelse"):
                        def ap(par=par, fld=fld, n=n, which=which):
                            setattr(par, fld, getattr(n, which))

                        def un(par=par, fld=fld, n=n):
                            setattr(par, fld, n)

                        emit("ifexp-side", n, f"`{ast.unparse(n)[:60]}` -> always {which}", ap, un)
    # ---- second operator set: ordering and await mutations
    if "--ops2" in sys.argv or os.environ.get("SWEEP_OPS2"):
        out2 = []

        def emit2(op, node, desc, apply, undo):
            apply()
            try:
                txt = ast.unparse(tree)
                compile(txt, rel, "exec")
                out2.append((op, getattr(node, "lineno", 0), desc, txt + "\n"))
            except Exception:
                pass
            finally:
                undo()

        simple = (ast.Expr, ast.Assign, ast.AugAssign, ast.AnnAssign, ast.Raise, ast.Return, ast.If, ast.For, ast.While, ast.With, ast.AsyncWith, ast.Try)
        for n in nodes:
            if not in_function(n) or in_overload_or_typing(n):
                continue
            for fld in ("body", "orelse", "finalbody"):
                block = getattr(n, fld, None)
                if isinstance(block, list) and len(block) >= 2 and isinstance(block[0], ast.stmt):
                    for i in range(len(block) - 1):
                        a_, b_ = block[i], block[i + 1]
                        if _is_docstring(a_) or not isinstance(a_, simple) or not isinstance(b_, simple) or isinstance(a_, (ast.Return, ast.Raise)):
                            continue
                        if isinstance(a_, (ast.Import, ast.ImportFrom)) or isinstance(b_, (ast.Import, ast.ImportFrom)):
                            continue

                        def ap(block=block, i=i):
                            block[i], block[i + 1] = block[i + 1], block[i]

                        emit2("swap-stmts", a_, f"swap `{ast.unparse(a_)[:45]}` <-> `{ast.unparse(b_)[:45]}`", ap, ap)
            if isinstance(n, ast.Await):
                par = parents.get(id(n))
                for fld, val in ast.iter_fields(par) if par is not None else []:
                    if val is n:
                        def ap(par=par, fld=fld, n=n):
                            setattr(par, fld, n.value)

                        def un(par=par, fld=fld, n=n):
                            setattr(par, fld, n)

                        emit2("drop-await", n, f"`{ast.unparse(n)[:60]}` without await", ap, un)
            if isinstance(n, (ast.With, ast.AsyncWith)) and len(n.items) == 2:
                def ap(n=n):
                    n.items.reverse()

                emit2("swap-with-items", n, f"reverse `with {', '.join(ast.unparse(i)[:30] for i in n.items)}`", ap, ap)
            if isinstance(n, ast.Call) and isinstance(n.func, ast.Attribute) and n.func.attr == "setdefault" and len(n.args) == 2:
                par = parents.get(id(n))
                if isinstance(par, ast.Expr):
                    gp = parents.get(id(par))
                    for fld in ("body", "orelse", "finalbody"):
                        blk = getattr(gp, fld, None)
                        if isinstance(blk, list) and par in blk:
                            k = blk.index(par)
                            repl = ast.copy_location(ast.Assign(targets=[ast.Subscript(value=n.func.value, slice=n.args[0], ctx=ast.Store())], value=n.args[1], lineno=par.lineno), par)
                            ast.fix_missing_locations(repl)

                            def ap(blk=blk, k=k, repl=repl):
                                blk[k] = repl

                            def un(blk=blk, k=k, par=par):
                                blk[k] = par

                            emit2("setdefault-to-store", n, f"`{ast.unparse(n)[:60]}` -> plain store", ap, un)
            if isinstance(n, ast.Try) and n.body and len(n.body) >= 2 and n.handlers:
                # move the last statement of the try body behind the try (narrow the protection)
                last = n.body[-1]
                par = parents.get(id(n))
                for fld in ("body", "orelse", "finalbody"):
                    blk = getattr(par, fld, None)
                    if isinstance(blk, list) and n in blk and not n.orelse:
                        k = blk.index(n)

                        def ap(n=n, blk=blk, k=k, last=last):
                            n.body.pop()
                            n.orelse = [last]

                        def un(n=n, last=last):
                            n.orelse = []
                            n.body.append(last)

                        emit2("narrow-try", n, f"move `{ast.unparse(last)[:50]}` from the try body to else", ap, un)
            if isinstance(n, ast.Attribute) and isinstance(n.value, ast.Name) and n.value.id == "self" and n.attr in ("_resources", "_resource_factories") and isinstance(n.ctx, ast.Load):
                other = "_resource_factories" if n.attr == "_resources" else "_resources"
                oldattr = n.attr

                def ap(n=n, other=other):
                    n.attr = other

                def un(n=n, oldattr=oldattr):
                    n.attr = oldattr

                emit2("sibling-attr", n, f"self.{oldattr} -> self.{other}", ap, un)
        out = out2
    # de-duplicate identical sources
    seen, uniq = set(), []
    for op, ln, desc, txt in out:
        h = hash(txt)
        if h in seen:
            continue
        seen.add(h)
        uniq.append((op, ln, desc, txt))
    return uniq


def cmd_gen():
    os.makedirs(WORK, exist_ok=True)
    files = sorted(f for f in os.listdir(os.path.join(REPO, PKG)) if f.endswith(".py") and f != "__init__.py")
    if "--files" in sys.argv:
        files = sys.argv[sys.argv.index("--files") + 1].split(",")
    n = 0
    with open(os.path.join(WORK, "mutants.jsonl"), "w") as fh:
        for f in files:
            rel = os.path.join(PKG, f)
            src = open(os.path.join(REPO, rel)).read()
            base = ast.unparse(ast.parse(src)) + "\n"
            for op, ln, desc, txt in enumerate_mutants(rel, src):
                if txt == base:
                    continue
                n += 1
                fh.write(json.dumps({"id": f"{PREFIX}{n:05d}", "file": rel, "op": op, "line": ln, "desc": desc, "src": txt}) + "\n")
    print(f"{n} mutants written to {WORK}/mutants.jsonl")


# ----------------------------------------------------------------------------- suite phase
def _worker_dir(k: int) -> str:
    d = os.path.join(WORK, f"w{k}")
    if not os.path.exists(d):
        os.makedirs(d)
        subprocess.run(f"git -C {REPO} archive HEAD | tar -x -C {d}", shell=True, check=True)
    return d


def _suite_job(args):
    k, batch = args
    d = _worker_dir(k)
    res = []
    for m in batch:
        path = os.path.join(d, m["file"])
        orig = open(path).read()
        try:
            open(path, "w").write(m["src"])
            try:
                r = subprocess.run(f"/venv/bin/python -m pytest -q -x -p no:cacheprovider --timeout=60 {DESELECT}", shell=True, cwd=d, env={**os.environ, "PYTHONPATH": os.path.join(d, "src")}, capture_output=True, text=True, timeout=240)
                tail = r.stdout.strip().splitlines()[-1] if r.stdout.strip() else r.stderr[-100:]
                survived = r.returncode == 0
            except subprocess.TimeoutExpired:
                tail, survived = "timeout", False
        finally:
            open(path, "w").write(orig)
        res.append({"id": m["id"], "survived": survived, "tail": tail[:120]})
    return res


def cmd_suite():
    muts = [json.loads(l) for l in open(os.path.join(WORK, "mutants.jsonl"))]
    done = set()
    outp = os.path.join(WORK, "suite.jsonl")
    if os.path.exists(outp):
        done = {json.loads(l)["id"] for l in open(outp)}
    muts = [m for m in muts if m["id"] not in done]
    W = 16
    chunks = [(i % W, muts[i : i + 8]) for i in range(0, len(muts), 8)]
    # a worker directory must not be used by two processes at once: group chunks per worker
    per_worker: dict = {}
    for k, b in chunks:
        per_worker.setdefault(k, []).extend(b)
    with ProcessPoolExecutor(max_workers=W) as ex, open(outp, "a") as fh:
        futs = [ex.submit(_suite_job_stream, (k, b, outp)) for k, b in per_worker.items()]
        for f in futs:
            f.result()
    rows = [json.loads(l) for l in open(outp)]
    print(f"{len(rows)} run; survived the suite: {sum(1 for r in rows if r['survived'])}")


def _suite_job_stream(args):
    k, batch, outp = args
    for i in range(0, len(batch), 4):
        res = _suite_job((k, batch[i : i + 4]))
        with open(outp, "a") as fh:
            for r in res:
                fh.write(json.dumps(r) + "\n")


# ----------------------------------------------------------------------------- static phase
def _static_job(args):
    m, prop = args
    from sa.driver import analyse_variant

    v, rep = analyse_variant(prop, {m["file"]: m["src"]})
    if isinstance(rep, str):
        return m["id"], prop, v, [rep[:160]]
    return m["id"], prop, v, sorted({i.rule for i in rep.instances if i.verdict == "VIOLATION"})


def cmd_static():
    from sa.driver import PROPS

    muts = {json.loads(l)["id"]: json.loads(l) for l in open(os.path.join(WORK, "mutants.jsonl"))}
    surv = [json.loads(l)["id"] for l in open(os.path.join(WORK, "suite.jsonl")) if json.loads(l)["survived"]]
    outp = os.path.join(WORK, "static.jsonl")
    done = set()
    if os.path.exists(outp):
        done = {json.loads(l)["id"] for l in open(outp)}
    surv = [s for s in surv if s not in done]
    jobs = [(muts[s], p) for s in surv for p in PROPS]
    acc: dict = {}
    with ProcessPoolExecutor(max_workers=16) as ex, open(outp, "a") as fh:
        for mid, prop, v, rules in ex.map(_static_job, jobs, chunksize=4):
            a = acc.setdefault(mid, {})
            a[prop] = (v, rules)
            if len(a) == len(PROPS):
                fh.write(json.dumps({"id": mid, "verdicts": {p: {"verdict": vv, "rules": rr} for p, (vv, rr) in a.items() if vv != "holds"}}) + "\n")
                fh.flush()
    print("static phase done")


def cmd_report():
    muts = {json.loads(l)["id"]: json.loads(l) for l in open(os.path.join(WORK, "mutants.jsonl"))}
    suite = {json.loads(l)["id"]: json.loads(l) for l in open(os.path.join(WORK, "suite.jsonl"))}
    static = {json.loads(l)["id"]: json.loads(l) for l in open(os.path.join(WORK, "static.jsonl"))} if os.path.exists(os.path.join(WORK, "static.jsonl")) else {}
    surv = [i for i, r in suite.items() if r["survived"]]
    det = [i for i in surv if any(v["verdict"] == "violation" for v in static.get(i, {}).get("verdicts", {}).values())]
    err = [i for i in surv if i not in det and any(v["verdict"] == "error" for v in static.get(i, {}).get("verdicts", {}).values())]
    silent = [i for i in surv if i in static and i not in det and i not in err]
    os.makedirs(os.path.join(VERIF, "sweep"), exist_ok=True)
    summary = {"mutants": len(muts), "suite_run": len(suite), "killed_by_suite": len(suite) - len(surv), "survived_suite": len(surv), "reported_by_some_check": len(det), "analysis_error_only": len(err), "silent": len(silent)}
    sfx = "_ops2" if PREFIX == "n" else ""
    json.dump(summary, open(os.path.join(VERIF, "sweep", f"summary{sfx}.json"), "w"), indent=1)
    with open(os.path.join(VERIF, "sweep", f"survivors{sfx}.jsonl"), "w") as fh:
        for i in surv:
            m = muts[i]
            fh.write(json.dumps({"id": i, "file": m["file"], "line": m["line"], "op": m["op"], "desc": m["desc"], "checks": static.get(i, {}).get("verdicts")}) + "\n")
    print(json.dumps(summary, indent=1))
    for i in silent[:400]:
        m = muts[i]
        print(f"SILENT {i} {m['file'].split('/')[-1]}:{m['line']} {m['op']}: {m['desc']}")


if __name__ == "__main__":
    {"gen": cmd_gen, "suite": cmd_suite, "static": cmd_static, "report": cmd_report}[sys.argv[1]]()
