#!/usr/bin/env python3
"""Regenerate /verif/MANIFEST.json from the table below (claimed = has a rule module)."""
import json
import os

HERE = os.path.dirname(os.path.dirname(os.path.abspath(__file__)))

# id -> (technique, level text, level note, design_ref)
CLAIMS = {
    "C01": (
        "typestate of the teardown drain loop on the CFG (pop-from-live-stack, BaseException isolation, await-in-iteration), provenance dataflow of the exception argument, exit-stack registration order, package-wide who-may-write sweep of the callback stack",
        "static conformance: nine structural rules on Context.__aenter__/__aexit__/the teardown runner/registration routes, each necessary for a clause of the statement (exactly once, LIFO, sequential, isolation, aggregation, exception argument, closed afterwards); holds on every path of those functions, hence for every number/kind of callbacks and every fault subset; behaviour of anyio/contextlib is trusted",
        "trusted: CPython semantics of while/pop/try, contextlib.AsyncExitStack LIFO unwinding, anyio task-group exception grouping; user callbacks arbitrary",
    ),
    "C02": (
        "ownership analysis of the two tables at construction, package-wide who-may-write sweep, read-set analysis of the lookups, delegation-agreement of shortcuts and ComponentContext overrides",
        "static conformance: the visible-set definition is reduced to (a) fresh per-context tables copied from the parent at construction, (b) writes only to self's tables, (c) lookups read only self's tables, (d) every public route forwards to the same methods; decided for all histories because no other code can touch the tables",
        "trusted: dict semantics; objects a user stores elsewhere are out of scope",
    ),
    "C03": (
        "failure-atomicity on the CFG (no may-raise node reachable after the first state-changing node, with computed may-raise summaries), conflict-check/insert agreement and dominance, guarded-store sweep, checkpoint-free check-then-store window",
        "static conformance: five rules over add_resource/add_resource_factory/their wrappers/both generation paths; holds on all paths, hence for all inputs (names, types, callbacks) and histories; one recorded known finding (F6, racing async generation)",
        "trusted: the external-effects table (which externals may raise), C10.R1 (dispatch does not raise because of subscribers); type objects hash/compare as the user expects",
    ),
    "C04": (
        "sibling agreement of the sync/async generation branches (normalised effect signatures), flag-filter shape of the constructor copy, dominance of the coroutine test, checkpoint-free miss-to-store window (cooperative scheduling: interleaving only at await)",
        "static conformance: six rules; the race clause is decided for every schedule because a task can only be interleaved at a checkpoint between the miss and the store; known finding F6 (async factories awaited inside that window)",
        "trusted: cooperative scheduling (single event-loop thread), user factories arbitrary",
    ),
    "C05": (
        "dominance / ordering on the CFG of start_component and the starter coroutine, spawn-loop shape (all children, no checkpoint in the loop, join before start()), recursion by the same function",
        "static conformance: the documented start sequence is a path property of two functions; holds for every tree shape by induction because the same starter is spawned for each child",
        "trusted: anyio task group join semantics; liveness (scheduler fairness) not decided",
    ),
    "C06": (
        "interprocedural checkpoint-free window from the miss to the subscription (prefix-sensitive summaries through wait/stream/subscribe helpers), insert-before-dispatch dominance, filter predicate shape, constant propagation of the wait queue bound",
        "static conformance: the classic no-lost-wake-up argument: every publication is either before the miss or after the subscription; no third interval exists iff the window has no checkpoint, which is decided on the call-graph-inlined CFG for every schedule",
        "trusted: cooperative scheduling; anyio memory streams FIFO/non-blocking send_nowait; event-loop fairness not decided",
    ),
    "C07": (
        "exhaustive wrap-site table (creating/preparing/starting) with handler-type and raise-argument checks, structured-concurrency sweep of spawns, watchdog shape, path rule from exceptional exit of the child block to start()",
        "static conformance: six rules over _init_component/_start_component/start_component/coalesce_exceptions; the three-phase table is finite and enumerated exhaustively",
        "trusted: anyio task groups cancel siblings and join; cancellation is a BaseException that bypasses `except Exception`",
    ),
    "C08": (
        "finalizer branch table + post-dominating wait, registration adjacency (no checkpoint between started task and registration), finally-bracket of the task runner, dataclass default_factory isolation",
        "static conformance: seven rules on start_service_task, its finalizer closure, run_background_task and TaskHandle; LIFO ordering is inherited from C01",
        "trusted: anyio cancel-scope delivery; teardown itself not cancelled (excluded by the statement)",
    ),
    "C09": (
        "explicit-parent dataflow of the per-task context, add-before-spawn / remove-in-finally of the handle set, sibling agreement of start_task/start_task_soon, handler-once path rule",
        "static conformance: six rules on TaskFactory and run_background_task",
        "trusted: anyio delivers cancellation only to the scope's task; task-group join",
    ),
    "C10": (
        "dispatch-loop shape with handler coverage (iterates a copy, one send_nowait per subscriber, handlers never leave the loop), exit-stack ordering of unsubscribe vs close, filter-on-every-yield, queue-size dataflow",
        "static conformance: seven rules on Signal.dispatch/_subscribe/stream_events/wait_event",
        "trusted: anyio memory stream FIFO and exactly-once; user filters that raise are out of scope",
    ),
    "C11": (
        "def-use closure of the bound-signal cache key (must depend on instance AND declaration), fetch/store key agreement, escape analysis of the owner instance (only weak positions), bound-ness/event-class check dominance",
        "static conformance: seven rules on the Signal descriptor; the channel-independence clause is decided for all classes/instances/access orders because the cache key is the only thing that identifies a channel",
        "trusted: weakref / WeakKeyDictionary semantics; GC timing not modelled",
    ),
    "C12": (
        "ContextVar who-may-write sweep, set/reset token pairing on the exit stack, registration order (reset before teardown push and task group), explicit-parent dataflow for task contexts",
        "static conformance: six rules; non-interference between tasks is reduced to contextvars' per-task isolation (trusted) because the ContextVar is the only state",
        "trusted: contextvars task-locality and inheritance at spawn; AsyncExitStack LIFO",
    ),
    "C13": (
        "exhaustive 6x4 state x operation guard matrix read off the code (guard call dominates every effect; allowed-set equals the oracle row), guard function enumerated over all four states, state-transition sweep",
        "static conformance, exhaustive over the finite matrix (24 cells) and all assignments to the state attribute",
        "trusted: Enum identity semantics",
    ),
    "C14": (
        "merge-argument def-use dataflow, Borrowed/FreshShallow/Fresh ownership analysis of the caller's configuration through start_component/_init_component/merge_config (context-sensitive), sibling agreement of the default-name remap, three-way resolver branch table",
        "static conformance: seven rules; config immutability is decided for every configuration tree because every mutation site on a value derived from the caller's object is enumerated",
        "trusted: entry points installed in the environment; equality of arbitrary user config values",
    ),
    "C15": (
        "lexical enclosure in the root context block, exhaustive exit table (every return/raise exit of the async runner matched to one row of the documented table), sys.exit wiring, signal-handler wiring",
        "static conformance, exhaustive over the runner's exits",
        "trusted: OS/anyio signal delivery; C01 and C08 for what teardown does",
    ),
    "C16": (
        "phase-order def-use chain of the configuration variable in the click command, merge directions, exhaustive selection ladder, regex AST of the --set key splitter (re._parser), YAML tag table",
        "static conformance: seven rules on the `run` command; the ladder is finite and compared row by row",
        "trusted: PyYAML and click parsing; file-system errors",
    ),
    "C17": (
        "ownership analysis of merge_config with both parameters Borrowed (fixpoint over the recursive call), all-paths key assignment, recursion guard shape, key-use sweep",
        "static conformance, exhaustive over the single function's paths",
        "trusted: dict(x)/.items() of exotic Mapping types",
    ),
    "C18": (
        "exactly-one-dispatch path rule after the last insertion, no dispatch on raising / hit paths, receiver and payload dataflow against the ResourceEvent field order",
        "static conformance: five rules on the four publication sites and the ComponentContext wrappers",
        "trusted: delivery to listeners is C10",
    ),
    "C19": (
        "sibling agreement of the sync/async resolvers (normalised bodies), decoration-time vs call-time placement of current_context(), validation-before-return dominance in inject",
        "static conformance: five rules on inject/resource",
        "trusted: typing.get_type_hints on exotic annotations",
    ),
}


def main() -> None:
    claimed = sorted(p for p in CLAIMS if os.path.exists(os.path.join(HERE, "sa", "rules", p.lower() + ".py")))
    checks = []
    for pid in claimed:
        tech, text, note = CLAIMS[pid]
        checks.append(
            {
                "property_id": pid,
                "quick_cmd": f"./check {pid}",
                "thorough_cmd": f"./check {pid} --thorough",
                "evidence_file": f"/verif/evidence/{pid}.json",
                "replay_cmd_template": f"./check {pid} --replay {{path}}",
                "engine": "sa",
                "level_claimed": {"category": "other", "text": text, "design_ref": f"DESIGN.md section 4, {pid}"},
                "level_note": note,
                "technique": "static analysis: " + tech,
            }
        )
    manifest = {
        "version": 1,
        "setup_cmd": "/venv/bin/python -B -c \"import ast, json, hashlib\" || python3 -B -c \"import ast, json, hashlib\"",
        "hooks": {
            "guard": "ASPHALT_VERIF_HOOKS",
            "enable": "none: static analysis reads /repo sources as they are; the guard variable is reserved and unused",
            "baseline_off_cmd": "cd /repo && /venv/bin/python -m pytest -ra -q -p no:cacheprovider --timeout=900 --continue-on-collection-errors",
            "source_commits": [],
            "add_only": True,
        },
        "engines": [
            {
                "name": "sa",
                "path": "/verif/sa",
                "serves_properties": claimed,
                "kind_free_text": "stdlib-only static analyser for asphalt: AST loader + callee/attribute resolver, statement CFG with exceptional edges, checkpoint/may-raise/mutation effect summaries, ownership lattice; repository-specific rules per property; three-valued verdict (0 held / 1 VIOLATION / 2 ANALYSIS-ERROR)",
            }
        ],
        "checks": checks,
        "notes": "Commits to /repo are unguarded `fix:` commits only (see known_findings.json, DESIGN.md section 5). Exit 2 + ANALYSIS-ERROR means the checker could not conclude (anchor missing / unrecognised idiom), never a violation.",
        "not_applicable": [
            {"property_id": p, "reason": "check not built yet (work in progress; design in DESIGN.md section 4)"} for p in sorted(CLAIMS) if p not in claimed
        ],
    }
    with open(os.path.join(HERE, "MANIFEST.json"), "w") as fh:
        json.dump(manifest, fh, indent=1)
    print("claimed", claimed)


if __name__ == "__main__":
    main()
