"""
Property C17 (merge_config is a pure, right-biased deep merge), checked through the
public API. Must pass on the unchanged source and with refactor3.diff applied.

Every scenario is run twice: with the ``asphalt.core`` logger at its default level and
with it set to DEBUG (with a handler attached), because refactor3 adds diagnostics that
are only active on the DEBUG level.
"""

from __future__ import annotations

import copy
import logging
import random
from collections.abc import Iterator
from typing import Any

import anyio
import pytest

from asphalt.core import Component, Context, merge_config, start_component


@pytest.fixture(params=["default_level", "debug_level"], autouse=True)
def log_level(request: pytest.FixtureRequest) -> Iterator[None]:
    logger = logging.getLogger("asphalt.core")
    if request.param == "default_level":
        yield
        return

    records: list[logging.LogRecord] = []

    class ListHandler(logging.Handler):
        def emit(self, record: logging.LogRecord) -> None:
            record.getMessage()
            records.append(record)

    handler = ListHandler(logging.DEBUG)
    old_level = logger.level
    logger.addHandler(handler)
    logger.setLevel(logging.DEBUG)
    try:
        yield
    finally:
        logger.setLevel(old_level)
        logger.removeHandler(handler)


def model(original: Any, overrides: Any) -> dict[str, Any]:
    """Straightforward restatement of the property."""
    original = original or {}
    overrides = overrides or {}
    result = {}
    for key in [*original, *(k for k in overrides if k not in original)]:
        in_original, in_overrides = key in original, key in overrides
        if (
            in_original
            and in_overrides
            and isinstance(original[key], dict)
            and isinstance(overrides[key], dict)
        ):
            result[key] = model(original[key], overrides[key])
        elif in_overrides:
            result[key] = overrides[key]
        else:
            result[key] = original[key]

    return result


KEYS = ["k1", "k2", "k3", "dotted.key", "dotted", "key"]


def generate(rng: random.Random, depth: int, collide_with: Any = None) -> Any:
    """
    Generate a config dict; when ``collide_with`` is given, deliberately reuse its keys
    with a high chance of dict-vs-scalar / scalar-vs-dict / dict-vs-dict collisions.
    """
    result: dict[str, Any] = {}
    keys = rng.sample(KEYS, rng.randint(0, len(KEYS)))
    for key in keys:
        other = collide_with.get(key) if isinstance(collide_with, dict) else None
        kind = rng.choice(["dict", "dict", "scalar", "list", "none", "empty"])
        if kind == "dict" and depth:
            result[key] = generate(rng, depth - 1, other)
        elif kind == "list":
            result[key] = [rng.randint(0, 9), {"nested": rng.randint(0, 9)}]
        elif kind == "none":
            result[key] = None
        elif kind == "empty":
            result[key] = {}
        else:
            result[key] = rng.choice([0, 1, "", "value", 1.5, False])

    return result


@pytest.mark.parametrize("seed", range(150))
def test_colliding_random_pairs(seed: int) -> None:
    rng = random.Random(77000 + seed)
    original = generate(rng, 4)
    overrides = generate(rng, 4, original)
    snapshots = copy.deepcopy((original, overrides))

    result = merge_config(original, overrides)

    assert result == model(*snapshots)
    assert type(result) is dict
    assert (original, overrides) == snapshots
    assert result is not original
    assert result is not overrides


@pytest.mark.parametrize("seed", range(20))
def test_none_arguments(seed: int) -> None:
    rng = random.Random(88000 + seed)
    config = generate(rng, 3)
    snapshot = copy.deepcopy(config)
    for result in (merge_config(config, None), merge_config(None, config)):
        assert result == snapshot
        assert result is not config
        assert type(result) is dict

    assert config == snapshot
    assert merge_config(None, None) == {}
    assert merge_config(config, {}) == merge_config(config, None)
    assert merge_config({}, config) == merge_config(None, config)


def test_deep_type_collisions() -> None:
    original = {
        "logging": {
            "version": 1,
            "loggers": {
                "asphalt.core": {"level": "INFO", "handlers": ["console"]},
                "asphalt": "WARNING",
            },
            "root": {"level": "INFO"},
        },
        "component": {"type": "x", "components": {"db": {"url": "a"}, "web": None}},
        "max_threads": {"unexpected": "dict"},
    }
    overrides = {
        "logging": {
            "loggers": {
                "asphalt.core": None,
                "asphalt": {"level": "DEBUG"},
                "asphalt.core.extra": {"level": "ERROR"},
            },
            "root": "disabled",
        },
        "component": {"components": {"db": {"url": "b", "pool": {}}, "web": {"p": 1}}},
        "max_threads": 8,
        "logging.root": {"level": "ERROR"},
    }
    snapshots = copy.deepcopy((original, overrides))
    assert merge_config(original, overrides) == {
        "logging": {
            "version": 1,
            "loggers": {
                "asphalt.core": None,
                "asphalt": {"level": "DEBUG"},
                "asphalt.core.extra": {"level": "ERROR"},
            },
            "root": "disabled",
        },
        "component": {
            "type": "x",
            "components": {"db": {"url": "b", "pool": {}}, "web": {"p": 1}},
        },
        "max_threads": 8,
        "logging.root": {"level": "ERROR"},
    }
    assert (original, overrides) == snapshots


def test_merged_levels_are_new_dicts() -> None:
    original = {"a": {"b": {"c": {"d": 1}}}, "s": 1}
    overrides = {"a": {"b": {"c": {"e": 2}}}, "s": {"t": 1}}
    result = merge_config(original, overrides)
    assert result == {"a": {"b": {"c": {"d": 1, "e": 2}}}, "s": {"t": 1}}
    node, left, right = result, original, overrides
    for key in ("a", "b", "c"):
        node, left, right = node[key], left[key], right[key]
        assert node is not left
        assert node is not right

    assert original == {"a": {"b": {"c": {"d": 1}}}, "s": 1}
    assert overrides == {"a": {"b": {"c": {"e": 2}}}, "s": {"t": 1}}


def test_component_config_overrides_are_deep_merged() -> None:
    """The same property as seen through start_component()."""
    received: dict[str, dict[str, Any]] = {}

    class Child(Component):
        def __init__(self, name: str, **options: Any) -> None:
            received[name] = options

    class Parent(Component):
        def __init__(self) -> None:
            self.add_component(
                "first",
                Child,
                name="first",
                options={"a": 1, "b": {"c": 2, "d": [1]}},
                flag={"on": True},
            )
            self.add_component("second", Child, name="second", options={"x": 1})

    config = {
        "components": {
            "first": {"options": {"b": {"d": [2], "e": None}}, "flag": False},
            "third": {"type": Child, "name": "third", "options": {"dotted.key": 1}},
        }
    }
    snapshot = copy.deepcopy(config)

    async def main() -> None:
        async with Context():
            await start_component(Parent, config)

    anyio.run(main)
    assert received == {
        "first": {"options": {"a": 1, "b": {"c": 2, "d": [2], "e": None}}, "flag": False},
        "second": {"options": {"x": 1}},
        "third": {"options": {"dotted.key": 1}},
    }
    assert config == snapshot
