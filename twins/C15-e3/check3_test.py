"""
Property C15 check (1): every ending of run_application() tears down the root context
(every callback exactly once, in reverse registration order, before run_application()
returns or raises) and the exit is the documented one.

This variant concentrates on termination signals: SIGINT / SIGTERM raised (in the main
thread, where run_application() is called) at every stage - in the root component's
prepare(), in a child's start(), in the root's start() after the children, from a
service task while startup is still in progress, from a service task after startup, and
during a CLI component's run() - next to the other endings.
"""

from __future__ import annotations

import signal
import threading
import warnings
from functools import partial
from typing import Any

import anyio
import pytest
from anyio import sleep, wait_all_tasks_blocked

from asphalt.core import (
    CLIApplicationComponent,
    Component,
    add_teardown_callback,
    get_resource,
    run_application,
    start_service_task,
)

BACKENDS = ["asyncio", "trio"]


SIGNALS = {"sigint": signal.SIGINT, "sigterm": signal.SIGTERM}


@pytest.fixture(autouse=True)
def check_main_thread_and_handlers() -> Any:
    # The signal scenarios below are only meaningful in the main thread
    assert threading.current_thread() is threading.main_thread()
    before = {sig: signal.getsignal(sig) for sig in SIGNALS.values()}
    yield
    # run_application() must have restored the previous handlers
    assert {sig: signal.getsignal(sig) for sig in SIGNALS.values()} == before


class Recorder:
    """Records registration and invocation of teardown callbacks."""

    def __init__(self) -> None:
        self.registered: list[str] = []
        self.called: list[str] = []
        self.passed: dict[str, BaseException | None] = {}
        self.returned = False  # set by the test right after run_application() ends

    def _mark(self, name: str) -> None:
        assert not self.returned, "callback ran after run_application() ended"
        self.called.append(name)

    def register(self, name: str, flavour: str) -> None:
        self.registered.append(name)
        if flavour == "sync":
            add_teardown_callback(lambda: self._mark(name))
        elif flavour == "async":

            async def callback() -> None:
                # Mark first: after a crash the root task group is cancelled, so an
                # async callback is still *called*, but cancelled at its first
                # checkpoint (that is how the unchanged library behaves)
                self._mark(name)
                await sleep(0)

            add_teardown_callback(callback)
        elif flavour == "partial":
            add_teardown_callback(partial(self._mark, name))
        elif flavour == "object":
            recorder = self

            class CallableObject:
                def __call__(self) -> None:
                    recorder._mark(name)

            add_teardown_callback(CallableObject())
        elif flavour == "partial_object":
            recorder = self

            class CallableObject2:
                def __call__(self, arg: str) -> None:
                    recorder._mark(arg)

            add_teardown_callback(partial(CallableObject2(), name))
        elif flavour == "exc":

            def callback_exc(exc: BaseException | None) -> None:
                self.passed[name] = exc
                self._mark(name)

            add_teardown_callback(callback_exc, pass_exception=True)
        else:  # pragma: no cover
            raise AssertionError(flavour)

    def check(self, expected_names: set[str] | None = None) -> None:
        assert self.called == list(reversed(self.registered))
        assert len(set(self.called)) == len(self.called)
        if expected_names is not None:
            assert set(self.called) == expected_names


class Leaf(Component):
    def __init__(self, recorder: Recorder, name: str, fail: str | None = None):
        self.recorder = recorder
        self.name = name
        self.fail = fail

    async def start(self) -> None:
        self.recorder.register(f"{self.name}.1", "async")
        self.recorder.register(f"{self.name}.2", "object")
        if self.fail == "raise":
            raise RuntimeError("leaf failed")
        elif self.fail == "stall":
            await get_resource(float)
        elif self.fail == "sigint":
            signal.raise_signal(signal.SIGINT)
            await sleep(3)
        elif self.fail == "sigterm":
            signal.raise_signal(signal.SIGTERM)
            await sleep(3)

        self.recorder.register(f"{self.name}.3", "partial_object")


class Tree(Component):
    """Root with two leaf children; registers callbacks before and after them."""

    def __init__(
        self,
        recorder: Recorder,
        fail: str | None = None,
        service: str | None = None,
    ):
        self.recorder = recorder
        self.service = service
        self.add_component("a", Leaf, recorder=recorder, name="a")
        self.add_component("b", Leaf, recorder=recorder, name="b", fail=fail)

    async def prepare(self) -> None:
        self.recorder.register("root.prepare.1", "sync")
        self.recorder.register("root.prepare.2", "exc")

    async def service_task(self) -> None:
        await wait_all_tasks_blocked()
        if self.service == "sigint":
            signal.raise_signal(signal.SIGINT)
        elif self.service == "sigterm":
            signal.raise_signal(signal.SIGTERM)
        elif self.service == "crash":
            raise LookupError("service task crashed")

        await sleep(10)

    async def start(self) -> None:
        self.recorder.register("root.start.1", "partial")
        if self.service:
            # (this registers the service task's own finalizer on the root context,
            # between root.start.1 and root.start.2)
            await start_service_task(self.service_task, "svc")

        self.recorder.register("root.start.2", "exc")


class CLITree(Tree, CLIApplicationComponent):
    def __init__(self, recorder: Recorder, result: Any = None, **kwargs: Any):
        CLIApplicationComponent.__init__(self)
        Tree.__init__(self, recorder, **kwargs)
        self.result = result

    async def run(self) -> Any:
        self.recorder.register("root.run.1", "async")
        if isinstance(self.result, BaseException):
            raise self.result

        return self.result


def run(
    recorder: Recorder,
    component: type[Component],
    backend: str,
    start_timeout: float = 5,
    **config: Any,
) -> BaseException | None:
    """Run the app; return the exception that run_application() raised, or None."""
    try:
        with warnings.catch_warnings():
            warnings.simplefilter("ignore")
            run_application(
                component,
                {"recorder": recorder, **config},
                backend=backend,
                start_timeout=start_timeout,
            )
    except BaseException as exc:
        recorder.returned = True
        return exc
    else:
        recorder.returned = True
        return None


ALL_STARTED = {
    "root.prepare.1",
    "root.prepare.2",
    "a.1",
    "a.2",
    "a.3",
    "b.1",
    "b.2",
    "b.3",
    "root.start.1",
    "root.start.2",
}


@pytest.mark.parametrize("backend", BACKENDS)
@pytest.mark.parametrize(
    "result, expected_code",
    [
        (None, None),
        (0, None),
        (127, 127),
        (128, 1),
        ("foo", 1),
    ],
)
def test_cli_result(backend: str, result: Any, expected_code: int | None) -> None:
    recorder = Recorder()
    exc = run(recorder, CLITree, backend, result=result)
    if expected_code is None:
        assert exc is None
    else:
        assert isinstance(exc, SystemExit)
        assert exc.code == expected_code

    recorder.check(ALL_STARTED | {"root.run.1"})
    assert recorder.passed == {"root.start.2": None, "root.prepare.2": None}


@pytest.mark.parametrize("backend", BACKENDS)
def test_cli_run_raises(backend: str) -> None:
    recorder = Recorder()
    error = ZeroDivisionError("run() failed")
    exc = run(recorder, CLITree, backend, result=error)
    assert exc is error
    recorder.check(ALL_STARTED | {"root.run.1"})
    assert recorder.passed == {"root.start.2": error, "root.prepare.2": error}


@pytest.mark.parametrize("backend", BACKENDS)
@pytest.mark.parametrize("fail", ["raise", "sigint", "sigterm"])
@pytest.mark.parametrize("component", [Tree, CLITree])
def test_startup_failure(backend: str, fail: str, component: type[Component]) -> None:
    recorder = Recorder()
    exc = run(recorder, component, backend, fail=fail)
    assert isinstance(exc, SystemExit)
    assert exc.code == 1
    recorder.check()
    assert {"root.prepare.1", "root.prepare.2", "b.1", "b.2"} <= set(recorder.called)
    assert "b.3" not in recorder.called
    assert "root.start.1" not in recorder.called
    assert "root.run.1" not in recorder.called


@pytest.mark.parametrize("backend", BACKENDS)
def test_startup_timeout(backend: str) -> None:
    recorder = Recorder()
    exc = run(recorder, Tree, backend, start_timeout=0.2, fail="stall")
    assert isinstance(exc, SystemExit)
    assert exc.code == 1
    recorder.check(
        {"root.prepare.1", "root.prepare.2", "a.1", "a.2", "a.3", "b.1", "b.2"}
    )


@pytest.mark.parametrize("backend", BACKENDS)
@pytest.mark.parametrize("signame", ["sigint", "sigterm"])
def test_signal_after_startup(backend: str, signame: str) -> None:
    recorder = Recorder()
    exc = run(recorder, Tree, backend, service=signame)
    assert exc is None
    recorder.check(ALL_STARTED)
    assert recorder.passed == {"root.start.2": None, "root.prepare.2": None}


@pytest.mark.parametrize("backend", BACKENDS)
def test_service_task_crash_after_startup(backend: str) -> None:
    recorder = Recorder()
    exc = run(recorder, Tree, backend, service="crash")
    assert isinstance(exc, LookupError)
    assert str(exc) == "service task crashed"
    recorder.check(ALL_STARTED)


@pytest.mark.parametrize("backend", BACKENDS)
def test_service_task_crash_during_startup(backend: str) -> None:
    class CrashEarly(Component):
        def __init__(self, recorder: Recorder):
            self.recorder = recorder

        async def crash(self) -> None:
            raise LookupError("early crash")

        async def start(self) -> None:
            self.recorder.register("one", "sync")
            self.recorder.register("two", "exc")
            await start_service_task(self.crash, "crasher")
            self.recorder.register("three", "async")
            await sleep(3)
            self.recorder.register("never", "sync")

    recorder = Recorder()
    exc = run(recorder, CrashEarly, backend)
    assert exc is not None
    assert isinstance(exc, (LookupError, SystemExit))
    if isinstance(exc, SystemExit):
        assert exc.code == 1

    recorder.check({"one", "two", "three"})


def test_sanity_anyio_available() -> None:
    assert anyio.run(sleep, 0) is None


class SignalStages(Component):
    """Raises a signal at a configurable stage of the startup."""

    def __init__(self, recorder: Recorder, stage: str, signame: str):
        self.recorder = recorder
        self.stage = stage
        self.signum = SIGNALS[signame]
        self.add_component("a", Leaf, recorder=recorder, name="a")
        self.add_component("b", Leaf, recorder=recorder, name="b")

    async def maybe_signal(self, stage: str) -> None:
        self.recorder.register(f"root.{stage}.before", "exc")
        if stage == self.stage:
            signal.raise_signal(self.signum)
            await sleep(3)
            pytest.fail("startup was not cancelled")  # pragma: no cover

        self.recorder.register(f"root.{stage}.after", "async")

    async def signalling_service(self) -> None:
        signal.raise_signal(self.signum)
        await sleep(10)

    async def prepare(self) -> None:
        await self.maybe_signal("prepare")

    async def start(self) -> None:
        await self.maybe_signal("start")
        if self.stage == "service":
            await start_service_task(self.signalling_service, "signaller")
            self.recorder.register("root.service.after", "sync")
            await sleep(3)
            pytest.fail("startup was not cancelled")  # pragma: no cover


@pytest.mark.parametrize("backend", BACKENDS)
@pytest.mark.parametrize("signame", list(SIGNALS))
@pytest.mark.parametrize("stage", ["prepare", "start", "service"])
def test_signal_at_each_startup_stage(backend: str, signame: str, stage: str) -> None:
    recorder = Recorder()
    exc = run(recorder, SignalStages, backend, stage=stage, signame=signame)
    assert isinstance(exc, SystemExit)
    assert exc.code == 1
    recorder.check()
    if stage == "service":
        assert {"root.start.before", "root.start.after", "root.service.after"} <= set(
            recorder.called
        )
    else:
        assert f"root.{stage}.before" in recorder.called
        assert f"root.{stage}.after" not in recorder.called

    if stage == "prepare":
        assert not any(name.startswith(("a.", "b.")) for name in recorder.called)
    else:
        assert {"a.1", "a.2", "a.3", "b.1", "b.2", "b.3"} <= set(recorder.called)


@pytest.mark.parametrize("backend", BACKENDS)
@pytest.mark.parametrize("signame", list(SIGNALS))
def test_signal_during_cli_run(backend: str, signame: str) -> None:
    """
    A signal after startup does not interrupt run(); whatever run() returns is then
    reported the documented way, after the teardown.
    """

    class SignalInRun(CLITree):
        async def run(self) -> Any:
            self.recorder.register("root.run.0", "exc")
            signal.raise_signal(SIGNALS[signame])
            await sleep(0.1)
            return await super().run()

    recorder = Recorder()
    exc = run(recorder, SignalInRun, backend, result=5)
    assert isinstance(exc, SystemExit)
    assert exc.code == 5
    recorder.check(ALL_STARTED | {"root.run.0", "root.run.1"})
