"""
Behaviour check for refactoring 2 (the scan of the decorated function's signature
for ``resource()`` markers extracted from ``inject`` into a private module-level
helper).

Exercises what happens when the decorator is applied: which parameters are picked up
as injected (and in which order they are looked up), the three kinds of rejected
markers with their exact messages and precedence, the "nothing to inject" warning,
and that the returned wrapper is of the right kind and passes all other arguments
through unchanged.
"""

from __future__ import annotations

import inspect
import warnings
from typing import Any, Optional

import pytest

from asphalt.core import (
    Context,
    ResourceNotFound,
    add_resource,
    add_resource_factory,
    get_resource,
    get_resource_nowait,
    inject,
    resource,
)

pytestmark = pytest.mark.anyio()

PREFIX = f"{__name__}."


def test_positional_only_marker_rejected() -> None:
    def func(a: int, b: str = resource(), /, c: int = 2) -> None:
        pass

    with pytest.raises(TypeError) as exc:
        inject(func)

    assert str(exc.value) == (
        "Cannot inject dependency to positional-only parameter 'b'"
    )


def test_unannotated_marker_rejected() -> None:
    def func(a: int, b=resource("x"), *, c: int = resource()) -> None:  # type: ignore[no-untyped-def]
        pass

    with pytest.raises(TypeError) as exc:
        inject(func)

    assert str(exc.value) == (
        f"Dependency for parameter 'b' of function "
        f"'{PREFIX}test_unannotated_marker_rejected.<locals>.func' is missing the "
        f"type annotation"
    )


def test_uncalled_marker_rejected() -> None:
    async def func(a: int, *, b: str = resource) -> None:  # type: ignore[assignment]
        pass

    with pytest.raises(TypeError) as exc:
        inject(func)

    assert str(exc.value) == (
        f"Default value for parameter 'b' of function "
        f"{PREFIX}test_uncalled_marker_rejected.<locals>.func was the 'resource' "
        f"function – did you forget to add the parentheses at the end?"
    )


def test_first_offending_parameter_wins() -> None:
    # positional-only is checked before the missing annotation on the same parameter
    def func1(a=resource(), /) -> None:  # type: ignore[no-untyped-def]
        pass

    with pytest.raises(TypeError, match="positional-only parameter 'a'"):
        inject(func1)

    # parameters are checked in signature order
    def func2(a: int = resource, *, b=resource()) -> None:  # type: ignore[no-untyped-def,assignment]
        pass

    with pytest.raises(TypeError, match="parameter 'a' .* was the 'resource' function"):
        inject(func2)

    def func3(a: int = resource(), b=resource(), *, c: int = resource) -> None:  # type: ignore[no-untyped-def,assignment]
        pass

    with pytest.raises(TypeError, match="parameter 'b' .* is missing the type"):
        inject(func3)


def test_rejection_happens_when_decorating_not_when_calling() -> None:
    with pytest.raises(TypeError):

        @inject
        def func(a: int, b=resource()) -> None:  # type: ignore[no-untyped-def]
            pass

    assert "func" not in locals()


def test_no_markers_warns_and_returns_original() -> None:
    def func(a: int, b: str = "x", *args: Any, c: Optional[int] = None, **kw: Any) -> None:
        pass

    with pytest.warns(UserWarning) as record:
        result = inject(func)

    assert result is func
    assert len(record) == 1
    assert str(record[0].message) == (
        f"{PREFIX}test_no_markers_warns_and_returns_original.<locals>.func does not "
        f"have any injectable resources declared"
    )
    # the warning is attributed to the library module that implements inject()
    assert record[0].filename.endswith("_context.py")


def test_rejected_marker_takes_precedence_over_warning() -> None:
    def func(a: int = resource) -> None:  # type: ignore[assignment]
        pass

    with warnings.catch_warnings():
        warnings.simplefilter("error")
        with pytest.raises(TypeError, match="forget to add the parentheses"):
            inject(func)


def test_wrapper_kind_and_metadata() -> None:
    def sfunc(a: int, b: str = resource()) -> str:
        """Sync doc."""
        return b

    async def afunc(a: int, *, b: str = resource()) -> str:
        """Async doc."""
        return b

    with warnings.catch_warnings():
        warnings.simplefilter("error")
        swrapped = inject(sfunc)
        awrapped = inject(afunc)

    assert swrapped is not sfunc and awrapped is not afunc
    assert not inspect.iscoroutinefunction(swrapped)
    assert inspect.iscoroutinefunction(awrapped)
    assert swrapped.__wrapped__ is sfunc  # type: ignore[attr-defined]
    assert awrapped.__wrapped__ is afunc  # type: ignore[attr-defined]
    assert swrapped.__doc__ == "Sync doc." and awrapped.__doc__ == "Async doc."
    assert swrapped.__name__ == "sfunc" and awrapped.__name__ == "afunc"
    assert list(inspect.signature(swrapped).parameters) == ["a", "b"]


async def test_all_marker_positions_are_injected_and_rest_passes_through() -> None:
    @inject
    def func(
        a: int,
        r1: str = resource(),
        b: str = "b",
        r2: Optional[int] = resource("two"),
        *args: Any,
        r3: bytes = resource("three"),
        c: float = 0.5,
        r4: float | None = resource(),
        **kwargs: Any,
    ) -> Any:
        return a, r1, b, r2, args, r3, c, r4, kwargs

    async with Context():
        add_resource("one")
        add_resource(b"three", "three")
        async with Context():
            add_resource(2, "two")
            expected_injected = (
                get_resource_nowait(str),
                get_resource_nowait(int, "two", optional=True),
                get_resource_nowait(bytes, "three"),
                get_resource_nowait(float, optional=True),
            )
            assert expected_injected == ("one", 2, b"three", None)
            assert func(1) == (1, "one", "b", 2, (), b"three", 0.5, None, {})
            assert func(a=5, c=1.5, z=9, b="B") == (
                5, "one", "B", 2, (), b"three", 1.5, None, {"z": 9},
            )  # fmt: skip

        # "two" is gone with the inner context
        assert func(1)[3] is None


async def test_lookup_order_follows_signature_order() -> None:
    order: list[str] = []

    def make(tag: str, value: Any) -> Any:
        def factory() -> Any:
            order.append(tag)
            return value

        return factory

    @inject
    async def afunc(
        z: int = resource("z"), *, a: str = resource("a"), m: bytes = resource("m")
    ) -> Any:
        order.append("body")
        return z, a, m

    @inject
    def sfunc(
        z: int = resource("z"), *, a: str = resource("a"), m: bytes = resource("m")
    ) -> Any:
        order.append("body")
        return z, a, m

    async with Context():
        add_resource_factory(make("m", b"m"), "m", types=[bytes])
        add_resource_factory(make("a", "a"), "a", types=[str])
        add_resource_factory(make("z", 26), "z", types=[int])
        async with Context():
            assert await afunc() == (26, "a", b"m")
            assert order == ["z", "a", "m", "body"]

        order.clear()
        async with Context():
            assert sfunc() == (26, "a", b"m")
            assert order == ["z", "a", "m", "body"]


async def test_first_missing_resource_in_signature_order_is_reported() -> None:
    ran: list[int] = []

    @inject
    async def afunc(x: int = resource("x"), *, y: str = resource("y")) -> None:
        ran.append(1)

    @inject
    def sfunc(x: int = resource("x"), *, y: str = resource("y")) -> None:
        ran.append(2)

    async with Context():
        with pytest.raises(ResourceNotFound) as exc:
            await afunc()

        assert (exc.value.type, exc.value.name) == (int, "x")
        with pytest.raises(ResourceNotFound) as exc:
            sfunc()

        assert (exc.value.type, exc.value.name) == (int, "x")
        add_resource(1, "x")
        with pytest.raises(ResourceNotFound) as exc:
            await afunc()

        assert (exc.value.type, exc.value.name) == (str, "y")
        with pytest.raises(ResourceNotFound) as exc:
            sfunc()

        assert (exc.value.type, exc.value.name) == (str, "y")
        assert ran == []
        add_resource("y", "y")
        await afunc()
        sfunc()
        assert ran == [1, 2]


async def test_explicit_value_for_injected_parameter_conflicts() -> None:
    @inject
    def func(a: int, r: str = resource()) -> Any:
        return a, r

    async with Context():
        add_resource("s")
        with pytest.raises(TypeError, match="multiple values for keyword argument 'r'"):
            func(1, r="explicit")

        assert func(1) == (1, "s")


async def test_method_and_callable_object() -> None:
    class Service:
        @inject
        async def method(self, a: int, *, r: str = resource("svc")) -> Any:
            return self, a, r

        @inject
        def __call__(self, r: Optional[str] = resource("svc")) -> Any:
            return r

    svc = Service()
    async with Context():
        assert svc() is None
        add_resource("value", "svc")
        assert await svc.method(4) == (svc, 4, await get_resource(str, "svc"))
        assert svc() == "value"
