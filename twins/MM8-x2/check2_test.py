"""Behaviour checks for refactoring 2 (``run_application``, _runner.py)."""

from __future__ import annotations

import logging
import platform
import signal
import warnings
from typing import Any
from unittest.mock import patch

import anyio
import pytest
from _pytest.logging import LogCaptureFixture
from anyio import sleep, to_thread, wait_all_tasks_blocked

from asphalt.core import (
    CLIApplicationComponent,
    Component,
    add_teardown_callback,
    run_application,
    start_service_task,
)

posix_only = pytest.mark.skipif(
    platform.system() == "Windows", reason="Signals don't work on Windows"
)


@pytest.fixture(params=["asyncio", "trio"])
def backend(request: Any) -> str:
    pytest.importorskip(request.param)
    return request.param


class Recorder:
    def __init__(self) -> None:
        self.events: list[Any] = []


class CLIApp(CLIApplicationComponent):
    def __init__(self, recorder: Recorder, retval: Any = None, fail: bool = False):
        super().__init__()
        self.recorder = recorder
        self.retval = retval
        self.fail = fail

    def teardown(self, exception: BaseException | None) -> None:
        self.recorder.events.append(("teardown", type(exception)))

    async def start(self) -> None:
        add_teardown_callback(self.teardown, pass_exception=True)
        self.recorder.events.append("start")

    async def run(self) -> Any:
        self.recorder.events.append("run")
        if self.fail:
            raise RuntimeError("run failed")

        return self.retval


class IntSubclass(int):
    pass


@pytest.mark.parametrize(
    "retval, expected_code",
    [
        pytest.param(None, None, id="none"),
        pytest.param(0, None, id="zero"),
        pytest.param(False, None, id="false"),
        pytest.param(1, 1, id="one"),
        pytest.param(True, 1, id="true"),
        pytest.param(20, 20, id="twenty"),
        pytest.param(127, 127, id="max"),
        pytest.param(IntSubclass(7), 7, id="intsubclass"),
    ],
)
def test_cli_exit_codes(
    retval: Any, expected_code: int | None, backend: str, caplog: LogCaptureFixture
) -> None:
    caplog.set_level(logging.INFO)
    recorder = Recorder()
    config = {"recorder": recorder, "retval": retval}
    with warnings.catch_warnings():
        warnings.simplefilter("error")
        if expected_code is None:
            run_application(CLIApp, config, backend=backend)
        else:
            with pytest.raises(SystemExit) as exc_info:
                run_application(CLIApp, config, backend=backend)

            assert exc_info.value.code == expected_code
            assert exc_info.value.code is retval

    assert recorder.events == ["start", "run", ("teardown", type(None))]
    assert caplog.messages == [
        "Running in development mode",
        "Starting application",
        "Application started",
        "Application stopped",
    ]
    # The configuration passed in must not have been modified
    assert config == {"recorder": recorder, "retval": retval}


@pytest.mark.parametrize(
    "retval, message",
    [
        pytest.param(128, "exit code out of range: 128", id="toobig"),
        pytest.param(-1, "exit code out of range: -1", id="negative"),
        pytest.param(
            "foo", "run() must return an integer or None, not str", id="string"
        ),
        pytest.param(
            1.0, "run() must return an integer or None, not float", id="float"
        ),
        pytest.param(
            Recorder(),
            f"run() must return an integer or None, not {__name__}.Recorder",
            id="object",
        ),
    ],
)
def test_cli_bad_exit_codes(retval: Any, message: str, backend: str) -> None:
    recorder = Recorder()
    with pytest.warns(UserWarning) as record, pytest.raises(SystemExit) as exc_info:
        run_application(CLIApp, {"recorder": recorder, "retval": retval}, backend=backend)

    assert exc_info.value.code == 1
    matching = [w for w in record if str(w.message) == message]
    assert len(matching) == 1
    assert matching[0].category is UserWarning
    assert matching[0].filename.endswith("_runner.py")
    assert recorder.events == ["start", "run", ("teardown", type(None))]


def test_cli_run_raises(backend: str, caplog: LogCaptureFixture) -> None:
    caplog.set_level(logging.INFO)
    recorder = Recorder()
    with pytest.raises(RuntimeError, match="run failed"):
        run_application(CLIApp, {"recorder": recorder, "fail": True}, backend=backend)

    assert recorder.events == ["start", "run", ("teardown", RuntimeError)]
    assert caplog.messages == [
        "Running in development mode",
        "Starting application",
        "Application started",
        "Application stopped",
    ]


@pytest.mark.parametrize(
    "logging_config, expected_call",
    [
        pytest.param(None, None, id="none"),
        pytest.param(logging.DEBUG, ("basic", (), {"level": logging.DEBUG}), id="int"),
        pytest.param(True, ("basic", (), {"level": True}), id="bool"),
        pytest.param(0, ("basic", (), {"level": 0}), id="zero"),
        pytest.param({}, ("dict", ({},), {}), id="emptydict"),
        pytest.param({"version": 1}, ("dict", ({"version": 1},), {}), id="dict"),
        pytest.param("INFO", None, id="string"),
    ],
)
def test_logging_setup(logging_config: Any, expected_call: Any, backend: str) -> None:
    calls: list[Any] = []
    with patch(
        "asphalt.core._runner.basicConfig",
        side_effect=lambda *a, **kw: calls.append(("basic", a, kw)),
    ), patch(
        "asphalt.core._runner.dictConfig",
        side_effect=lambda *a, **kw: calls.append(("dict", a, kw)),
    ):
        run_application(
            CLIApp, {"recorder": Recorder()}, logging=logging_config, backend=backend
        )

    assert calls == ([expected_call] if expected_call else [])


def test_logging_configured_before_anything_else(backend: str) -> None:
    order: list[str] = []

    class BadLogging(Exception):
        pass

    def fail(config: Any) -> None:
        order.append("dictConfig")
        raise BadLogging

    recorder = Recorder()
    with patch("asphalt.core._runner.dictConfig", side_effect=fail), pytest.raises(
        BadLogging
    ):
        run_application(
            CLIApp, {"recorder": recorder}, logging={"version": 1}, backend=backend
        )

    assert order == ["dictConfig"]
    assert recorder.events == []


@pytest.mark.parametrize("max_threads", [None, 3, -1])
def test_max_threads(
    max_threads: int | None, backend: str, caplog: LogCaptureFixture
) -> None:
    caplog.set_level(logging.INFO, "asphalt.core")
    observed: list[float] = []

    class ThreadsApp(CLIApplicationComponent):
        async def run(self) -> None:
            observed.append(to_thread.current_default_thread_limiter().total_tokens)

    async def default_tokens() -> float:
        return to_thread.current_default_thread_limiter().total_tokens

    expected = (
        anyio.run(default_tokens, backend=backend) if max_threads is None else max_threads
    )
    if max_threads == -1:
        # A limiter does not accept a negative number of tokens; the error comes
        # straight out, before the application is even said to be starting
        with pytest.raises(ValueError, match="total_tokens must be >= 0"):
            run_application(ThreadsApp, max_threads=max_threads, backend=backend)

        assert observed == []
        assert caplog.messages == ["Running in development mode"]
    else:
        run_application(ThreadsApp, max_threads=max_threads, backend=backend)
        assert observed == [expected]


class StartFailure(Component):
    def __init__(self, recorder: Recorder, exc_type: type[BaseException]):
        self.recorder = recorder
        self.exc_type = exc_type

    def teardown(self, exception: BaseException | None) -> None:
        self.recorder.events.append(("teardown", type(exception)))

    async def start(self) -> None:
        add_teardown_callback(self.teardown, pass_exception=True)
        raise self.exc_type("start failed")


@pytest.mark.parametrize("exc_type", [RuntimeError, KeyboardInterrupt, SystemExit])
def test_start_failure(
    exc_type: type[BaseException], backend: str, caplog: LogCaptureFixture
) -> None:
    caplog.set_level(logging.INFO, "asphalt.core")
    recorder = Recorder()
    with pytest.raises(SystemExit) as exc_info:
        run_application(
            StartFailure, {"recorder": recorder, "exc_type": exc_type}, backend=backend
        )

    assert exc_info.value.code == 1
    assert caplog.messages == [
        "Running in development mode",
        "Starting application",
        "Error during application startup",
        "Application stopped",
    ]
    error_record = next(r for r in caplog.records if r.levelno == logging.ERROR)
    assert error_record.exc_info is not None
    assert recorder.events == [("teardown", type(None))]


def test_start_timeout(backend: str, caplog: LogCaptureFixture) -> None:
    class Stalling(Component):
        async def start(self) -> None:
            await sleep(10)

    caplog.set_level(logging.INFO, "asphalt.core")
    with pytest.raises(SystemExit) as exc_info:
        run_application(Stalling, start_timeout=0.1, backend=backend)

    assert exc_info.value.code == 1
    assert caplog.messages[:2] == ["Running in development mode", "Starting application"]
    assert caplog.messages[2].startswith(
        "Timeout waiting for the component tree to start"
    )
    assert caplog.messages[3:] == ["Application stopped"]


def test_bad_component_reference(backend: str, caplog: LogCaptureFixture) -> None:
    caplog.set_level(logging.INFO, "asphalt.core")
    with pytest.raises(SystemExit) as exc_info:
        run_application("nonexistent.module:Component", backend=backend)

    assert exc_info.value.code == 1
    assert caplog.messages == [
        "Running in development mode",
        "Starting application",
        "Error during application startup",
        "Application stopped",
    ]


class SignalApp(Component):
    def __init__(self, recorder: Recorder, signum: int, during_start: bool):
        self.recorder = recorder
        self.signum = signum
        self.during_start = during_start

    def teardown(self, exception: BaseException | None) -> None:
        self.recorder.events.append(("teardown", type(exception)))

    async def terminator(self) -> None:
        await wait_all_tasks_blocked()
        self.recorder.events.append("signal")
        signal.raise_signal(self.signum)

    async def start(self) -> None:
        add_teardown_callback(self.teardown, pass_exception=True)
        if self.during_start:
            signal.raise_signal(self.signum)
            await sleep(3)
            self.recorder.events.append("not reached")
        else:
            await start_service_task(self.terminator, "terminator")


@posix_only
@pytest.mark.parametrize(
    "signum, label",
    [(signal.SIGINT, "Interrupt"), (signal.SIGTERM, "Terminated")],
    ids=["sigint", "sigterm"],
)
def test_signal_while_running(
    signum: int, label: str, backend: str, caplog: LogCaptureFixture
) -> None:
    caplog.set_level(logging.INFO, "asphalt.core")
    recorder = Recorder()
    run_application(
        SignalApp,
        {"recorder": recorder, "signum": signum, "during_start": False},
        backend=backend,
    )
    assert caplog.messages == [
        "Running in development mode",
        "Starting application",
        "Application started",
        f"Received signal ({label}) – terminating application",
        "Application stopped",
    ]
    signal_record = caplog.records[3]
    assert signal_record.args == (label,)
    assert recorder.events == ["signal", ("teardown", type(None))]


@posix_only
@pytest.mark.parametrize(
    "signum, label",
    [(signal.SIGINT, "Interrupt"), (signal.SIGTERM, "Terminated")],
    ids=["sigint", "sigterm"],
)
def test_signal_during_startup(
    signum: int, label: str, backend: str, caplog: LogCaptureFixture
) -> None:
    caplog.set_level(logging.INFO, "asphalt.core")
    recorder = Recorder()
    with pytest.raises(SystemExit) as exc_info:
        run_application(
            SignalApp,
            {"recorder": recorder, "signum": signum, "during_start": True},
            backend=backend,
        )

    assert exc_info.value.code == 1
    assert caplog.messages == [
        "Running in development mode",
        "Starting application",
        f"Received signal ({label}) – terminating application",
        "Application stopped",
    ]
    assert recorder.events == [("teardown", type(None))]


@posix_only
def test_signal_name_with_suffix(backend: str, caplog: LogCaptureFixture) -> None:
    """On macOS, strsignal() returns e.g. "Interrupt: 2"; only the name is logged."""
    caplog.set_level(logging.INFO, "asphalt.core")
    seen: list[int] = []

    def fake_strsignal(signum: int) -> str | None:
        seen.append(signum)
        return "Interrupt: 2" if len(seen) == 1 else None

    for expected in ("Interrupt", ""):
        caplog.clear()
        with patch("signal.strsignal", side_effect=fake_strsignal):
            run_application(
                SignalApp,
                {
                    "recorder": Recorder(),
                    "signum": signal.SIGINT,
                    "during_start": False,
                },
                backend=backend,
            )

        assert (
            f"Received signal ({expected}) – terminating application"
            in caplog.messages
        )

    assert seen == [signal.SIGINT, signal.SIGINT]
