"""
Behaviour checks for refactoring 3 (guard clauses instead of the nested factory branch,
local aliases for the resource tables, module-level container helper and lookup-state
constant, two-phase ``get_resources``).

The scenarios target what that restructuring could plausibly break: which exit is taken
for every combination of (resource present / factory present / optional), what happens
to the resource tables while an async factory is suspended, metadata of generated
containers, and the iteration order / overriding behaviour of ``get_resources``.
Everything goes through the public API of ``asphalt.core``.
"""

from __future__ import annotations

import gc
import warnings
from itertools import product
from typing import Any, Union

import pytest
from anyio import Event, create_task_group, fail_after, wait_all_tasks_blocked

from asphalt.core import (
    AsyncResourceError,
    Context,
    ResourceConflict,
    ResourceEvent,
    ResourceNotFound,
    current_context,
    get_resource,
    get_resource_nowait,
    get_resources,
)

pytestmark = pytest.mark.anyio()


@pytest.fixture
def anyio_backend() -> str:
    return "asyncio"


class Marker:
    def __init__(self, tag: str) -> None:
        self.tag = tag

    def __repr__(self) -> str:
        return f"Marker({self.tag!r})"


@pytest.mark.parametrize(
    "have_resource, have_factory, optional, use_async",
    list(product([False, True], repeat=4)),
)
async def test_exit_matrix(
    have_resource: bool, have_factory: bool, optional: bool, use_async: bool
) -> None:
    calls: list[str] = []
    static = Marker("static")
    generated = Marker("generated")

    def factory() -> Marker:
        calls.append("factory")
        return generated

    async with Context() as ctx:
        if have_factory:
            ctx.add_resource_factory(factory)

        if have_resource:
            ctx.add_resource(static)

        async def lookup() -> Any:
            if use_async:
                return await ctx.get_resource(Marker, optional=optional)

            return ctx.get_resource_nowait(Marker, optional=optional)

        if have_resource:
            assert await lookup() is static
            assert calls == []
        elif have_factory:
            assert await lookup() is generated
            assert await lookup() is generated
            assert calls == ["factory"]
        elif optional:
            assert await lookup() is None
        else:
            with pytest.raises(ResourceNotFound) as exc:
                await lookup()

            assert exc.value.args == (Marker, "default")

        expected = (
            {"default": static}
            if have_resource
            else {"default": generated}
            if have_factory
            else {}
        )
        assert ctx.get_resources(Marker) == expected


class TestClosingState:
    async def test_lookups_allowed_while_closing_but_not_after(self) -> None:
        log: list[Any] = []

        def factory() -> Marker:
            return Marker("late")

        async def teardown() -> None:
            ctx = current_context()
            assert ctx.closed
            log.append(ctx.get_resource_nowait(str))
            log.append((await ctx.get_resource(Marker)).tag)
            log.append(ctx.get_resource_nowait(Marker).tag)
            log.append(await ctx.get_resource(bytes, optional=True))
            try:
                ctx.get_resource_nowait(bytes)
            except ResourceNotFound as exc:
                log.append(str(exc))

            # factories cannot be added any more, resources can
            try:
                ctx.add_resource_factory(factory, "another")
            except RuntimeError as exc:
                log.append(str(exc))

            ctx.add_resource(b"bytes")
            log.append(await ctx.get_resource(bytes))

        async with Context() as ctx:
            ctx.add_resource("text")
            ctx.add_resource_factory(factory)
            ctx.add_teardown_callback(teardown)

        assert log == [
            "text",
            "late",
            "late",
            None,
            "no matching resource was found for type=bytes name='default'",
            "this context is being torn down",
            b"bytes",
        ]
        for call in (
            lambda: ctx.get_resource_nowait(str),
            lambda: ctx.get_resource_nowait(str, optional=True),
        ):
            with pytest.raises(RuntimeError, match="already been closed"):
                call()

        with pytest.raises(RuntimeError, match="already been closed"):
            await ctx.get_resource(Marker, optional=True)

        # get_resources() keeps working on a closed context
        assert set(ctx.get_resources(Marker)) == {"default"}

    async def test_inactive_context(self) -> None:
        ctx = Context()
        with pytest.raises(RuntimeError, match="^this context has not been entered yet$"):
            ctx.get_resource_nowait(int)

        with pytest.raises(RuntimeError, match="^this context has not been entered yet$"):
            await ctx.get_resource(int)

        assert ctx.get_resources(int) == {}


class TestSuspendedAsyncFactory:
    async def test_resource_added_while_factory_is_suspended(self) -> None:
        """
        If a resource shows up under the requested key while the async factory is
        suspended, it is kept; the pending lookup still returns its own generated value
        (and still announces it).
        """
        entered = Event()
        release = Event()

        async def factory() -> Union[int, float]:
            entered.set()
            await release.wait()
            return 99

        results: list[Any] = []

        async def requester(ctx: Context) -> None:
            results.append(await ctx.get_resource(int))

        async with Context() as ctx:
            async with ctx.resource_added.stream_events() as stream:
                ctx.add_resource_factory(factory)
                async with create_task_group() as tg:
                    tg.start_soon(requester, ctx)
                    await entered.wait()
                    ctx.add_resource(1)
                    assert ctx.get_resource_nowait(int) == 1
                    release.set()

                assert results == [99]
                # int stays as it was, float got the generated value
                assert ctx.get_resource_nowait(int) == 1
                assert await ctx.get_resource(int) == 1
                assert ctx.get_resource_nowait(float) == 99
                assert list(ctx.get_resources(int).items()) == [("default", 99)]
                assert ctx.get_resources(float) == {"default": 99}

                events: list[ResourceEvent] = []
                with fail_after(3):
                    async for event in stream:
                        events.append(event)
                        if len(events) == 3:
                            break

        assert [(e.resource_types, e.is_factory) for e in events] == [
            ((int, float), True),
            ((int,), False),
            ((int, float), False),
        ]

    async def test_factory_added_to_child_while_parent_lookup_pending(self) -> None:
        entered = Event()
        release = Event()

        async def slow_factory() -> Marker:
            entered.set()
            await release.wait()
            return Marker("parent")

        results: list[Any] = []

        async def requester(ctx: Context) -> None:
            results.append(await ctx.get_resource(Marker))

        async with Context() as parent, create_task_group() as tg:
            parent.add_resource_factory(slow_factory)
            tg.start_soon(requester, parent)
            await entered.wait()
            async with Context() as child:
                # the generated resource is bound to the parent only
                assert child.get_resources(Marker) == {}
                release.set()
                await wait_all_tasks_blocked()
                assert child.get_resources(Marker) == {}
                assert parent.get_resources(Marker) == {"default": results[0]}

            async with Context() as child2:
                # generated resources are never inherited either
                assert child2.get_resources(Marker) == {}
                with pytest.raises(AsyncResourceError):
                    get_resource_nowait(Marker, optional=True)

                fresh = await get_resource(Marker)
                assert fresh is not results[0]
                assert child2.get_resources(Marker) == {"default": fresh}
                assert parent.get_resources(Marker) == {"default": results[0]}

    async def test_async_factory_raises_after_suspension(self) -> None:
        async def factory() -> Marker:
            await wait_all_tasks_blocked()
            raise ValueError("generation failed")

        async with Context() as ctx:
            ctx.add_resource_factory(factory)
            with pytest.raises(ValueError, match="generation failed"):
                await ctx.get_resource(Marker, optional=True)

            assert ctx.get_resources(Marker) == {}
            with pytest.raises(ValueError, match="generation failed"):
                await get_resource(Marker)


class TestSyncFactoryResults:
    async def test_coroutine_is_closed_and_nothing_published(self) -> None:
        async def factory() -> Marker:
            return Marker("async")

        async with Context() as ctx:
            async with ctx.resource_added.stream_events() as stream:
                ctx.add_resource_factory(factory)
                with warnings.catch_warnings(record=True) as caught:
                    warnings.simplefilter("always")
                    for optional in (False, True):
                        with pytest.raises(AsyncResourceError) as exc:
                            ctx.get_resource_nowait(Marker, optional=optional)

                        assert exc.value.args == ()

                    gc.collect()

                assert [w for w in caught if w.category is RuntimeWarning] == []
                assert ctx.get_resources(Marker) == {}
                ctx.add_resource(0)
                with fail_after(3):
                    first = await stream.__anext__()
                    second = await stream.__anext__()

                assert first.is_factory and first.resource_types == (Marker,)
                assert not second.is_factory and second.resource_types == (int,)

    async def test_generated_resource_can_conflict_later(self) -> None:
        def factory() -> Marker:
            return Marker("generated")

        async with Context() as ctx:
            ctx.add_resource_factory(factory, "m")
            ctx.get_resource_nowait(Marker, "m")
            with pytest.raises(ResourceConflict, match="using the name 'm'"):
                ctx.add_resource(Marker("static"), "m")


class TestGetResources:
    async def test_insertion_order_and_multi_type(self) -> None:
        async with Context() as ctx:
            ctx.add_resource(3, "c")
            ctx.add_resource(1, "a", [int, float])
            ctx.add_resource(2.0, "b")
            ctx.add_resource(2, "b")
            assert list(ctx.get_resources(int).items()) == [("c", 3), ("a", 1), ("b", 2)]
            assert list(ctx.get_resources(float).items()) == [("a", 1), ("b", 2.0)]
            assert get_resources(object) == {}

    async def test_later_container_overrides_same_name(self) -> None:
        """
        A generated container that lists a type it could not be stored under still
        matches that type in ``get_resources`` and, coming later in the table,
        overrides the entry of the same name.
        """

        def factory() -> Union[int, float]:
            return 50

        async with Context() as ctx:
            ctx.add_resource_factory(factory)
            ctx.add_resource(1)
            assert ctx.get_resources(int) == {"default": 1}
            assert ctx.get_resource_nowait(float) == 50
            assert ctx.get_resources(int) == {"default": 50}
            assert ctx.get_resource_nowait(int) == 1

    async def test_parent_and_child_views(self) -> None:
        async with Context() as parent:
            parent.add_resource("p", "from_parent")
            async with Context() as child:
                child.add_resource("c", "from_child")
                assert list(child.get_resources(str).items()) == [
                    ("from_parent", "p"),
                    ("from_child", "c"),
                ]
                assert parent.get_resources(str) == {"from_parent": "p"}
                assert get_resources(str) == child.get_resources(str)

            assert get_resources(str) == {"from_parent": "p"}

    async def test_type_with_custom_equality(self) -> None:
        """Membership in the container's types uses ``==`` after identity."""

        class Meta(type):
            def __eq__(cls, other: object) -> bool:
                return getattr(other, "__name__", None) == cls.__name__

            def __hash__(cls) -> int:
                return hash(cls.__name__)

        Alpha1 = Meta("Alpha", (), {})
        Alpha2 = Meta("Alpha", (), {})
        value = Alpha1()
        async with Context() as ctx:
            ctx.add_resource(value)
            assert ctx.get_resources(Alpha2) == {"default": value}
            assert ctx.get_resource_nowait(Alpha2) is value
            assert await ctx.get_resource(Alpha2) is value
