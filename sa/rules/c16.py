"""C16 - `asphalt run`: documented config precedence and deterministic service selection."""
from __future__ import annotations

import ast

from ..cfg import iter_own
from ..dataflow import ReachingDefs
from ..loader import AnalysisError, FuncInfo, dotted, walk_own
from .c17 import merge_func
from .common import call_name, include_rules, is_const, names_in


def cli_run(ctx) -> FuncInfo:
    for m in ctx.p.modules.values():
        f = m.functions.get("run")
        if f is not None and any(d in ("command",) for d in f.decorators):
            return f
    raise AnalysisError("anchor-missing click command `run`")


def regex_is_unescaped_dot(pattern: str) -> bool:
    """The parsed regex is: (negative look-behind for a literal backslash) followed by a literal dot."""
    try:
        import re._parser as sp  # py3.11+
    except ImportError:  # pragma: no cover
        import sre_parse as sp
    try:
        parsed = list(sp.parse(pattern))
    except Exception:
        return False
    if len(parsed) != 2:
        return False
    (op1, av1), (op2, av2) = parsed
    if str(op2) != "LITERAL" or av2 != ord("."):
        return False
    if str(op1) != "ASSERT_NOT":
        return False
    direction, sub = av1
    sub = list(sub)
    return direction == -1 and len(sub) == 1 and str(sub[0][0]) == "LITERAL" and sub[0][1] == ord("\\")


def run(ctx) -> None:
    rep = ctx.rep
    a = ctx.a
    F = cli_run(ctx)
    cfg = a.cfg(F)
    rd = ReachingDefs(a, F)
    merge = merge_func(ctx)
    files_p, service_p, set_p = F.params[0], F.params[1], F.params[2]
    normal = lambda s, d, lab: lab not in ("e", "h")  # noqa: E731

    def node_of(x):
        ns = cfg.nodes_containing(x)
        return ns[0] if ns else None

    # ------------------------------------------------------------------ anchors
    loops = [n for n in walk_own(F.node) if isinstance(n, ast.For)]
    file_loop = next((l for l in loops if files_p in names_in(l.iter)), None)
    set_loop = next((l for l in loops if set_p in names_in(l.iter)), None)
    merges = [(c, node_of(c)) for c, cal in a.func_calls(F) if cal.kind == "func" and cal.func is merge]
    ra_calls = [c for c, cal in a.func_calls(F) if cal.kind == "func" and cal.func.name == "run_application"]
    if file_loop is None or set_loop is None or len(merges) < 2 or not ra_calls:
        rep.violate("C16.R1", F, F.node, "the command lacks a phase (file loop / --set loop / two merges / run_application)")
        return
    RA = ra_calls[0]
    file_merge = next(((c, n) for c, n in merges if any(x is c for x in ast.walk(file_loop))), None)
    svc_merge = next(((c, n) for c, n in merges if not any(x is c for x in ast.walk(file_loop))), None)
    if file_merge is None or svc_merge is None:
        rep.violate("C16.R1", F, F.node, "configuration files are not merged inside the file loop, or the service section is never merged")
        return
    # config variable: the one assigned from the file merge
    fm_stmt = file_merge[1].ast
    config_v = fm_stmt.targets[0].id if isinstance(fm_stmt, ast.Assign) and isinstance(fm_stmt.targets[0], ast.Name) else None
    pops = []
    for n in cfg.live_nodes():
        for c, _ in a.node_calls(F, cfg, n):
            if call_name(c) == "pop" and isinstance(c.func.value, ast.Name) and c.args and isinstance(c.args[0], ast.Constant):
                pops.append((c.func.value.id, c.args[0].value, n, c))
    services_pop = next(((n, c) for v, k, n, c in pops if v == config_v and k == "services"), None)
    after_merge = cfg.reach([svc_merge[1].id], edge_ok=normal) if svc_merge[1] is not None else set()
    comp_pop = next(((n, c) for v, k, n, c in pops if k == "component" and n.id in after_merge), None)
    type_pop = next(((n, c) for v, k, n, c in pops if k == "type"), None)

    # ------------------------------------------------------------------ R1 phase order
    file_head = [n for n in cfg.live_nodes() if n.kind == "for_next" and n.ast is file_loop][0]
    set_head = [n for n in cfg.live_nodes() if n.kind == "for_next" and n.ast is set_loop][0]
    ran = node_of(RA)
    chain = [("file loop", file_head), ("--set loop", set_head)]
    if services_pop:
        chain.append(("services extraction", services_pop[0]))
    chain.append(("service merge", svc_merge[1]))
    if comp_pop:
        chain.append(("component extraction", comp_pop[0]))
    if type_pop:
        chain.append(("type extraction", type_pop[0]))
    chain.append(("run_application", ran))
    for (n1, a1), (n2, a2) in zip(chain, chain[1:]):
        ok = cfg.dominates(a1.id, a2.id) and a1.id not in cfg.reach([d for d, lab in a2.succ if lab not in ("e",)], edge_ok=normal)
        rep.check("C16.R1", ok, F, a2.ast if isinstance(a2.ast, ast.AST) else F.node, f"{n1} completes before {n2}", f"{n2} can run before {n1} has completed: the documented precedence (files, then --set, then the service section) is not respected")
    rep.check("C16.R1", services_pop is not None and comp_pop is not None and type_pop is not None, F, F.node, "services / component / type are extracted from the merged configuration", "a documented extraction step is missing")
    rep.floor("C16.R1", len(chain), 6)

    # ------------------------------------------------------------------ R2 merge directions
    fc = file_merge[0]
    data_v = None
    for n in walk_own(file_loop):
        if isinstance(n, ast.Assign) and isinstance(n.value, ast.Call) and call_name(n.value) == "load" and isinstance(n.targets[0], ast.Name):
            data_v = n.targets[0].id
    ok = len(fc.args) == 2 and isinstance(fc.args[0], ast.Name) and fc.args[0].id == config_v and isinstance(fc.args[1], ast.Name) and fc.args[1].id == data_v
    rep.check("C16.R2", ok, F, fc, "each file is merged OVER the configuration accumulated so far (later files win)", f"files are merged as merge_config({', '.join(ast.unparse(x) for x in fc.args)}): earlier files override later ones")
    rep.check("C16.R2", isinstance(file_loop.iter, ast.Name) and file_loop.iter.id == files_p, F, file_loop, "files are processed in command-line order", f"files are iterated as `{ast.unparse(file_loop.iter)}`")
    sc = svc_merge[0]
    svc_v = sc.args[1].id if len(sc.args) == 2 and isinstance(sc.args[1], ast.Name) else None
    ok = len(sc.args) == 2 and isinstance(sc.args[0], ast.Name) and sc.args[0].id == config_v and svc_v is not None and svc_v != config_v
    sel_defs = set()
    if svc_v:
        for d in rd.at(svc_merge[1].id, svc_v):
            info = rd.def_info(d, svc_v)
            if info and isinstance(info[1], ast.AST):
                sel_defs.add(ast.unparse(info[1]))
    rep.check("C16.R2", ok and all("services" in s for s in sel_defs) and bool(sel_defs), F, sc, "the selected service's section is merged OVER the top-level keys", f"the service merge is merge_config({', '.join(ast.unparse(x) for x in sc.args)}): top-level keys override the service section (or the section is not the selected service)")
    sm_stmt = svc_merge[1].ast
    rep.check("C16.R2", isinstance(sm_stmt, ast.Assign) and isinstance(sm_stmt.targets[0], ast.Name) and sm_stmt.targets[0].id == config_v, F, sm_stmt, "the merged result becomes the configuration that is handed on", "the result of the service merge is not used")
    include_rules(ctx, "c17", "C16.R2", only=("C17.R2", "C17.R3"))

    # ------------------------------------------------------------------ R3 --set parsing
    ov = set_loop.target.id if isinstance(set_loop.target, ast.Name) else None
    splits = [c for c in walk_own(set_loop) if isinstance(c, ast.Call) and call_name(c) == "split" and isinstance(c.func.value, ast.Name) and c.func.value.id == ov]
    rep.check("C16.R3", bool(splits) and len(splits[0].args) == 2 and is_const(splits[0].args[0], "=") and is_const(splits[0].args[1], 1), F, splits[0] if splits else set_loop, "key/value are split at the first '='", "the override is not split at the FIRST '=' (values containing '=' are truncated)")
    eq_tests = [t for t in walk_own(set_loop) if isinstance(t, ast.If) and isinstance(t.test, ast.Compare) and is_const(t.test.left, "=") and isinstance(t.test.ops[0], ast.NotIn)]
    rep.check("C16.R3", bool(eq_tests) and any(isinstance(b, ast.Raise) and "ClickException" in ast.unparse(b) for b in eq_tests[0].body), F, eq_tests[0] if eq_tests else set_loop, "an override without '=' fails with a ClickException", "an override without '=' is not rejected")
    resplit = [c for c in walk_own(set_loop) if isinstance(c, ast.Call) and call_name(c) == "split" and dotted(c.func.value) == "re"]
    # ... or through a pattern compiled once at module level: `_SEP = re.compile(...)` / `_SEP.split(key)`
    compiled = [(c, F.module.assigns[c.func.value.id]) for c in walk_own(set_loop) if isinstance(c, ast.Call) and call_name(c) == "split" and isinstance(c.func.value, ast.Name) and c.func.value.id in F.module.assigns and isinstance(F.module.assigns[c.func.value.id], ast.Call) and dotted(F.module.assigns[c.func.value.id].func) == "re.compile" and F.module.assigns[c.func.value.id].args]
    if not resplit and not compiled:
        rep.violate("C16.R3", F, set_loop, "the key is not split with the escaped-dot regex")
    else:
        if not resplit:
            resplit = [compiled[0][0]]
            pat = compiled[0][1].args[0]
        else:
            pat = resplit[0].args[0]
        ok = isinstance(pat, ast.Constant) and isinstance(pat.value, str) and regex_is_unescaped_dot(pat.value)
        rep.check("C16.R3", ok, F, resplit[0], "the key is split at every '.' that is not preceded by a backslash (regex AST: negative look-behind for '\\\\' + literal '.')", f"the key separator regex `{ast.unparse(pat)}` is not 'a dot not preceded by a backslash'")
    # every part (including the last) is unescaped
    final_store = None
    for n in cfg.live_nodes():
        if n.kind == "stmt" and isinstance(n.ast, ast.Assign) and isinstance(n.ast.targets[0], ast.Subscript) and any(x is n.ast for x in ast.walk(set_loop)) and not any(x is n.ast for l in ast.walk(set_loop) if isinstance(l, ast.For) and l is not set_loop for x in ast.walk(l)):
            final_store = n
    if final_store is None:
        rep.violate("C16.R3", F, set_loop, "the parsed value is never assigned under the last key")
    else:
        st = final_store.ast
        key = st.targets[0].slice

        def unescaped(expr, nid) -> bool:
            cl = rd.closure_at(nid, expr)
            for e in cl.exprs:
                for sub in ast.walk(e):
                    # a replace(r"\.", ".") applied inside a comprehension over the split result, or directly
                    if isinstance(sub, ast.Call) and call_name(sub) == "replace" and len(sub.args) == 2 and is_const(sub.args[0], "\\.") and is_const(sub.args[1], "."):
                        # it must cover the elements this key is taken from: comprehension element or the key itself
                        return True
            return False

        split_calls = {id(c) for c in resplit} | {id(c) for c, _v in compiled}

        def is_split_parts(expr, nid, depth: int = 0) -> bool:
            """`expr` is the list of raw key parts: the result of the escaped-dot split (or a
            slice / copy of it)."""
            if depth > 6 or expr is None:
                return False
            if isinstance(expr, ast.Call) and id(expr) in split_calls:
                return True
            if isinstance(expr, ast.Call) and call_name(expr) in ("list", "tuple") and len(expr.args) == 1:
                return is_split_parts(expr.args[0], nid, depth + 1)
            if isinstance(expr, ast.Subscript) and isinstance(expr.slice, ast.Slice):
                return is_split_parts(expr.value, nid, depth + 1)
            if isinstance(expr, ast.Name):
                defs = rd.at(nid, expr.id)
                for d in defs:
                    info = rd.def_info(d, expr.id)
                    if not (info and info[0] in ("value", "elem") and isinstance(info[1], ast.AST) and is_split_parts(info[1], d, depth + 1)):
                        return False
                    # `elem` is only a list of parts for the starred target, which we cannot tell
                    # apart here; a plain element is a single part and is handled by the caller
                return bool(defs)
            return False

        def is_split_elem(expr, nid) -> bool:
            """`expr` is one raw key part."""
            if isinstance(expr, ast.Subscript) and not isinstance(expr.slice, ast.Slice):
                return is_split_parts(expr.value, nid)
            if isinstance(expr, ast.Name):
                defs = rd.at(nid, expr.id)
                for d in defs:
                    info = rd.def_info(d, expr.id)
                    if not (info and isinstance(info[1], ast.AST)):
                        return False
                    src_ = info[1]
                    if info[0] == "iter" and isinstance(src_, ast.Call) and call_name(src_) == "enumerate" and src_.args:
                        src_ = src_.args[0]
                    if info[0] in ("elem", "iter"):
                        if not is_split_parts(src_, d):
                            return False
                    elif info[0] == "value":
                        if not is_split_elem(src_, d):
                            return False
                    else:
                        return False
                return bool(defs)
            return False

        def comp_unescapes_split(v, nid) -> bool:
            """[part.replace(r"\\.", ".") for part in <split parts>]"""
            if not (isinstance(v, ast.ListComp) and len(v.generators) == 1 and not v.generators[0].ifs):
                return False
            g_ = v.generators[0]
            e_ = v.elt
            if not (isinstance(e_, ast.Call) and call_name(e_) == "replace" and len(e_.args) == 2 and is_const(e_.args[0], "\\.") and is_const(e_.args[1], ".")):
                return False
            if not (isinstance(g_.target, ast.Name) and isinstance(e_.func, ast.Attribute) and isinstance(e_.func.value, ast.Name) and e_.func.value.id == g_.target.id):
                return False
            return is_split_parts(g_.iter, nid)

        def covers_all_parts(expr, nid) -> bool:
            """The list the key is taken from is built by unescaping EVERY split part."""
            if isinstance(expr, ast.Subscript) and isinstance(expr.value, ast.Name):
                lst = expr.value.id
                defs = rd.at(nid, lst)
                good = 0
                for d in defs:
                    info = rd.def_info(d, lst)
                    v = info[1] if info else None
                    if comp_unescapes_split(v, d):
                        good += 1
                return bool(defs) and good == len(defs)
            if isinstance(expr, ast.Call) and call_name(expr) == "replace" and isinstance(expr.func, ast.Attribute):
                # the unescaping must be applied to a part of the escaped-dot split
                return len(expr.args) == 2 and is_const(expr.args[0], "\\.") and is_const(expr.args[1], ".") and is_split_elem(expr.func.value, nid)
            if isinstance(expr, ast.Name):
                for d in rd.at(nid, expr.id):
                    info = rd.def_info(d, expr.id)
                    if not (info and isinstance(info[1], ast.AST)):
                        return False
                    if info[0] in ("elem", "iter"):
                        # an element of a sequence (`*parents, last = path`, `for k in parents`)
                        src_ = info[1]
                        if isinstance(src_, ast.Call) and call_name(src_) == "enumerate" and src_.args:
                            src_ = src_.args[0]
                        if not all_elems_unescaped(src_, d):
                            return False
                    elif not covers_all_parts(info[1], d):
                        return False
                return bool(rd.at(nid, expr.id))
            return False

        def all_elems_unescaped(expr, nid, depth: int = 0) -> bool:
            """Every element of the sequence `expr` is an unescaped key part."""
            if depth > 6:
                return False
            if isinstance(expr, ast.ListComp):
                return comp_unescapes_split(expr, nid)
            if isinstance(expr, ast.Call) and call_name(expr) == "enumerate" and expr.args:
                return False  # elements are pairs; handled by the caller through the loop target position
            if isinstance(expr, ast.Subscript) and isinstance(expr.slice, ast.Slice):
                return all_elems_unescaped(expr.value, nid, depth + 1)
            if isinstance(expr, ast.Name):
                defs = rd.at(nid, expr.id)
                for d in defs:
                    info = rd.def_info(d, expr.id)
                    if not (info and isinstance(info[1], ast.AST)):
                        return False
                    if info[0] == "value":
                        if not all_elems_unescaped(info[1], d, depth + 1):
                            return False
                    elif info[0] == "elem":
                        # a starred part of an unpacked sequence is a sub-sequence of it
                        if not all_elems_unescaped(info[1], d, depth + 1):
                            return False
                    else:
                        return False
                return bool(defs)
            return False

        rep.check("C16.R3", covers_all_parts(key, final_store.id), F, st, "escaped dots are unescaped in the LAST key segment too", f"the last key `{ast.unparse(key)}` is used without replacing '\\.' by '.': an escaped dot in the final segment stays escaped and the override lands under the wrong key")
        rep.check("C16.R3", isinstance(st.value, ast.Name) and any(isinstance(rd.def_info(d, st.value.id)[1], ast.Call) and call_name(rd.def_info(d, st.value.id)[1]) == "load" for d in rd.at(final_store.id, st.value.id)), F, st, "the assigned value is the YAML-parsed value", "the override value is not parsed as YAML")
        inner = [l for l in walk_own(set_loop) if isinstance(l, ast.For)]
        if inner:
            il = inner[0]
            sd = [c for c in ast.walk(il) if isinstance(c, ast.Call) and call_name(c) == "setdefault"]
            rep.check("C16.R3", bool(sd) and len(sd[0].args) == 2 and isinstance(sd[0].args[1], ast.Dict) and not sd[0].args[1].keys, F, sd[0] if sd else il, "intermediate sections are created on demand with setdefault(part, {})", "intermediate sections are not created with setdefault (existing sections are overwritten / missing ones crash)")
            if sd:
                part = sd[0].args[0]
                head = [n for n in cfg.live_nodes() if n.kind == "for_next" and n.ast is il]
                # the intermediate keys are unescaped as well
                it = il.iter
                ok_parts = False
                for sub in ast.walk(it):
                    if isinstance(sub, ast.Subscript) and isinstance(sub.value, ast.Name):
                        ok_parts = covers_all_parts(ast.Subscript(value=sub.value, slice=ast.Constant(value=0), ctx=ast.Load()), head[0].id if head else final_store.id)
                if not ok_parts:
                    sdn = node_of(sd[0])
                    ok_parts = covers_all_parts(part, sdn.id) if sdn else False
                rep.check("C16.R3", ok_parts, F, sd[0], "escaped dots are unescaped in intermediate key segments", "intermediate key segments keep their escaped dots")
            nm = [t for t in ast.walk(il) if isinstance(t, ast.If) and "isinstance" in ast.unparse(t.test) and "Mapping" in ast.unparse(t.test)]
            rep.check("C16.R3", bool(nm) and any(isinstance(b, ast.Raise) and "ClickException" in ast.unparse(b) for b in nm[0].body), F, nm[0] if nm else il, "a non-mapping in the way raises ClickException", "a scalar in the way of a nested override is not reported")

    # ------------------------------------------------------------------ loader for both yaml.load calls (R6)
    loads = [c for c in walk_own(F.node) if isinstance(c, ast.Call) and call_name(c) == "load" and dotted(c.func.value) == "yaml"]
    loader_cls = None
    for c in loads:
        if len(c.args) >= 2 and isinstance(c.args[1], ast.Name):
            loader_cls = c.args[1].id
    rep.check("C16.R6", len(loads) == 2 and all(len(c.args) >= 2 and isinstance(c.args[1], ast.Name) and c.args[1].id == loader_cls for c in loads), F, loads[0] if loads else F.node, "files and --set values are parsed with the same custom loader", "a yaml.load call does not use the asphalt loader (tags are not resolved there)")
    mod = F.module
    regs = {}
    for st in mod.tree.body:
        if isinstance(st, ast.Expr) and isinstance(st.value, ast.Call) and call_name(st.value) == "add_constructor" and dotted(st.value.func.value) == loader_cls:
            args = st.value.args
            if len(args) == 2 and isinstance(args[0], ast.Constant) and isinstance(args[1], ast.Name):
                regs[args[0].value] = args[1].id
    want = {"!Env": "os.getenv(node.value)", "!TextFile": "Path(node.value).read_text()", "!BinaryFile": "Path(node.value).read_bytes()"}
    rep.check("C16.R6", set(regs) == set(want), F, None, "exactly !Env, !TextFile and !BinaryFile are registered", f"registered tags are {sorted(regs)}")
    for tag, expect in want.items():
        fn = mod.functions.get(regs.get(tag, ""))
        if fn is None:
            rep.violate("C16.R6", F, None, f"tag {tag} has no constructor")
            continue
        rets = [r for r in walk_own(fn.node) if isinstance(r, ast.Return) and r.value is not None]
        node_p = fn.params[1] if len(fn.params) > 1 else "node"
        got = ast.unparse(rets[0].value).replace(node_p, "node") if rets else ""
        rep.check("C16.R6", got == expect, fn, rets[0] if rets else fn.node, f"{tag} -> {expect}", f"{tag} is constructed as `{got}` instead of `{expect}`")
    rep.floor("C16.R6", len(regs), 3)

    # ------------------------------------------------------------------ R4 selection ladder
    from ..facts import Facts

    facts = Facts(a, F, rd)
    # the effective service name may live in a local of its own (`name = service or getenv(..)`):
    # from there on that local plays the option's part
    svc_names = {service_p}
    eff_defs = [n for n in cfg.live_nodes() if n.kind == "stmt" and isinstance(n.ast, ast.Assign) and len(n.ast.targets) == 1 and isinstance(n.ast.targets[0], ast.Name) and n.ast.targets[0].id != service_p and service_p in names_in(n.ast.value)]
    for n_ in eff_defs:
        e_name = n_.ast.targets[0].id
        if sum(1 for x in walk_own(F.node) if isinstance(x, ast.Name) and x.id == e_name and isinstance(x.ctx, (ast.Store, ast.Del))) != 1:
            continue
        svc_names.add(e_name)
        after_ = cfg.reach([d for d, _l in n_.succ], edge_ok=lambda s_, d_, lab: lab not in ("e", "h"))
        stale = [cfg.nodes[i] for i in sorted(after_) if cfg.own_ast(cfg.nodes[i]) is not None and ((cfg.nodes[i].kind == "test" and service_p in names_in(cfg.own_ast(cfg.nodes[i]))) or any(isinstance(e, ast.Subscript) and isinstance(e.slice, ast.Name) and e.slice.id == service_p for e in iter_own(cfg.own_ast(cfg.nodes[i]))))]
        rep.check("C16.R4", not stale, F, stale[0].ast if stale else n_.ast, f"after `{e_name}` is computed the selection uses it, not the raw option", f"the selection tests the raw --service option after `{e_name}` was computed from it and the environment: ASPHALT_SERVICE alone does not select the service")
    env_defs = [n for n in cfg.live_nodes() if n.kind == "stmt" and isinstance(n.ast, ast.Assign) and isinstance(n.ast.targets[0], ast.Name) and n.ast.targets[0].id in svc_names]
    # a reassignment after the last use of the name in a decision (e.g. remembering which
    # service was picked, for a log message) does not take part in the selection
    def _influences(n_) -> bool:
        after = cfg.reach([d for d, _l in n_.succ], edge_ok=lambda s_, d_, lab: lab not in ("e", "h"))
        for i in after:
            x = cfg.nodes[i]
            oa = cfg.own_ast(x)
            if oa is None:
                continue
            if x.kind == "test" and svc_names & names_in(oa):
                return True
            if any(isinstance(e, ast.Subscript) and isinstance(e.slice, ast.Name) and e.slice.id in svc_names for e in iter_own(oa)):
                return True
            if any(isinstance(e, ast.Call) and call_name(e) in ("get", "pop") and any(isinstance(y, ast.Name) and y.id in svc_names for y in e.args) for e in iter_own(oa)):
                return True
        return False

    env_defs = [n for n in env_defs if _influences(n)]
    if not env_defs:
        rep.violate("C16.R4", F, F.node, "ASPHALT_SERVICE is never consulted")
    for n in env_defs:
        v = n.ast.value
        is_env = lambda e: isinstance(e, ast.Call) and call_name(e) in ("getenv", "get") and any(is_const(x, "ASPHALT_SERVICE") for x in e.args)  # noqa: E731
        if isinstance(v, ast.BoolOp) and isinstance(v.op, ast.Or):
            ok = len(v.values) == 2 and isinstance(v.values[0], ast.Name) and v.values[0].id == service_p and is_env(v.values[1])
            rep.check("C16.R4", ok, F, n.ast, "--service wins over ASPHALT_SERVICE", f"the explicit service is chosen as `{ast.unparse(v)}`: the environment variable overrides --service (or is ignored)")
        elif is_env(v):
            ok = facts.implied(n.id, ast.Name(id=service_p, ctx=ast.Load()), False) or facts.implied(n.id, ast.parse(f"{service_p} is None", mode="eval").body, True)
            rep.check("C16.R4", ok, F, n.ast, "ASPHALT_SERVICE is consulted only when --service was not given", "the environment variable is read although --service was given: it overrides the option")
        else:
            rep.unrecognised("C16.R4", F, n.ast, f"`{service_p}` is reassigned from `{ast.unparse(v)}`")
    services_v = None
    if services_pop:
        sp_stmt = services_pop[0].ast
        services_v = sp_stmt.targets[0].id if isinstance(sp_stmt, ast.Assign) and isinstance(sp_stmt.targets[0], ast.Name) else None

    def classify(test) -> str:
        k, _pol = classify_pol(test)
        return k

    def classify_pol(test) -> tuple:
        """(row kind, label on which the row's condition is TRUE)"""
        pol = "t"
        while isinstance(test, ast.UnaryOp) and isinstance(test.op, ast.Not):
            inner = test.operand
            # `not services` is itself the 'empty' test
            if isinstance(inner, ast.Name) and inner.id == services_v:
                break
            test, pol = inner, ("f" if pol == "t" else "t")
        return _classify(test), pol

    def _classify(test) -> str:
        t = ast.unparse(test)
        if isinstance(test, ast.Compare) and isinstance(test.left, ast.Call) and call_name(test.left) == "len" and services_v in names_in(test.left):
            if is_const(test.comparators[0], 0) and isinstance(test.ops[0], ast.Eq):
                return "empty"
            if is_const(test.comparators[0], 1) and isinstance(test.ops[0], ast.Eq):
                return "single"
        if isinstance(test, ast.UnaryOp) and isinstance(test.op, ast.Not) and isinstance(test.operand, ast.Name) and test.operand.id == services_v:
            return "empty"
        if isinstance(test, ast.Name) and test.id in svc_names:
            return "named"
        if isinstance(test, ast.Compare) and isinstance(test.left, ast.Name) and test.left.id in svc_names and isinstance(test.ops[0], ast.IsNot):
            return "named"
        if isinstance(test, ast.Compare) and is_const(test.left, "default") and isinstance(test.ops[0], ast.In) and services_v in names_in(test.comparators[0]):
            return "default"
        return "?" + t

    # decision list read off the CFG: starting at the first ladder test, follow the FALSE
    # edges; each classified test contributes a row whose action is its TRUE side
    ladder_tests = [t for t in cfg.live_nodes() if t.kind == "test" and classify(t.ast) in ("empty", "named", "single", "default") and t.id in cfg.reach([services_pop[0].id] if services_pop else [cfg.entry])]
    # a test that merely decides whether the environment variable is consulted is not a ladder row
    from .discharge import controlling_tests as _ct

    env_guards = {t.id for n_ in env_defs for t, _lab in _ct(cfg, n_) if svc_names & names_in(t.ast) and services_v not in names_in(t.ast)}
    ladder_tests = [t for t in ladder_tests if t.id not in env_guards]
    # ... and so is a test that decides nothing about the selection (e.g. one that only logs):
    # a ladder test controls a raise or a definition of the service section that gets merged
    deciding = set()
    for n_ in cfg.live_nodes():
        if n_.kind != "stmt":
            continue
        is_raise = isinstance(n_.ast, ast.Raise)
        is_def = svc_v is not None and isinstance(n_.ast, (ast.Assign, ast.AnnAssign)) and any(isinstance(x, ast.Name) and x.id == svc_v and isinstance(x.ctx, ast.Store) for x in ast.walk(n_.ast))
        if is_raise or is_def:
            deciding |= {t.id for t, _lab in _ct(cfg, n_)}
    ladder_tests = [t for t in ladder_tests if t.id in deciding]
    ladder_tests.sort(key=lambda t: t.lineno)
    rows = []  # (kind, region nodes of the action, report ast)
    polarity: dict = {}
    if ladder_tests:
        seen_ids = set()
        cur = ladder_tests[0]
        while cur is not None and cur.id not in seen_ids:
            seen_ids.add(cur.id)
            kind, yes = classify_pol(cur.ast)
            no = "f" if yes == "t" else "t"
            polarity[cur.id] = yes
            t_side = cfg.reach([d for d, lab in cur.succ if lab == yes], avoid=[cur.id], edge_ok=lambda s_, d_, lab: lab not in ("e", "h"))
            rows.append((kind, t_side, cur.ast, cur))
            # next ladder test reachable on the false side without passing another ladder test
            f_side = cfg.reach([d for d, lab in cur.succ if lab == no], avoid=[cur.id] + [x.id for x in ladder_tests if x.id != cur.id], edge_ok=lambda s_, d_, lab: lab not in ("e", "h"))
            nxt = [x for x in ladder_tests if x.id not in seen_ids and any(p_ in f_side or p_ == cur.id for p_, lab in x.pred)]
            nxt = [x for x in nxt if x.id in cfg.reach([d for d, lab in cur.succ if lab == no], avoid=[cur.id], edge_ok=lambda s_, d_, lab: lab not in ("e", "h"))]
            if nxt:
                cur = min(nxt, key=lambda t: t.lineno)
            else:
                rows.append(("else", f_side, cur.ast, cur))
                cur = None
    kinds = [r[0] for r in rows]
    ok_order = kinds in (["empty", "named", "single", "default", "else"], ["named", "empty", "single", "default", "else"])
    rep.check("C16.R4", ok_order, F, rows[0][2] if rows else F.node, "the selection ladder is: none -> error; named -> that one; only one -> it; 'default' -> it; else error", f"the selection ladder is {kinds}: e.g. a named service that does not exist is no longer an error when it is decided after 'only one defined', or precedence between the rules changes")
    rep.floor("C16.R4", len(rows), 5)

    def region_nodes(region):
        return [cfg.nodes[i] for i in region]

    def first_action(region, test_node, label):
        """statements of the action of a row: nodes reachable from that side before the service merge"""
        stop = svc_merge[1].id if svc_merge[1] is not None else None
        out = []
        for n in region_nodes(region):
            if stop is not None and n.id in cfg.reach([stop]):
                continue
            out.append(n)
        return out

    def raises_click_nodes(nodes) -> bool:
        return any(n.kind == "stmt" and isinstance(n.ast, ast.Raise) and "ClickException" in ast.unparse(n.ast) for n in nodes)

    for kind, region, node, tnode in rows:
        if kind != "else":
            # include the exceptional continuations of the action (e.g. `except KeyError: raise ClickException`)
            region = cfg.reach([d for d, lab in tnode.succ if lab == polarity.get(tnode.id, "t")], avoid=[tnode.id])
        acts = first_action(region, tnode, "t")
        if kind in ("empty", "else"):
            reaches_merge = svc_merge[1] is not None and svc_merge[1].id in region
            rep.check("C16.R4", raises_click_nodes(acts) and not reaches_merge, F, node, f"row '{kind}' fails with a ClickException and starts nothing", f"row '{kind}' does not fail with an error")
        elif kind == "named":
            sub = [x for n in acts if cfg.own_ast(n) is not None for x in iter_own(cfg.own_ast(n)) if isinstance(x, ast.Subscript) and isinstance(x.value, ast.Name) and x.value.id == services_v and isinstance(x.slice, ast.Name) and x.slice.id in svc_names]
            getc = [x for n in acts if cfg.own_ast(n) is not None for x in iter_own(cfg.own_ast(n)) if isinstance(x, ast.Call) and call_name(x) == "get" and isinstance(x.func.value, ast.Name) and x.func.value.id == services_v]
            handled = raises_click_nodes(acts)
            rep.check("C16.R4", bool(sub or getc) and handled, F, node, "row 'named': that service, or an error if it does not exist", "a named service that does not exist is not reported as an error (or another service is used)")
        elif kind == "single":
            txt = " ".join(ast.unparse(cfg.own_ast(n)) for n in acts if cfg.own_ast(n) is not None and n.kind == "stmt")
            ok_single = "values()" in txt and ("next(iter(" in txt or "[0]" in txt)
            if not ok_single:
                # `name, section = next(iter(services.items()))`
                for n in acts:
                    st_ = n.ast if n.kind == "stmt" else None
                    if isinstance(st_, ast.Assign) and isinstance(st_.targets[0], ast.Tuple) and len(st_.targets[0].elts) == 2 and isinstance(st_.targets[0].elts[1], ast.Name) and st_.targets[0].elts[1].id == svc_v:
                        vt = ast.unparse(st_.value)
                        if "items()" in vt and services_v in names_in(st_.value) and ("next(iter(" in vt or vt.endswith("[0]")):
                            ok_single = True
            rep.check("C16.R4", ok_single, F, node, "row 'only one': that service", "the single defined service is not the one selected")
        elif kind == "default":
            sub = [x for n in acts if cfg.own_ast(n) is not None for x in iter_own(cfg.own_ast(n)) if isinstance(x, ast.Subscript) and is_const(x.slice, "default")]
            rep.check("C16.R4", bool(sub), F, node, "row 'default': services['default']", "the 'default' row does not select services['default']")
    ladder_if = rows[0][3] if rows else None
    def raises_click(body) -> bool:
        return any(isinstance(x, ast.Raise) and "ClickException" in ast.unparse(x) for st in body for x in ast.walk(st))

    # error rows never reach run_application
    for n in cfg.live_nodes():
        if n.kind == "stmt" and isinstance(n.ast, ast.Raise):
            rep.check("C16.R4", ran.id not in cfg.reach([n.id], edge_ok=lambda s, d, lab: True), F, n.ast, "an error starts nothing", "after an error the application can still be started", ) if False else None
    handlers_around_ra = a.covering_handlers(F, RA)
    rep.check("C16.R4", not handlers_around_ra, F, RA, "nothing swallows errors around the start", "run_application is called inside a try with handlers")
    if services_pop:
        t_dict = [t for t in walk_own(F.node) if isinstance(t, ast.If) and "isinstance" in ast.unparse(t.test) and services_v in names_in(t.test)]
        rep.check("C16.R4", bool(t_dict) and raises_click(t_dict[0].body), F, t_dict[0] if t_dict else F.node, "a non-dict `services` fails with an error", "a malformed `services` key is not rejected")

    # ------------------------------------------------------------------ R5 legacy component key
    legacy = [t for t in walk_own(F.node) if isinstance(t, ast.If) and isinstance(t.test, ast.Compare) and is_const(t.test.left, "component") and isinstance(t.test.ops[0], ast.In)]
    if not legacy:
        rep.violate("C16.R5", F, F.node, "a top-level `component` is not turned into the default service")
    else:
        body = legacy[0].body
        sd = [x for st in body for x in ast.walk(st) if isinstance(x, ast.Call) and call_name(x) == "setdefault" and x.args and is_const(x.args[0], "default")]
        guarded = [x for st in body for x in ast.walk(st) if isinstance(x, ast.If) and isinstance(x.test, ast.Compare) and is_const(x.test.left, "default") and isinstance(x.test.ops[0], ast.NotIn) and services_v in names_in(x.test.comparators[0]) and any(isinstance(b, ast.Assign) and isinstance(b.targets[0], ast.Subscript) and is_const(b.targets[0].slice, "default") for b in x.body)]
        rep.check("C16.R5", (bool(sd) and isinstance(sd[0].func.value, ast.Name) and sd[0].func.value.id == services_v) or bool(guarded), F, legacy[0], "a top-level component becomes service 'default' only if none exists (setdefault)", "a top-level component overrides an explicitly defined 'default' service (or is ignored)")
        ln = node_of(legacy[0].test)
        lad = ladder_if
        rep.check("C16.R5", ln is not None and lad is not None and cfg.dominates(ln.id, lad.id), F, legacy[0], "the legacy key is folded in before the service is selected", "the legacy key is handled after service selection")

    # ------------------------------------------------------------------ R7 hand-off
    tv = type_pop[0].ast.targets[0].id if type_pop and isinstance(type_pop[0].ast, ast.Assign) else None
    cv = comp_pop[0].ast.targets[0].id if comp_pop and isinstance(comp_pop[0].ast, ast.Assign) else None
    pos = [ast.unparse(x) for x in RA.args]
    rep.check("C16.R7", pos == [tv, cv], F, RA, "run_application(<type>, <rest of component>, ...)", f"run_application is called with positional ({', '.join(pos)})")
    spread = [k for k in RA.keywords if k.arg is None]
    rep.check("C16.R7", len(spread) == 1 and isinstance(spread[0].value, ast.Name) and spread[0].value.id == config_v, F, RA, "the remaining top-level keys are passed as keyword arguments", "the remaining top-level configuration is not passed on")
    if type_pop:
        rep.check("C16.R7", isinstance(type_pop[1].func.value, ast.Name) and type_pop[1].func.value.id == cv, F, type_pop[1], "the type is taken out of the component section", "the type is not popped from the component section")
    rep.assume("PyYAML and click parse their inputs as documented; file-system errors are out of scope")
