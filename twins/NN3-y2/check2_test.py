"""
Behaviour checks for refactoring 2 (resource type normalisation split out of
``Context.add_resource`` / ``Context.add_resource_factory`` into helper functions).

Passes on the unchanged source and with refactor2.diff applied.
"""

from __future__ import annotations

import sys
from collections.abc import AsyncGenerator
from contextlib import asynccontextmanager
from functools import partial
from itertools import count
from typing import Any, List, Optional, Union

import pytest
from anyio import create_task_group, wait_all_tasks_blocked
from anyio.abc import TaskStatus

from asphalt.core import (
    AsyncResourceError,
    Context,
    ResourceConflict,
    ResourceEvent,
    ResourceNotFound,
    add_resource,
    add_resource_factory,
    get_resource_nowait,
)

pytestmark = pytest.mark.anyio()

NoneType = type(None)


@pytest.fixture
async def context() -> AsyncGenerator[Context, None]:
    async with Context() as ctx:
        yield ctx


@asynccontextmanager
async def record_events(ctx: Context) -> AsyncGenerator[list[ResourceEvent], None]:
    """Collect the ``resource_added`` events dispatched within the block."""
    events: list[ResourceEvent] = []

    async def listen(task_status: TaskStatus[None]) -> None:
        async with ctx.resource_added.stream_events() as stream:
            task_status.started()
            async for event in stream:
                events.append(event)

    async with create_task_group() as tg:
        await tg.start(listen)
        yield events
        await wait_all_tasks_blocked()
        tg.cancel_scope.cancel()


def event_tuple(event: ResourceEvent) -> tuple[Any, ...]:
    return (
        event.resource_types,
        event.resource_name,
        event.resource_description,
        event.is_factory,
    )


class Base:
    pass


class Derived(Base):
    pass


class TruthyMeta(type):
    def __bool__(cls) -> bool:
        return False


class FalsyClass(metaclass=TruthyMeta):
    pass


class TestAddResourceTypes:
    async def test_explicit_types_vs_value_type(self, context: Context) -> None:
        value = Derived()
        async with record_events(context) as events:
            context.add_resource(value, "explicit", Base)
            context.add_resource(value, "implicit")
            context.add_resource(value, "both", (Base, Derived), description="d")

        assert context.get_resources(Base) == {"explicit": value, "both": value}
        assert context.get_resources(Derived) == {"implicit": value, "both": value}
        assert [event_tuple(e) for e in events] == [
            ((Base,), "explicit", None, False),
            ((Derived,), "implicit", None, False),
            ((Base, Derived), "both", "d", False),
        ]

    async def test_falsy_class_is_ignored(self, context: Context) -> None:
        # A class whose truth value is False counts as "no types given"
        context.add_resource(4, types=FalsyClass)
        assert context.get_resource_nowait(int) == 4
        assert context.get_resource_nowait(FalsyClass, optional=True) is None

    async def test_falsy_class_in_sequence(self, context: Context) -> None:
        context.add_resource(4, types=[FalsyClass, int])
        assert context.get_resource_nowait(FalsyClass) == 4

    @pytest.mark.parametrize(
        "generic",
        [List[int], list[int], Union[int, str], Optional[int], type[int]],
        ids=["typing_list", "builtin_list", "union", "optional", "type"],
    )
    async def test_generic_alias(self, context: Context, generic: Any) -> None:
        context.add_resource(4, types=generic)
        context.add_resource(5, "seq", types=[generic, int])
        assert context.get_resource_nowait(generic) == 4
        assert context.get_resource_nowait(generic, "seq") == 5
        assert context.get_resource_nowait(int, optional=True) is None

    @pytest.mark.skipif(sys.version_info < (3, 10), reason="needs X | Y")
    async def test_pep604_union(self, context: Context) -> None:
        context.add_resource(4, types=eval("int | str"))
        assert context.get_resource_nowait(Union[int, str]) == 4  # type: ignore[arg-type]

    @pytest.mark.parametrize(
        "bad_types",
        [
            pytest.param([int, "x", 5], id="second_of_three"),
            pytest.param(("x",), id="only"),
            pytest.param([int, float, None], id="none_last"),
            pytest.param(7, id="int"),
            pytest.param(len, id="function"),
            pytest.param(iter([int]), id="iterator"),
        ],
    )
    async def test_bad_types(self, context: Context, bad_types: Any) -> None:
        with pytest.raises(TypeError) as exc:
            context.add_resource(4, types=bad_types)

        assert str(exc.value) == "types must be a type or sequence of types"
        assert exc.value.__cause__ is None
        assert exc.value.__context__ is None
        assert context.get_resources(int) == {}

    async def test_custom_sequence(self, context: Context) -> None:
        from collections import UserList, deque

        context.add_resource(4, "ul", UserList([int, float]))
        assert context.get_resource_nowait(float, "ul") == 4
        # deque is registered as a (Mutable)Sequence
        context.add_resource(4, "dq", deque([int, float]))
        assert context.get_resource_nowait(float, "dq") == 4

    async def test_type_errors_precede_none_value(self, context: Context) -> None:
        with pytest.raises(TypeError, match="types must be a type"):
            context.add_resource(None, types=["x"])

        with pytest.raises(ValueError, match='"value" must not be None'):
            context.add_resource(None, types=[int])

        with pytest.raises(ValueError, match='"value" must not be None'):
            context.add_resource(None)


class TestFactoryTypes:
    async def test_union_annotation(self, context: Context) -> None:
        def factory() -> Union[int, float]:
            return next(counter)

        counter = count(1)
        async with record_events(context) as events:
            context.add_resource_factory(factory, description="numbers")
            assert context.get_resource_nowait(float) == 1
            assert context.get_resource_nowait(int) == 1
            assert await context.get_resource(int) == 1

        assert [event_tuple(e) for e in events] == [
            ((int, float), "default", "numbers", True),
            ((int, float), "default", "numbers", False),
        ]

    @pytest.mark.skipif(sys.version_info < (3, 10), reason="needs X | Y")
    async def test_pep604_annotation(self, context: Context) -> None:
        def factory() -> int | str | bytes:
            return 7

        async with record_events(context) as events:
            context.add_resource_factory(factory, "u")

        assert [event_tuple(e) for e in events] == [
            ((int, str, bytes), "u", None, True)
        ]
        assert context.get_resource_nowait(bytes, "u") == 7
        assert context.get_resource_nowait(str, "u") == 7

    async def test_optional_annotation_registers_nonetype(
        self, context: Context
    ) -> None:
        def factory() -> Optional[int]:
            return 3

        async with record_events(context) as events:
            context.add_resource_factory(factory)

        assert events[0].resource_types == (int, NoneType)
        assert context.get_resource_nowait(NoneType) == 3  # type: ignore[comparison-overlap]

    async def test_none_annotation(self, context: Context) -> None:
        def factory() -> None:
            return None

        async with record_events(context) as events:
            context.add_resource_factory(factory)

        assert events[0].resource_types == (NoneType,)

    async def test_plain_and_generic_annotation(self, context: Context) -> None:
        def plain() -> Base:
            return Derived()

        def generic() -> List[int]:
            return [1]

        async def async_generic() -> dict[str, Union[int, str]]:
            return {"a": 1}

        async with record_events(context) as events:
            context.add_resource_factory(plain)
            context.add_resource_factory(generic)
            context.add_resource_factory(async_generic)

        assert [e.resource_types for e in events] == [
            (Base,),
            (List[int],),
            (dict[str, Union[int, str]],),
        ]
        assert isinstance(context.get_resource_nowait(Base), Derived)
        assert context.get_resource_nowait(List[int]) == [1]  # type: ignore[arg-type]
        with pytest.raises(AsyncResourceError):
            context.get_resource_nowait(dict[str, Union[int, str]])

        assert await context.get_resource(dict[str, Union[int, str]]) == {"a": 1}

    async def test_missing_annotation(self, context: Context) -> None:
        def factory(arg: int = 1):  # type: ignore[no-untyped-def]
            return arg

        for callback in (factory, lambda: 1):
            with pytest.raises(ValueError) as exc:
                context.add_resource_factory(callback)

            assert str(exc.value) == (
                "no resource types specified, and the factory callback does not "
                "have a return type hint"
            )
            assert exc.value.__cause__ is None
            assert exc.value.__suppress_context__ is True
            assert isinstance(exc.value.__context__, KeyError)

    async def test_unresolvable_annotation(self, context: Context) -> None:
        def factory() -> "DoesNotExist":  # type: ignore[name-defined]  # noqa: F821,UP037
            return 1

        with pytest.raises(NameError, match="DoesNotExist"):
            context.add_resource_factory(factory)

        # Explicit types take precedence, so the annotation is never looked at
        context.add_resource_factory(factory, types=int)
        assert context.get_resource_nowait(int) == 1

    async def test_callable_without_annotations(self, context: Context) -> None:
        callback = partial(int, "5")
        with pytest.raises(TypeError, match="is not a module, class, method, or func"):
            context.add_resource_factory(callback)

        context.add_resource_factory(callback, types=[int])
        assert context.get_resource_nowait(int) == 5

    async def test_explicit_types_forms(self, context: Context) -> None:
        async with record_events(context) as events:
            context.add_resource_factory(lambda: 1, "single", types=int)
            context.add_resource_factory(lambda: 2, "list", types=[int, float])
            context.add_resource_factory(lambda: 3, "tuple", types=(int, float))
            context.add_resource_factory(lambda: [4], "generic", types=List[int])
            # Resource factory types are not validated, and a string is a sequence
            context.add_resource_factory(lambda: 5, "chars", types="ab")

        assert [e.resource_types for e in events] == [
            (int,),
            (int, float),
            (int, float),
            (List[int],),
            ("a", "b"),
        ]
        assert all(e.is_factory for e in events)
        assert context.get_resource_nowait(float, "tuple") == 3
        assert context.get_resource_nowait("b", "chars") == 5  # type: ignore[call-overload]

    async def test_falsy_types_use_annotation(self, context: Context) -> None:
        def factory() -> str:
            return "x"

        context.add_resource_factory(factory, "a", types=[])
        context.add_resource_factory(factory, "b", types=FalsyClass)
        assert context.get_resource_nowait(str, "a") == "x"
        assert context.get_resource_nowait(str, "b") == "x"
        assert context.get_resource_nowait(FalsyClass, "b", optional=True) is None

    @pytest.mark.parametrize("types", [[None], (int, None), [None, int]])
    async def test_none_type_rejected(self, context: Context, types: Any) -> None:
        async with record_events(context) as events:
            with pytest.raises(TypeError) as exc:
                context.add_resource_factory(lambda: 1, types=types)

        assert str(exc.value) == "None is not a valid resource type"
        assert events == []
        assert context.get_resource_nowait(int, optional=True) is None

    async def test_name_checked_before_annotation(self, context: Context) -> None:
        with pytest.raises(ValueError, match='"name" must be a nonempty string'):
            context.add_resource_factory(lambda: 1, "not valid")

    async def test_factory_conflicts(self, context: Context) -> None:
        def factory() -> Union[int, Base]:
            return 1

        context.add_resource_factory(factory)
        async with record_events(context) as events:
            with pytest.raises(ResourceConflict) as exc:
                context.add_resource_factory(lambda: 2, types=[str, Base, int])

        assert str(exc.value) == (
            f"this context already contains a resource factory for the type "
            f"{Base.__module__}.{Base.__qualname__}"
        )
        assert events == []
        # The partially conflicting registration must not have registered "str"
        with pytest.raises(ResourceNotFound):
            context.get_resource_nowait(str)

        # Same types under another name are fine
        context.add_resource_factory(lambda: 2, "other", types=[str, Base, int])
        assert context.get_resource_nowait(str, "other") == 2
        assert context.get_resource_nowait(int) == 1

    async def test_factory_and_resource_coexist(self, context: Context) -> None:
        context.add_resource(10)
        context.add_resource_factory(lambda: 20, types=[int, float])
        assert context.get_resource_nowait(int) == 10
        assert context.get_resource_nowait(float) == 20
        # The generated resource did not replace the static one
        assert context.get_resource_nowait(int) == 10
        with pytest.raises(ResourceConflict):
            context.add_resource(30, types=float)

    async def test_factory_inherited_by_child_context(self, context: Context) -> None:
        counter = count(1)
        add_resource_factory(lambda: next(counter), types=int)
        assert get_resource_nowait(int) == 1
        async with Context() as child:
            assert child.get_resource_nowait(int) == 2
            with pytest.raises(ResourceConflict):
                child.add_resource_factory(lambda: 0, types=int)

            async with Context():
                add_resource(99)
                assert get_resource_nowait(int) == 99

        assert context.get_resource_nowait(int) == 1

    async def test_not_allowed_when_closing(self) -> None:
        errors: list[BaseException] = []

        def callback() -> None:
            try:
                add_resource_factory(lambda: 1, "bad name")
            except RuntimeError as exc:
                errors.append(exc)

        async with Context() as ctx:
            ctx.add_teardown_callback(callback)

        assert [str(e) for e in errors] == ["this context is being torn down"]
