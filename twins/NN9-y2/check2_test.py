"""
Behaviour checks for refactoring 2 (``_concurrent.py``: helpers extracted from
``run_background_task``, shared handle creation in ``TaskFactory``, private renames).

Only the public API is used.
"""

from __future__ import annotations

import logging
import sys
from functools import partial
from typing import Any, NoReturn

import pytest
from anyio import (
    TASK_STATUS_IGNORED,
    CancelScope,
    Event,
    fail_after,
    get_current_task,
    move_on_after,
    sleep_forever,
)
from anyio.abc import TaskStatus
from anyio.lowlevel import checkpoint
from pytest import LogCaptureFixture

from asphalt.core import (
    Context,
    ResourceNotFound,
    TaskFactory,
    TaskHandle,
    add_resource,
    current_context,
    get_resource_nowait,
    start_background_task_factory,
    start_service_task,
)

if sys.version_info < (3, 11):
    from exceptiongroup import BaseExceptionGroup, ExceptionGroup

pytestmark = pytest.mark.anyio()


@pytest.fixture(params=["asyncio", "trio"])
def anyio_backend(request: Any) -> str:
    return request.param


def leaf_exceptions(exc: BaseException) -> list[BaseException]:
    if isinstance(exc, BaseExceptionGroup):
        leaves: list[BaseException] = []
        for sub in exc.exceptions:
            leaves.extend(leaf_exceptions(sub))

        return leaves

    return [exc]


def messages_of(caplog: LogCaptureFixture) -> list[str]:
    return [rec.getMessage() for rec in caplog.records if rec.name == "asphalt.core"]


class CallableObject:
    def __init__(self) -> None:
        self.called = Event()

    async def __call__(self) -> None:
        self.called.set()


#
# TaskHandle
#


async def test_task_handle_repr_and_identity() -> None:
    handle1 = TaskHandle("some task")
    handle2 = TaskHandle("some task")
    assert repr(handle1) == "TaskHandle(name='some task')"
    assert handle1 != handle2
    assert len({handle1, handle2}) == 2
    assert not hasattr(handle1, "start_value")


async def test_unstarted_factory() -> None:
    async def taskfunc() -> None:
        pass

    factory = TaskFactory()
    assert factory.exception_handler is None
    assert factory.all_task_handles() == set()
    with pytest.raises(AttributeError, match="_task_group"):
        factory.start_task_soon(taskfunc, "orphan")

    with pytest.raises(AttributeError, match="_task_group"):
        await factory.start_task(taskfunc)

    # The handles were registered before the failure
    assert sorted(handle.name for handle in factory.all_task_handles()) == sorted(
        ["orphan", f"{__name__}.test_unstarted_factory.<locals>.taskfunc"]
    )


#
# task_status detection
#


async def test_start_value_from_task_status(caplog: LogCaptureFixture) -> None:
    async def taskfunc(task_status: TaskStatus[str]) -> None:
        order.append("before started")
        task_status.started("the start value")
        order.append("after started")
        await finish.wait()
        order.append("finishing")

    order: list[str] = []
    finish = Event()
    caplog.set_level(logging.DEBUG, "asphalt.core")
    async with Context():
        factory = await start_background_task_factory()
        handle = await factory.start_task(taskfunc, "with status")
        assert handle.start_value == "the start value"
        assert handle in factory.all_task_handles()
        assert "before started" in order
        assert "finishing" not in order
        finish.set()
        with fail_after(1):
            await handle.wait_finished()

        await checkpoint()
        assert factory.all_task_handles() == set()

    assert order == ["before started", "after started", "finishing"]
    messages = messages_of(caplog)
    assert messages.index("Background task (with status) starting") < messages.index(
        "Background task (with status) finished successfully"
    )


async def test_keyword_only_task_status_is_passed() -> None:
    async def taskfunc(*, task_status: TaskStatus[int] = TASK_STATUS_IGNORED) -> None:
        task_status.started(42)

    async with Context():
        factory = await start_background_task_factory()
        handle = await factory.start_task(taskfunc)
        assert handle.start_value == 42
        assert handle.name == (
            f"{__name__}.test_keyword_only_task_status_is_passed.<locals>.taskfunc"
        )


async def test_start_soon_passes_ignored_task_status() -> None:
    async def taskfunc(task_status: TaskStatus[int]) -> None:
        received.append(task_status)
        task_status.started(1)

    received: list[Any] = []
    async with Context():
        factory = await start_background_task_factory()
        handle = factory.start_task_soon(taskfunc, "soon")
        assert not hasattr(handle, "start_value")
        with fail_after(1):
            await handle.wait_finished()

    assert received == [TASK_STATUS_IGNORED]


async def test_function_without_task_status_is_started_before_call() -> None:
    async def taskfunc(*args: Any, **kwargs: Any) -> None:
        received.append((args, kwargs))
        await release.wait()

    received: list[Any] = []
    release = Event()
    async with Context():
        factory = await start_background_task_factory()
        with fail_after(1):
            handle = await factory.start_task(taskfunc, "varargs")

        # start_task() returned although the function is still running
        assert handle.start_value is None
        assert received == [((), {})]
        release.set()
        with fail_after(1):
            await handle.wait_finished()


async def test_positional_only_task_status_is_not_passed() -> None:
    async def taskfunc(task_status: Any, /) -> None:
        pytest.fail("cannot be called without arguments")

    def handler(exc: Exception) -> bool:
        handled.append(exc)
        return True

    handled: list[Exception] = []
    async with Context():
        factory = await start_background_task_factory(exception_handler=handler)
        handle = await factory.start_task(taskfunc, "posonly")
        assert handle.start_value is None
        with fail_after(1):
            await handle.wait_finished()

    assert len(handled) == 1
    assert isinstance(handled[0], TypeError)
    assert "task_status" in str(handled[0])


async def test_never_calling_started_is_an_error() -> None:
    async def taskfunc(task_status: TaskStatus[None]) -> None:
        pass

    async with Context():
        factory = await start_background_task_factory()
        with pytest.raises(RuntimeError, match="[Cc]hild exited"):
            await factory.start_task(taskfunc, "forgetful")

        await checkpoint()
        assert factory.all_task_handles() == set()


async def test_exception_before_started_goes_to_caller_and_handler(
    caplog: LogCaptureFixture,
) -> None:
    async def taskfunc(task_status: TaskStatus[None]) -> NoReturn:
        raise ValueError("failed early")

    def handler(exc: Exception) -> bool:
        handled.append(exc)
        return False

    handled: list[Exception] = []
    caplog.set_level(logging.DEBUG, "asphalt.core")
    async with Context():
        factory = await start_background_task_factory(exception_handler=handler)
        with pytest.raises(ValueError, match="^failed early$") as excinfo:
            await factory.start_task(taskfunc, "early")

        assert handled == [excinfo.value]
        await checkpoint()
        assert factory.all_task_handles() == set()

    messages = messages_of(caplog)
    assert "Background task (early) crashed" in messages


async def test_non_callable_target() -> None:
    async def taskfunc() -> str:
        return "ok"

    async with Context():
        factory = await start_background_task_factory()
        with pytest.raises(TypeError, match="is not a callable object"):
            await factory.start_task(42)  # type: ignore[arg-type]

        await checkpoint()
        assert factory.all_task_handles() == set()

        # The factory remains usable
        handle = await factory.start_task(taskfunc)
        with fail_after(1):
            await handle.wait_finished()


async def test_sync_function_result_is_not_awaitable() -> None:
    def not_async() -> int:
        calls.append(1)
        return 5

    def handler(exc: Exception) -> bool:
        handled.append(exc)
        return True

    calls: list[int] = []
    handled: list[Exception] = []
    async with Context():
        factory = await start_background_task_factory(exception_handler=handler)
        handle = await factory.start_task(not_async, "sync")  # type: ignore[arg-type]
        with fail_after(1):
            await handle.wait_finished()

    assert calls == [1]
    assert len(handled) == 1
    assert isinstance(handled[0], TypeError)


#
# Task names
#


async def test_default_task_names() -> None:
    async def plain() -> None:
        names.append(get_current_task().name)

    async def with_args(arg: str) -> None:
        names.append(get_current_task().name)

    names: list[str | None] = []
    prefix = f"{__name__}.test_default_task_names.<locals>"
    callable_object = CallableObject()
    async with Context():
        factory = await start_background_task_factory()
        handles = [
            await factory.start_task(plain),
            await factory.start_task(plain, ""),
            await factory.start_task(plain, "explicit"),
            await factory.start_task(partial(with_args, "x")),
            factory.start_task_soon(partial(with_args, "y")),
            factory.start_task_soon(callable_object),
            factory.start_task_soon(plain, "explicit soon"),
        ]
        with fail_after(1):
            for handle in handles:
                await handle.wait_finished()

        assert callable_object.called.is_set()

    assert [handle.name for handle in handles] == [
        f"{prefix}.plain",
        f"{prefix}.plain",
        "explicit",
        f"{prefix}.with_args",
        f"{prefix}.with_args",
        f"{__name__}.CallableObject",
        "explicit soon",
    ]
    assert sorted(names) == sorted(  # type: ignore[type-var]
        [
            f"{prefix}.plain",
            f"{prefix}.plain",
            "explicit",
            f"{prefix}.with_args",
            f"{prefix}.with_args",
            "explicit soon",
        ]
    )


#
# Bookkeeping, contexts and cancellation
#


async def test_all_task_handles_tracks_running_tasks() -> None:
    async def taskfunc() -> None:
        await release.wait()

    release = Event()
    async with Context():
        factory = await start_background_task_factory()
        handle1 = await factory.start_task(taskfunc, "one")
        handle2 = factory.start_task_soon(taskfunc, "two")
        snapshot = factory.all_task_handles()
        assert snapshot == {handle1, handle2}
        snapshot.clear()
        assert factory.all_task_handles() == {handle1, handle2}

        handle1.cancel()
        with fail_after(1):
            await handle1.wait_finished()

        await checkpoint()
        assert factory.all_task_handles() == {handle2}
        release.set()
        with fail_after(1):
            await handle2.wait_finished()

        await checkpoint()
        assert factory.all_task_handles() == set()


async def test_task_runs_in_child_context_of_factory_context() -> None:
    async def taskfunc() -> None:
        contexts.append(current_context())
        assert get_resource_nowait(str) == "from parent"
        add_resource(5, "task_local")
        add_resource("teardown check", "x", teardown_callback=torn_down.set)

    contexts: list[Context] = []
    torn_down = Event()
    async with Context() as outer:
        add_resource("from parent")
        factory = await start_background_task_factory()
        async with Context() as inner:
            handle = await factory.start_task(taskfunc)
            with fail_after(1):
                await handle.wait_finished()

            assert torn_down.is_set()
            assert contexts[0] is not inner
            assert contexts[0] is not outer
            with pytest.raises(ResourceNotFound):
                get_resource_nowait(int, "task_local")


async def test_factory_teardown_waits_for_tasks() -> None:
    async def taskfunc() -> None:
        started.set()
        await release.wait()
        finished.append(True)

    async def releaser() -> None:
        await started.wait()
        await checkpoint()
        release.set()

    started = Event()
    release = Event()
    finished: list[bool] = []
    async with Context():
        await start_service_task(releaser, "releaser", teardown_action=None)
        factory = await start_background_task_factory()
        factory.start_task_soon(taskfunc, "slow")

    assert finished == [True]


async def test_outer_cancellation_cancels_tasks_without_handler_call(
    caplog: LogCaptureFixture,
) -> None:
    async def taskfunc() -> None:
        try:
            started.set()
            await sleep_forever()
        finally:
            cleaned_up.append(True)

    def handler(exc: Exception) -> bool:
        handled.append(exc)
        return True

    started = Event()
    cleaned_up: list[bool] = []
    handled: list[Exception] = []
    handle = None
    caplog.set_level(logging.DEBUG, "asphalt.core")
    with move_on_after(3) as outer_scope:
        with CancelScope() as scope:
            async with Context():
                factory = await start_background_task_factory(
                    exception_handler=handler
                )
                handle = factory.start_task_soon(taskfunc, "victim")
                await started.wait()
                scope.cancel()
                await sleep_forever()

    assert not outer_scope.cancelled_caught
    assert scope.cancelled_caught
    assert cleaned_up == [True]
    assert handled == []
    assert handle is not None
    with fail_after(1):
        await handle.wait_finished()

    messages = messages_of(caplog)
    assert "Background task (victim) starting" in messages
    assert "Background task (victim) crashed" not in messages
    assert "Background task (victim) finished successfully" not in messages


async def test_service_task_start_value_and_teardown_order() -> None:
    async def service(task_status: TaskStatus[str]) -> None:
        events.append("service starting")
        task_status.started("service value")
        await stop.wait()
        events.append("service stopped")

    def stop_service() -> None:
        events.append("teardown action")
        stop.set()

    events: list[str] = []
    stop = Event()
    async with Context():
        value = await start_service_task(service, "svc", teardown_action=stop_service)
        assert value == "service value"
        events.append("body done")

    assert events == [
        "service starting",
        "body done",
        "teardown action",
        "service stopped",
    ]
