#!/usr/bin/env python3
"""Evaluate a behaviour-preserving refactoring produced by an independent sub-agent.

usage: tools/try_refactor.py <PROP> <N> [--src DIR] [--keep] [--tag r|e|x|y]

1. in a scratch worktree: the agent's check test passes without the refactoring; the patch
   applies; the baseline suite passes with it; the check test passes with it
2. in memory (nothing in /repo is touched): every property's rules are run on the refactored
   sources; any VIOLATION is a false alarm of the checker, any 'error' an idiom gap
With --keep the refactoring is stored under /verif/twins/<id>/ and becomes a silent twin of
the self-test campaign.
"""
import json
import os
import re
import shutil
import subprocess
import sys

VERIF = os.path.dirname(os.path.dirname(os.path.abspath(__file__)))
sys.path.insert(0, VERIF)
REPO = "/repo"


def sh(cmd, cwd=None, env=None, timeout=1800):
    e = dict(os.environ)
    if env:
        e.update(env)
    r = subprocess.run(cmd, shell=True, cwd=cwd, env=e, capture_output=True, text=True, timeout=timeout)
    return r.returncode, r.stdout + r.stderr


def main():
    prop, n = sys.argv[1].upper(), sys.argv[2]
    src = f"/tmp/rf-{prop}/_refactor"
    if "--src" in sys.argv:
        src = sys.argv[sys.argv.index("--src") + 1]
    tag = sys.argv[sys.argv.index("--tag") + 1] if "--tag" in sys.argv else "r"
    tid = f"{prop}-{tag}{n}"
    diff = os.path.join(src, f"refactor{n}.diff")
    test = os.path.join(src, f"check{n}_test.py")
    assert os.path.exists(diff), diff
    result = {"id": tid, "property": prop}
    wt = f"/tmp/confirm-{tid}"
    sh(f"git -C {REPO} worktree remove --force {wt}")
    rc, out = sh(f"git -C {REPO} worktree add -q --detach {wt} HEAD")
    assert rc == 0, out
    try:
        env = {"PYTHONPATH": f"{wt}/src"}
        has_test = os.path.exists(test)
        if has_test:
            os.makedirs(f"{wt}/_refactor", exist_ok=True)
            shutil.copy(test, f"{wt}/_refactor/")
            tcmd = f"/venv/bin/python -m pytest -q -p no:cacheprovider --timeout=300 _refactor/{os.path.basename(test)}"
            rc0, out0 = sh(tcmd, cwd=wt, env=env)
            result["check_without"] = {"exit": rc0, "tail": out0.strip().splitlines()[-1:]}
        rc, out = sh(f"git apply {diff}", cwd=wt)
        result["patch_applies"] = rc == 0
        if rc != 0:
            result["error"] = out[-500:]
            print(json.dumps(result, indent=1))
            return 1
        rc1, out1 = sh("/venv/bin/python -m pytest -q -p no:cacheprovider --timeout=900 -x --deselect tests/test_cli.py::test_run_bad_override --deselect tests/test_cli.py::test_run_bad_path --deselect tests/test_cli.py::test_run_missing_root_component_config --deselect tests/test_cli.py::test_run_missing_root_component_type", cwd=wt, env=env)
        tail = out1.strip().splitlines()[-1] if out1.strip() else ""
        m = re.search(r"(\d+) passed", tail)
        result["suite_with"] = {"exit": rc1, "tail": tail, "passed": int(m.group(1)) if m else 0}
        if has_test:
            rc2, out2 = sh(tcmd, cwd=wt, env=env)
            result["check_with"] = {"exit": rc2, "tail": out2.strip().splitlines()[-1:]}
    finally:
        sh(f"git -C {REPO} worktree remove --force {wt}")
    ok = result["suite_with"]["exit"] == 0 and result["suite_with"]["passed"] >= 287 and result.get("check_with", {"exit": 0})["exit"] == 0 and result.get("check_without", {"exit": 0})["exit"] == 0
    result["behaviour_evidence_ok"] = ok
    # in-memory static analysis of all properties
    from sa.driver import PROPS, analyse_variant, repo_root
    from sa.loader import Project
    from selftest.udiff import apply_unified

    project = Project(repo_root())
    sources = {m.relpath: m.src for m in project.modules.values()}
    ov = apply_unified(sources, open(diff).read())
    verdicts = {}
    if ov is None:
        result["error"] = "diff does not apply in memory"
    else:
        for p in PROPS:
            v, rep = analyse_variant(p, ov, inherited_known=True)
            if v != "holds":
                detail = rep if isinstance(rep, str) else [f"{i.verdict} {i.rule} {i.site} {i.function}: {i.why[:200]}" for i in rep.instances if i.verdict not in ("HOLDS", "KNOWN")][:6]
                if not isinstance(rep, str):
                    detail += [f"floor {r}: {f} < {m_}" for r, f, m_ in rep.floors if f < m_]
                verdicts[p] = {"verdict": v, "detail": detail}
    result["non_holding"] = verdicts
    print(json.dumps(result, indent=1))
    if "--force-keep" in sys.argv and ov is not None and result["suite_with"]["exit"] == 0 and result["suite_with"]["passed"] >= 287:
        ok = True  # kept although a check test of the agent pins behaviour that a later fix: commit changed (see meta note)
    if ("--keep" in sys.argv or "--force-keep" in sys.argv) and ok and ov is not None:
        dst = os.path.join(VERIF, "twins", tid)
        os.makedirs(dst, exist_ok=True)
        shutil.copy(diff, os.path.join(dst, "patch.diff"))
        if os.path.exists(test):
            shutil.copy(test, os.path.join(dst, os.path.basename(test)))
        json.dump({"id": tid, "about_property": prop, "source": "independent sub-agent asked for a behaviour-preserving refactoring" if tag == "r" else "independent sub-agent asked for three substantial behaviour-preserving refactorings of one region of the package (module-level campaign)" if tag in ("x", "y") else "independent sub-agent asked for a realistic property-preserving evolution (feature / hardening / logging / performance change)", "suite_with": result["suite_with"], "check_with": result.get("check_with"), "check_without": result.get("check_without")}, open(os.path.join(dst, "meta.json"), "w"), indent=1)
    return 0


if __name__ == "__main__":
    sys.exit(main())
