"""
Property C01 checks, focused on the teardown runner (Context._run_teardown_callbacks):
exactly-once, LIFO, one-at-a-time, error aggregation, outcome of the block.

Must pass on the unchanged source and with refactor1.diff applied.
"""

from __future__ import annotations

import logging
import sys
from functools import partial
from itertools import product
from typing import Any

import anyio
import pytest
from anyio import CancelScope, get_cancelled_exc_class
from anyio.lowlevel import checkpoint

from asphalt.core import Context, add_resource, context_teardown

if sys.version_info < (3, 11):
    from exceptiongroup import BaseExceptionGroup, ExceptionGroup

pytestmark = pytest.mark.anyio


@pytest.fixture(params=["asyncio", "trio"])
def anyio_backend(request: pytest.FixtureRequest) -> str:
    return request.param


@pytest.fixture(params=[False, True], ids=["nolog", "debuglog"], autouse=True)
def debug_logging(request: pytest.FixtureRequest, caplog: pytest.LogCaptureFixture):
    """Run every scenario both with and without DEBUG logging enabled."""
    if request.param:
        caplog.set_level(logging.DEBUG, logger="asphalt.core")
    else:
        caplog.set_level(logging.ERROR, logger="asphalt.core")
    yield


class MyBaseError(BaseException):
    pass


class Recorder:
    """Records start/end of every callback and detects overlapping execution."""

    def __init__(self) -> None:
        self.events: list[tuple[str, Any]] = []
        self.active = 0
        self.overlap = False
        self.received: dict[Any, BaseException | None] = {}

    def make(
        self,
        key: Any,
        *,
        is_async: bool,
        pass_exception: bool,
        raises: BaseException | None = None,
    ) -> Any:
        def enter(*args: BaseException | None) -> None:
            if pass_exception:
                assert len(args) == 1
                self.received[key] = args[0]
            else:
                assert not args

            self.active += 1
            if self.active > 1:
                self.overlap = True

            self.events.append(("start", key))

        def leave() -> None:
            self.events.append(("end", key))
            self.active -= 1
            if raises is not None:
                raise raises

        if is_async:

            async def async_callback(*args: BaseException | None) -> None:
                enter(*args)
                try:
                    with CancelScope(shield=True):
                        await checkpoint()
                        await anyio.sleep(0.001)
                finally:
                    leave()

            return async_callback
        else:

            def sync_callback(*args: BaseException | None) -> None:
                enter(*args)
                leave()

            return sync_callback

    @property
    def order(self) -> list[Any]:
        return [key for kind, key in self.events if kind == "start"]

    def assert_serial(self, expected_order: list[Any]) -> None:
        assert not self.overlap
        assert self.active == 0
        flat: list[tuple[str, Any]] = []
        for key in expected_order:
            flat += [("start", key), ("end", key)]

        assert self.events == flat


KINDS = list(product([False, True], [False, True]))  # (is_async, pass_exception)


@pytest.mark.parametrize("count", [0, 1, 2, 7])
async def test_clean_exit_lifo_exactly_once(count: int) -> None:
    rec = Recorder()
    async with Context():
        async with Context() as ctx:
            for i in range(count):
                is_async, pass_exc = KINDS[i % 4]
                ctx.add_teardown_callback(
                    rec.make(i, is_async=is_async, pass_exception=pass_exc), pass_exc
                )

            assert not ctx.closed

        assert ctx.closed

    rec.assert_serial(list(reversed(range(count))))
    assert all(value is None for value in rec.received.values())
    assert len(rec.received) == len([i for i in range(count) if KINDS[i % 4][1]])


async def test_block_exception_propagates_as_itself() -> None:
    rec = Recorder()
    error = ValueError("block failed")
    ctx = Context()
    with pytest.raises(ValueError) as exc_info:
        async with ctx:
            for i in range(6):
                is_async, pass_exc = KINDS[i % 4]
                ctx.add_teardown_callback(
                    rec.make(i, is_async=is_async, pass_exception=pass_exc), pass_exc
                )

            raise error

    assert exc_info.value is error
    assert ctx.closed
    rec.assert_serial([5, 4, 3, 2, 1, 0])
    assert rec.received == {1: error, 3: error, 5: error}


RAISE_PATTERNS = [
    {0: ValueError("a")},
    {3: MyBaseError("b")},
    {0: ValueError("a"), 3: KeyError("k")},
    {1: MyBaseError("x"), 2: RuntimeError("y"), 4: MyBaseError("z")},
    {i: LookupError(str(i)) for i in range(5)},
]


@pytest.mark.parametrize("pattern", RAISE_PATTERNS, ids=lambda p: "-".join(map(str, p)))
@pytest.mark.parametrize("block_error", [None, ValueError("block")], ids=["ok", "exc"])
async def test_raising_callbacks_do_not_stop_the_rest(
    pattern: dict[int, BaseException], block_error: Exception | None
) -> None:
    rec = Recorder()
    finished_before_raise: list[int] = []
    async with Context():  # outer root context keeps coalescing out of the picture
        ctx = Context()
        try:
            async with ctx:
                for i in range(5):
                    is_async, pass_exc = KINDS[i % 4]
                    ctx.add_teardown_callback(
                        rec.make(
                            i,
                            is_async=is_async,
                            pass_exception=pass_exc,
                            raises=pattern.get(i),
                        ),
                        pass_exc,
                    )

                if block_error:
                    raise block_error
        except BaseException as exc:
            finished_before_raise.append(len(rec.events))
            caught: BaseException = exc
        else:
            pytest.fail("no exception was raised")

    # Raised only after the last callback finished
    assert finished_before_raise == [10]
    rec.assert_serial([4, 3, 2, 1, 0])
    assert ctx.closed
    assert isinstance(caught, BaseExceptionGroup)
    # all callback exceptions, together, in one group, in the order they were raised
    assert list(caught.exceptions) == [pattern[i] for i in sorted(pattern, reverse=True)]
    if all(isinstance(exc, Exception) for exc in pattern.values()):
        assert isinstance(caught, ExceptionGroup)

    # pass_exception callbacks still got the exception that ended the block
    assert rec.received == {1: block_error, 3: block_error}


async def test_registered_during_teardown_and_all_routes() -> None:
    rec = Recorder()
    error = RuntimeError("boom")

    @context_teardown
    async def generator_route(key: str) -> Any:
        exc = yield
        rec.received[key] = exc
        rec.active += 1
        rec.overlap |= rec.active > 1
        rec.events.append(("start", key))
        with CancelScope(shield=True):
            await checkpoint()

        rec.events.append(("end", key))
        rec.active -= 1

    ctx = Context()
    with pytest.raises(RuntimeError) as exc_info:
        async with ctx:

            def late_registrar() -> None:
                rec.events.append(("start", "registrar"))
                ctx.add_teardown_callback(
                    rec.make("late1", is_async=True, pass_exception=True), True
                )
                ctx.add_teardown_callback(
                    rec.make("late2", is_async=False, pass_exception=False)
                )
                rec.events.append(("end", "registrar"))

            ctx.add_teardown_callback(
                rec.make("direct", is_async=False, pass_exception=True), True
            )
            await generator_route("gen1")
            add_resource(
                "value",
                teardown_callback=rec.make(
                    "resource", is_async=True, pass_exception=False
                ),
            )
            ctx.add_teardown_callback(late_registrar)
            ctx.add_teardown_callback(
                partial(rec.make("partial", is_async=False, pass_exception=False))
            )
            await generator_route("gen2")
            raise error

    assert exc_info.value is error
    assert ctx.closed
    rec.assert_serial(
        ["gen2", "partial", "registrar", "late2", "late1", "resource", "gen1", "direct"]
    )
    assert rec.received == {
        "gen2": error,
        "late1": error,
        "gen1": error,
        "direct": error,
    }


@pytest.mark.parametrize("from_outside", [False, True], ids=["self", "other_task"])
async def test_cancellation(from_outside: bool) -> None:
    rec = Recorder()
    ctx = Context()
    reached_after = False
    async with anyio.create_task_group() as tg:
        with CancelScope() as scope:
            async with ctx:
                for i in range(6):
                    is_async, pass_exc = KINDS[i % 4]
                    ctx.add_teardown_callback(
                        rec.make(i, is_async=is_async, pass_exception=pass_exc),
                        pass_exc,
                    )

                if from_outside:

                    async def canceller() -> None:
                        await anyio.sleep(0.01)
                        scope.cancel()

                    tg.start_soon(canceller)
                    await anyio.sleep_forever()
                else:
                    scope.cancel()
                    await checkpoint()

                reached_after = True

    assert not reached_after
    assert scope.cancelled_caught
    assert ctx.closed
    rec.assert_serial([5, 4, 3, 2, 1, 0])
    assert set(rec.received) == {1, 3, 5}
    for value in rec.received.values():
        assert isinstance(value, get_cancelled_exc_class())
