"""
Behaviour check for refactoring 2 (the nested ``filter_events`` closure of
``stream_events`` hoisted to the module-level ``_filter_events`` generator; locals
renamed).

Focus: filtering, the window in which events are collected, the life cycle of the
yielded iterator and ``wait_event``.
"""

from __future__ import annotations

import warnings
from typing import Any

import pytest
from anyio import create_task_group, fail_after, wait_all_tasks_blocked

from asphalt.core import Event, Signal, SignalQueueFull, stream_events, wait_event
from asphalt.core._exceptions import UnboundSignal

pytestmark = pytest.mark.anyio()


class NumEvent(Event):
    def __init__(self, n: int) -> None:
        self.n = n


class Source:
    sig_a = Signal(NumEvent)
    sig_b = Signal(NumEvent)


async def drain(stream: Any, count: int) -> list[Any]:
    out = []
    with fail_after(3):
        for _ in range(count):
            out.append(await stream.__anext__())
    return out


async def test_filter_selects_events_in_dispatch_order_over_several_signals() -> None:
    src1, src2 = Source(), Source()
    seen_by_filter: list[int] = []

    def odd(event: NumEvent) -> bool:
        seen_by_filter.append(event.n)
        return event.n % 2  # type: ignore[return-value]  # truthy / falsy, not bool

    async with stream_events([src1.sig_a, src2.sig_b], odd) as odds, stream_events(
        [src1.sig_a, src2.sig_b]
    ) as everything:
        events = [NumEvent(i) for i in range(8)]
        for event in events:
            (src1.sig_a if event.n % 3 else src2.sig_b).dispatch(event)

        src1.sig_b.dispatch(NumEvent(100))  # not subscribed: same instance, other signal
        src2.sig_a.dispatch(NumEvent(101))  # not subscribed: same signal, other instance

        # The filter runs in the consumer, not in dispatch()
        assert seen_by_filter == []
        assert await drain(odds, 4) == [events[1], events[3], events[5], events[7]]
        assert seen_by_filter == [0, 1, 2, 3, 4, 5, 6, 7]
        assert await drain(everything, 8) == events
        assert [e.topic for e in events] == [
            "sig_b" if i % 3 == 0 else "sig_a" for i in range(8)
        ]
        assert [e.source for e in events] == [
            src2 if i % 3 == 0 else src1 for i in range(8)
        ]


async def test_filtered_out_events_still_occupy_the_queue() -> None:
    src = Source()
    async with src.sig_a.stream_events(lambda e: e.n >= 10, max_queue_size=3) as stream:
        with warnings.catch_warnings(record=True) as caught:
            warnings.simplefilter("always")
            for n in (1, 2, 3, 10, 11):
                src.sig_a.dispatch(NumEvent(n))

        assert [w.category for w in caught] == [SignalQueueFull, SignalQueueFull]
        # 10 and 11 were lost to the overflow, so nothing passes until a new dispatch
        passing = NumEvent(12)

        async def dispatch_later() -> None:
            await wait_all_tasks_blocked()
            src.sig_a.dispatch(passing)

        async with create_task_group() as tg:
            tg.start_soon(dispatch_later)
            assert await drain(stream, 1) == [passing]


async def test_only_events_between_enter_and_exit_are_seen() -> None:
    src = Source()
    before, during, after = NumEvent(0), NumEvent(1), NumEvent(2)
    src.sig_a.dispatch(before)
    cm = src.sig_a.stream_events()
    src.sig_a.dispatch(before)  # context manager created but not entered yet
    async with cm as stream:
        src.sig_a.dispatch(during)
        assert await drain(stream, 1) == [during]

    src.sig_a.dispatch(after)
    # The iterator is finished once the block has been left
    with pytest.raises(StopAsyncIteration):
        await stream.__anext__()


async def test_iterator_is_closed_even_when_block_raises_and_events_pending() -> None:
    src = Source()
    with pytest.raises(RuntimeError, match="boom"):
        async with src.sig_a.stream_events() as stream:
            src.sig_a.dispatch(NumEvent(1))
            src.sig_a.dispatch(NumEvent(2))
            raise RuntimeError("boom")

    with pytest.raises(StopAsyncIteration):
        await stream.__anext__()

    with warnings.catch_warnings():
        warnings.simplefilter("error")
        src.sig_a.dispatch(NumEvent(3))


async def test_filter_exception_reaches_the_consumer_not_the_dispatcher() -> None:
    src = Source()

    def bad_filter(event: NumEvent) -> bool:
        if event.n == 2:
            raise ValueError("bad event")
        return True

    async with src.sig_a.stream_events(bad_filter) as stream, src.sig_a.stream_events() as ok:
        events = [NumEvent(i) for i in range(4)]
        for event in events:
            src.sig_a.dispatch(event)  # does not raise

        assert await drain(stream, 2) == events[:2]
        with pytest.raises(ValueError, match="bad event"):
            await stream.__anext__()

        # a generator that raised is finished
        with pytest.raises(StopAsyncIteration):
            await stream.__anext__()

        # the other subscriber is unaffected, and dispatching still works
        src.sig_a.dispatch(NumEvent(4))
        assert [e.n for e in await drain(ok, 5)] == [0, 1, 2, 3, 4]


async def test_unbound_signal_and_partial_subscription_rollback() -> None:
    src = Source()
    with pytest.raises(UnboundSignal):
        async with stream_events([src.sig_a, Source.sig_b]):
            pytest.fail("should not get here")

    with pytest.raises(UnboundSignal):
        await wait_event([Source.sig_a])

    # The subscription to src.sig_a made before the failure was rolled back: were it
    # still there, 60 dispatches would overflow the default queue of 50
    with warnings.catch_warnings():
        warnings.simplefilter("error")
        for i in range(60):
            src.sig_a.dispatch(NumEvent(i))


async def test_wait_event_returns_first_matching_event_after_the_call() -> None:
    src = Source()
    src.sig_a.dispatch(NumEvent(7))  # before the call: must not be returned
    results: list[Any] = []

    async def waiter(filter: Any) -> None:
        results.append(await wait_event([src.sig_a, src.sig_b], filter))

    with fail_after(3):
        async with create_task_group() as tg:
            tg.start_soon(waiter, None)
            tg.start_soon(waiter, lambda e: e.n == 7)
            await wait_all_tasks_blocked()
            events = [NumEvent(5), NumEvent(6), NumEvent(7), NumEvent(7)]
            src.sig_b.dispatch(events[0])
            src.sig_a.dispatch(events[1])
            src.sig_a.dispatch(events[2])
            src.sig_b.dispatch(events[3])

    assert len(results) == 2
    assert events[0] in results and events[2] in results
    assert results[0] is not results[1]
    assert events[2].topic == "sig_a" and events[2].source is src

    with fail_after(3):
        async with create_task_group() as tg:
            tg.start_soon(waiter, None)
            await wait_all_tasks_blocked()
            last = NumEvent(8)
            src.sig_a.wait_event  # attribute access only
            src.sig_a.dispatch(last)

    assert results[-1] is last
