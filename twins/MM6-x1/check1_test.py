"""
Behaviour checks for refactoring 1 (phase helpers in ``Signal.__get__`` and
``Signal.dispatch``). Only the public API is used.
"""

from __future__ import annotations

import gc
import time
import warnings
from typing import Any

import pytest
from anyio import create_task_group, fail_after
from anyio.lowlevel import checkpoint

from asphalt.core import (
    Event,
    Signal,
    SignalQueueFull,
    UnboundSignal,
    stream_events,
    wait_event,
)

pytestmark = pytest.mark.anyio()


class NumberEvent(Event):
    def __init__(self, number: int = 0) -> None:
        self.number = number


class OtherEvent(Event):
    pass


class Source:
    numbers = Signal(NumberEvent)
    others = Signal(OtherEvent)

    def __repr__(self) -> str:
        return "<Source>"


class Unhashable:
    sig = Signal(NumberEvent)
    __hash__ = None  # type: ignore[assignment]


class Slotted:
    __slots__ = ()
    sig = Signal(NumberEvent)


def test_binding_identity_and_independence() -> None:
    first, second = Source(), Source()
    assert Source.numbers is Source.__dict__["numbers"]
    assert first.numbers is first.numbers
    assert first.numbers is not second.numbers
    assert first.numbers is not first.others
    assert first.numbers is not Source.numbers
    assert first.numbers.event_class is NumberEvent
    assert first.others.event_class is OtherEvent
    # The bound signal is an ordinary Signal of the same event class
    assert type(first.numbers) is Signal


def test_bound_signal_dropped_with_instance() -> None:
    source = Source()
    bound_id = id(source.numbers)
    assert id(source.numbers) == bound_id
    del source
    gc.collect()
    # A fresh instance gets a fresh binding that works
    fresh = Source()
    fresh.numbers.dispatch(NumberEvent(1))


def test_binding_requires_hashable_weakrefable_instance() -> None:
    with pytest.raises(TypeError):
        Unhashable().sig
    with pytest.raises(TypeError):
        Slotted().sig


def test_unbound_signal_errors() -> None:
    with pytest.raises(UnboundSignal):
        Source.numbers.dispatch(NumberEvent())
    # The bound check precedes the type check
    with pytest.raises(UnboundSignal):
        Source.numbers.dispatch("nope")  # type: ignore[arg-type]
    loose = Signal(NumberEvent)
    with pytest.raises(UnboundSignal):
        loose.dispatch(NumberEvent())


def test_type_mismatch_message_and_no_stamping() -> None:
    source = Source()
    event = OtherEvent()
    with pytest.raises(TypeError) as exc_info:
        source.numbers.dispatch(event)  # type: ignore[arg-type]

    assert str(exc_info.value) == (
        f"Event type mismatch: event ({__name__}.OtherEvent) is not a subclass of "
        f"{__name__}.NumberEvent"
    )
    for attr in ("source", "topic", "time"):
        assert not hasattr(event, attr)

    with pytest.raises(TypeError, match=r"event \(int\) is not a subclass"):
        source.numbers.dispatch(3)  # type: ignore[arg-type]


def test_dispatch_without_listeners_stamps_event() -> None:
    source = Source()
    event = NumberEvent(5)
    before = time.time()
    assert source.numbers.dispatch(event) is None
    after = time.time()
    assert event.source is source
    assert event.topic == "numbers"
    assert before <= event.time <= after
    assert repr(event) == "NumberEvent(source=<Source>, topic='numbers')"

    # Redispatching from another signal restamps the event
    other_source = Source()
    other_source.numbers.dispatch(event)
    assert event.source is other_source


def test_subclass_events_accepted() -> None:
    class Special(NumberEvent):
        pass

    source = Source()
    event = Special(1)
    source.numbers.dispatch(event)
    assert event.topic == "numbers"


async def test_delivery_to_every_subscriber_in_order() -> None:
    source = Source()
    async with source.numbers.stream_events() as first:
        async with stream_events([source.numbers, source.others]) as second:
            for i in range(3):
                source.numbers.dispatch(NumberEvent(i))

            marker = OtherEvent()
            source.others.dispatch(marker)
            with fail_after(1):
                got_first = [(await first.__anext__()).number for _ in range(3)]
                got_second = [await second.__anext__() for _ in range(4)]

    assert got_first == [0, 1, 2]
    assert [e.number for e in got_second[:3]] == [0, 1, 2]
    assert got_second[3] is marker
    assert marker.topic == "others"


async def test_queue_full_warning_points_at_dispatch_caller() -> None:
    source = Source()
    async with source.numbers.stream_events(max_queue_size=1) as slow:
        async with source.numbers.stream_events(max_queue_size=5) as fast:
            source.numbers.dispatch(NumberEvent(1))
            with warnings.catch_warnings(record=True) as caught:
                warnings.simplefilter("always")
                source.numbers.dispatch(NumberEvent(2))

            assert len(caught) == 1
            record = caught[0]
            assert record.category is SignalQueueFull
            assert str(record.message) == (
                "Queue full (1) when trying to send dispatched event to subscriber"
            )
            assert record.filename == __file__

            # The subscriber after the full one still received the event
            with fail_after(1):
                assert (await fast.__anext__()).number == 1
                assert (await fast.__anext__()).number == 2
                assert (await slow.__anext__()).number == 1


async def test_queue_full_warning_as_error_stops_delivery() -> None:
    source = Source()
    async with source.numbers.stream_events(max_queue_size=1) as slow:
        async with source.numbers.stream_events(max_queue_size=5) as fast:
            source.numbers.dispatch(NumberEvent(1))
            event = NumberEvent(2)
            with warnings.catch_warnings():
                warnings.simplefilter("error", SignalQueueFull)
                with pytest.raises(SignalQueueFull):
                    source.numbers.dispatch(event)

            # The event was stamped before the failed delivery, and the later
            # subscriber was not reached
            assert event.source is source
            with fail_after(1):
                assert (await fast.__anext__()).number == 1

            # The slow subscriber is still full, the fast one gets the event
            with pytest.warns(SignalQueueFull):
                source.numbers.dispatch(NumberEvent(3))

            with fail_after(1):
                assert (await fast.__anext__()).number == 3
                assert (await slow.__anext__()).number == 1


async def test_zero_size_queue_without_waiting_receiver_warns() -> None:
    source = Source()
    async with source.numbers.stream_events(max_queue_size=0):
        with pytest.warns(SignalQueueFull, match=r"Queue full \(0\)"):
            source.numbers.dispatch(NumberEvent(1))


async def test_dispatch_from_another_task_wakes_waiter() -> None:
    source = Source()
    results: list[Any] = []

    async def waiter() -> None:
        results.append(await source.numbers.wait_event(lambda e: e.number > 1))

    async with create_task_group() as tg:
        tg.start_soon(waiter)
        await checkpoint()
        await checkpoint()
        for i in range(4):
            source.numbers.dispatch(NumberEvent(i))

    assert [e.number for e in results] == [2]

    # Nobody is subscribed any more, so this is delivered to no one
    source.numbers.dispatch(NumberEvent(9))
    with pytest.raises(TimeoutError):
        with fail_after(0.05):
            await wait_event([source.numbers])
