"""
Behaviour checks for refactoring 2 (``Context.__init__`` split into phases with
extracted module-level helpers and a NamedTuple; ``ComponentContext.__init__`` using an
extracted helper to find the context it publishes resources in).

Everything here goes through the public API only, and passes both on the unchanged
source and with the refactoring applied.
"""

from __future__ import annotations

import logging
from typing import Any

import anyio
import pytest
from anyio.abc import TaskStatus

from asphalt.core import (
    Component,
    ComponentStartError,
    Context,
    NoCurrentContext,
    ResourceConflict,
    ResourceNotFound,
    add_resource,
    add_resource_factory,
    add_teardown_callback,
    current_context,
    get_resource,
    get_resource_nowait,
    get_resources,
    start_background_task_factory,
    start_component,
    start_service_task,
)

pytestmark = pytest.mark.anyio()


class TestParentResolution:
    async def test_parent_chain(self) -> None:
        assert Context().parent is None
        async with Context() as root:
            assert root.parent is None
            detached = Context()
            assert detached.parent is root
            async with Context() as child:
                assert child.parent is root
                # Created while "child" is current, but explicitly parented to root
                sibling = Context(root)
                assert sibling.parent is root
                # "detached" was created earlier; entering it makes it current but
                # keeps its parent
                async with detached:
                    assert current_context() is detached
                    assert detached.parent is root
                    assert Context().parent is detached

                assert current_context() is child

    async def test_component_context_is_never_a_parent(self) -> None:
        seen: dict[str, Any] = {}

        class Sub(Component):
            async def start(self) -> None:
                seen["sub_ctx"] = current_context()
                seen["sub_implicit"] = Context().parent
                seen["sub_explicit"] = Context(current_context()).parent

        class Top(Component):
            def __init__(self) -> None:
                self.add_component("sub", Sub)

            async def prepare(self) -> None:
                seen["top_ctx"] = current_context()
                seen["top_prepare_implicit"] = Context().parent

            async def start(self) -> None:
                own_ctx = current_context()
                seen["top_explicit"] = Context(own_ctx).parent
                async with Context() as inner:
                    seen["inner_parent"] = inner.parent
                    # A context whose implicit parent is a regular context nested in
                    # a component context
                    seen["inner_child_parent"] = Context().parent
                    seen["inner_explicit_component"] = Context(own_ctx).parent

        async with Context() as root:
            await start_component(Top)

        assert seen["top_ctx"] is not root
        assert seen["sub_ctx"] is not root
        assert seen["sub_ctx"] is not seen["top_ctx"]
        assert seen["top_ctx"].parent is root
        assert seen["sub_ctx"].parent is root
        assert seen["sub_implicit"] is root
        assert seen["sub_explicit"] is root
        assert seen["top_prepare_implicit"] is root
        assert seen["top_explicit"] is root
        assert seen["inner_parent"] is root
        assert seen["inner_child_parent"].parent is root
        assert seen["inner_explicit_component"] is root

    async def test_component_started_in_nested_context(self) -> None:
        seen: dict[str, Any] = {}

        class Svc(Component):
            async def start(self) -> None:
                seen["parent"] = current_context().parent
                add_resource("svc")

        async with Context() as root:
            root.add_resource(1)
            async with Context() as nested:
                await start_component(Svc)
                assert nested.get_resource_nowait(str) == "svc"
                assert nested.get_resource_nowait(int) == 1

            assert seen["parent"] is nested
            with pytest.raises(ResourceNotFound):
                root.get_resource_nowait(str)


class TestInheritedState:
    async def test_snapshot_semantics(self) -> None:
        def factory() -> bytes:
            return b"generated"

        async with Context() as root:
            add_resource(1, "a")
            add_resource_factory(factory)
            assert get_resource_nowait(bytes) == b"generated"
            async with Context() as child:
                assert get_resources(int) == {"a": 1}
                assert get_resources(bytes) == {}
                # Same name/type is already taken by the inherited resource
                with pytest.raises(ResourceConflict):
                    add_resource(2, "a")

                # ... and by the inherited factory
                with pytest.raises(ResourceConflict):
                    add_resource_factory(factory)

                add_resource(2, "b")
                assert child.get_resources(int) == {"a": 1, "b": 2}

            assert root.get_resources(int) == {"a": 1}
            assert root.get_resources(bytes) == {"default": b"generated"}

    async def test_resource_registered_under_many_types(self) -> None:
        async with Context() as root:
            root.add_resource(True, "flag", [bool, int])
            async with Context() as child:
                assert child.get_resources(bool) == {"flag": True}
                assert child.get_resources(int) == {"flag": True}

    async def test_unentered_explicit_parent(self) -> None:
        async with Context() as root:
            unentered_child = Context()
            # Has a parent, therefore has a task group too even though it's not entered
            grandchild = Context(unentered_child)
            assert grandchild.parent is unentered_child
            assert grandchild.parent.parent is root

        never_entered = Context()
        with pytest.raises(AttributeError, match="_task_group"):
            Context(never_entered)

        with pytest.raises(AttributeError, match="has no attribute '_resources'"):
            Context(object())  # type: ignore[arg-type]

    async def test_task_group_handed_down(self) -> None:
        events: list[str] = []

        async def service(*, task_status: TaskStatus[str]) -> None:
            events.append("service started")
            task_status.started("start value")
            try:
                await anyio.sleep_forever()
            finally:
                events.append("service cancelled")

        async with Context():
            async with Context():
                async with Context() as deepest:
                    assert await start_service_task(service, "deep") == "start value"
                    assert current_context() is deepest
                    events.append("leaving deepest")

                events.append("left deepest")

        assert events == [
            "service started",
            "leaving deepest",
            "service cancelled",
            "left deepest",
        ]

    async def test_background_task_contexts(self) -> None:
        seen: dict[str, Any] = {}

        async def background() -> None:
            ctx = current_context()
            seen["bg_parent"] = ctx.parent
            seen["bg_value"] = get_resource_nowait(str)

        class Comp(Component):
            async def start(self) -> None:
                add_resource("hello")
                factory = await start_background_task_factory()
                await factory.start_task(background, "bg")

        async with Context() as root:
            await start_component(Comp)

        # The task's context descends from the context of the factory's service task,
        # which in turn descends from the context the component published into
        assert seen["bg_parent"] is not root
        assert seen["bg_parent"].parent is root
        assert seen["bg_value"] == "hello"


class TestErrorPaths:
    async def test_component_context_needs_current_context(self) -> None:
        with pytest.raises(RuntimeError, match="requires an active Asphalt context"):
            await start_component(Component)

        with pytest.raises(NoCurrentContext):
            current_context()

    async def test_failed_start_leaves_enclosing_context_usable(
        self, caplog: pytest.LogCaptureFixture
    ) -> None:
        torn_down: list[str] = []

        class Bad(Component):
            async def start(self) -> None:
                add_resource("partial")
                add_teardown_callback(lambda: torn_down.append("bad"))
                raise ValueError("boom")

        caplog.set_level(logging.DEBUG, "asphalt.core")
        async with Context() as root:
            with pytest.raises(ComponentStartError, match="boom") as exc_info:
                await start_component(Bad)

            assert isinstance(exc_info.value.__cause__, ValueError)
            # The resource and the teardown callback went to the enclosing context, so
            # they outlive the failed component context
            assert current_context() is root
            assert get_resource_nowait(str) == "partial"
            assert torn_down == []
            assert Context().parent is root

        assert torn_down == ["bad"]
        assert any(
            record.getMessage().startswith("The root component added a resource")
            for record in caplog.records
        )

    async def test_waiting_component_times_out(
        self, caplog: pytest.LogCaptureFixture
    ) -> None:
        class Waiter(Component):
            async def start(self) -> None:
                await get_resource(int, "never")

        async with Context() as root:
            with pytest.raises(TimeoutError, match="timeout starting component tree"):
                await start_component(Waiter, timeout=0.1)

            assert current_context() is root
            assert Context().parent is root

        assert any(
            "(root): starting" in record.getMessage() for record in caplog.records
        )
