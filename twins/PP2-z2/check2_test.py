"""
Behaviour checks for refactoring 2 (the resource lookups made by the wrappers that
``inject`` returns).

The lookups are observed through a ``Context`` subclass that records how its public
``get_resource()`` / ``get_resource_nowait()`` methods get called. Must pass on the
unchanged source as well as on the refactored one.
"""

from __future__ import annotations

from typing import Any, Optional

import anyio
import pytest
from anyio.lowlevel import checkpoint

from asphalt.core import (
    Context,
    NoCurrentContext,
    ResourceNotFound,
    add_resource,
    add_resource_factory,
    inject,
    resource,
)

pytestmark = pytest.mark.anyio()


@pytest.fixture
def anyio_backend() -> str:
    return "asyncio"


class RecordingContext(Context):
    def __init__(self, log: list[Any], label: str = "ctx") -> None:
        super().__init__()
        self.log = log
        self.label = label

    def get_resource_nowait(self, *args: Any, **kwargs: Any) -> Any:
        self.log.append((self.label, "nowait", args, kwargs))
        return super().get_resource_nowait(*args, **kwargs)

    async def get_resource(self, *args: Any, **kwargs: Any) -> Any:
        self.log.append((self.label, "async", args, kwargs))
        return await super().get_resource(*args, **kwargs)


def make_sync(calls: list[Any]) -> Any:
    @inject
    def func(
        pos: int,
        first: str = resource(),
        second: Optional[int] = resource("num"),
        *extra: Any,
        third: Optional[bytes] = resource(),
        fourth: float = resource("alt"),
        **more: Any,
    ) -> Any:
        calls.append((pos, first, second, extra, third, fourth, more))
        return "sync result"

    return func


def make_async(calls: list[Any]) -> Any:
    @inject
    async def func(
        pos: int,
        first: str = resource(),
        second: Optional[int] = resource("num"),
        *extra: Any,
        third: Optional[bytes] = resource(),
        fourth: float = resource("alt"),
        **more: Any,
    ) -> Any:
        calls.append((pos, first, second, extra, third, fourth, more))
        return "async result"

    return func


EXPECTED_LOOKUPS = [
    ((str, "default"), {}),
    ((int, "num"), {"optional": True}),
    ((bytes, "default"), {"optional": True}),
    ((float, "alt"), {}),
]


class TestLookups:
    async def test_sync_lookups(self) -> None:
        log: list[Any] = []
        calls: list[Any] = []
        func = make_sync(calls)
        async with RecordingContext(log):
            add_resource("text")
            add_resource(2.5, "alt")
            add_resource(b"bytes")
            assert func(1, extra_kw="x") == "sync result"
            assert log == [("ctx", "nowait", *item) for item in EXPECTED_LOOKUPS]
            assert calls == [(1, "text", None, (), b"bytes", 2.5, {"extra_kw": "x"})]

            # The same lookups are made again on every call
            del log[:]
            add_resource(11, "num")
            assert func(pos=2) == "sync result"
            assert log == [("ctx", "nowait", *item) for item in EXPECTED_LOOKUPS]
            assert calls[1] == (2, "text", 11, (), b"bytes", 2.5, {})

    async def test_async_lookups(self) -> None:
        log: list[Any] = []
        calls: list[Any] = []
        func = make_async(calls)
        async with RecordingContext(log):
            add_resource("text")
            add_resource(2.5, "alt")
            add_resource(b"bytes")
            assert await func(1, extra_kw="x") == "async result"
            assert log == [("ctx", "async", *item) for item in EXPECTED_LOOKUPS]
            assert calls == [(1, "text", None, (), b"bytes", 2.5, {"extra_kw": "x"})]

            del log[:]
            add_resource(11, "num")
            assert await func(pos=2) == "async result"
            assert log == [("ctx", "async", *item) for item in EXPECTED_LOOKUPS]
            assert calls[1] == (2, "text", 11, (), b"bytes", 2.5, {})

    @pytest.mark.parametrize("is_async", [False, True], ids=["sync", "async"])
    async def test_lookups_stop_at_first_failure(self, is_async: bool) -> None:
        log: list[Any] = []
        calls: list[Any] = []
        func = make_async(calls) if is_async else make_sync(calls)
        kind = "async" if is_async else "nowait"
        async with RecordingContext(log):
            # The first (mandatory) resource is missing: only one lookup is made
            with pytest.raises(ResourceNotFound) as exc:
                (await func(1)) if is_async else func(1)

            assert (exc.value.type, exc.value.name) == (str, "default")
            assert log == [("ctx", kind, *EXPECTED_LOOKUPS[0])]

            # The last (mandatory) resource is missing: all four lookups are made
            del log[:]
            add_resource("text")
            with pytest.raises(ResourceNotFound) as exc:
                (await func(1)) if is_async else func(1)

            assert (exc.value.type, exc.value.name) == (float, "alt")
            assert str(exc.value) == (
                "no matching resource was found for type=float name='alt'"
            )
            assert log == [("ctx", kind, *item) for item in EXPECTED_LOOKUPS]

        assert calls == []

    @pytest.mark.parametrize("is_async", [False, True], ids=["sync", "async"])
    async def test_explicit_argument_for_injected_parameter(
        self, is_async: bool
    ) -> None:
        # Passing a value for an injected parameter is an error, raised only after all
        # the lookups have been made
        log: list[Any] = []
        calls: list[Any] = []
        func = make_async(calls) if is_async else make_sync(calls)
        async with RecordingContext(log):
            add_resource("text")
            add_resource(2.5, "alt")
            with pytest.raises(
                TypeError, match="got multiple values for keyword argument 'fourth'"
            ):
                (await func(1, fourth=1.0)) if is_async else func(1, fourth=1.0)

            assert len(log) == 4
            del log[:]
            with pytest.raises(
                TypeError, match="got multiple values for argument 'first'"
            ):
                (await func(1, "positional")) if is_async else func(1, "positional")

            assert len(log) == 4

        assert calls == []

    @pytest.mark.parametrize("is_async", [False, True], ids=["sync", "async"])
    async def test_no_context(self, is_async: bool) -> None:
        calls: list[Any] = []
        func = make_async(calls) if is_async else make_sync(calls)
        for _ in range(2):
            with pytest.raises(NoCurrentContext):
                (await func(1)) if is_async else func(1)

        assert calls == []

    @pytest.mark.parametrize("is_async", [False, True], ids=["sync", "async"])
    async def test_innermost_context_is_used(self, is_async: bool) -> None:
        log: list[Any] = []
        calls: list[Any] = []
        func = make_async(calls) if is_async else make_sync(calls)
        async with RecordingContext(log, "outer"):
            add_resource("outer text")
            add_resource(1.0, "alt")
            async with RecordingContext(log, "inner"):
                add_resource(b"inner bytes")
                (await func(1)) if is_async else func(1)
                assert [entry[0] for entry in log] == ["inner"] * 4

            del log[:]
            (await func(2)) if is_async else func(2)
            assert [entry[0] for entry in log] == ["outer"] * 4

        assert calls[0] == (1, "outer text", None, (), b"inner bytes", 1.0, {})
        assert calls[1] == (2, "outer text", None, (), None, 1.0, {})

    async def test_context_is_looked_up_once_per_call(self) -> None:
        # The async wrapper looks up the current context before the first lookup and
        # keeps using it, even if a lookup (here: a resource factory) takes time
        log: list[Any] = []
        calls: list[Any] = []
        func = make_async(calls)
        factory_started = anyio.Event()
        proceed = anyio.Event()

        async def slow_factory() -> str:
            factory_started.set()
            await proceed.wait()
            return "generated"

        async with RecordingContext(log, "ctx") as ctx, anyio.create_task_group() as tg:
            ctx.add_resource_factory(slow_factory, types=[str])
            ctx.add_resource(2.5, "alt")
            tg.start_soon(func, 1)
            await factory_started.wait()
            assert [entry[3] for entry in log] == [{}]
            ctx.add_resource(b"late")
            proceed.set()

        assert [entry[:2] for entry in log] == [("ctx", "async")] * 4
        assert calls == [(1, "generated", None, (), b"late", 2.5, {})]

    async def test_sync_wrapper_does_not_trigger_async_factories(self) -> None:
        async def factory() -> str:
            return "generated"

        @inject
        def func(res: str = resource()) -> str:
            return res

        @inject
        async def afunc(res: str = resource()) -> str:
            return res

        async with Context():
            add_resource_factory(factory, types=[str])
            with pytest.raises(Exception) as exc:
                func()

            assert type(exc.value).__name__ == "AsyncResourceError"
            assert await afunc() == "generated"
            assert func() == "generated"

    async def test_cancellation_during_lookup(self) -> None:
        log: list[Any] = []
        calls: list[Any] = []
        func = make_async(calls)
        factory_started = anyio.Event()
        outcome: list[Any] = []

        async def hanging_factory() -> str:
            factory_started.set()
            await anyio.sleep_forever()
            return "never"

        async def run() -> None:
            try:
                await func(1)
            except BaseException as exc:
                outcome.append(type(exc))
                raise

        async with RecordingContext(log) as ctx:
            ctx.add_resource_factory(hanging_factory, types=[str])
            async with anyio.create_task_group() as tg:
                tg.start_soon(run)
                await factory_started.wait()
                tg.cancel_scope.cancel()

        assert outcome == [anyio.get_cancelled_exc_class()]
        assert len(log) == 1
        assert calls == []

    async def test_wrapped_function_raises(self) -> None:
        @inject
        def func(res: str = resource()) -> None:
            raise LookupError(res)

        @inject
        async def afunc(res: str = resource()) -> None:
            await checkpoint()
            raise LookupError(res)

        async with Context():
            add_resource("text")
            with pytest.raises(LookupError, match="text"):
                func()

            with pytest.raises(LookupError, match="text"):
                await afunc()

    async def test_async_wrapper_is_lazy(self) -> None:
        # Calling the async wrapper does nothing until the coroutine is awaited
        log: list[Any] = []
        calls: list[Any] = []
        func = make_async(calls)
        coro = func(1)
        assert log == [] and calls == []
        async with RecordingContext(log):
            add_resource("text")
            add_resource(2.5, "alt")
            assert await coro == "async result"

        assert len(log) == 4

    async def test_methods(self) -> None:
        log: list[Any] = []

        class Service:
            @inject
            def sync_method(self, factor: int, res: str = resource()) -> str:
                return res * factor

            @inject
            async def async_method(
                self, factor: int, *, res: Optional[str] = resource("other")
            ) -> Any:
                return res and res * factor

            @classmethod
            @inject
            def class_method(cls, res: str = resource()) -> Any:
                return cls, res

            @staticmethod
            @inject
            def static_method(res: str = resource()) -> str:
                return res

        service = Service()
        async with RecordingContext(log):
            add_resource("ab")
            assert service.sync_method(2) == "abab"
            assert await service.async_method(2) is None
            add_resource("cd", "other")
            assert await service.async_method(factor=2) == "cdcd"
            assert Service.class_method() == (Service, "ab")
            assert service.static_method() == "ab"

        assert log == [
            ("ctx", "nowait", (str, "default"), {}),
            ("ctx", "async", (str, "other"), {"optional": True}),
            ("ctx", "async", (str, "other"), {"optional": True}),
            ("ctx", "nowait", (str, "default"), {}),
            ("ctx", "nowait", (str, "default"), {}),
        ]
