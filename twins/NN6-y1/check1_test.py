"""
Behaviour checks for refactoring 1 (guard clauses / local aliases in ``inject``).

Focus: decoration-time validation of the signature, the choice between the sync and
async wrapper, the "nothing to inject" warning, and lazy resolution of the type hints
(including optional/union handling) on the first call.
"""

from __future__ import annotations

import inspect
import sys
import warnings
from typing import Any, Optional, Union

import pytest

from asphalt.core import (
    Context,
    NoCurrentContext,
    ResourceNotFound,
    add_resource,
    inject,
    resource,
)

pytestmark = pytest.mark.anyio()

UNION_ERROR = (
    "Unions are only valid with dependency injection when there are exactly two "
    "items and other item is None"
)


class LateGlobal:
    """Referenced through string annotations below."""


class TestDecorationTime:
    def test_positional_only_rejected_before_annotation_check(self) -> None:
        # positional-only AND unannotated: the positional-only complaint wins
        def func(foo, bar=resource(), /):  # type: ignore[no-untyped-def]
            pass

        with pytest.raises(TypeError) as exc:
            inject(func)

        assert str(exc.value) == (
            "Cannot inject dependency to positional-only parameter 'bar'"
        )

    def test_missing_annotation_message_is_quoted(self) -> None:
        def func(foo: int, *, bar=resource("x")):  # type: ignore[no-untyped-def]
            pass

        with pytest.raises(TypeError) as exc:
            inject(func)

        assert str(exc.value) == (
            f"Dependency for parameter 'bar' of function "
            f"'{__name__}.TestDecorationTime.test_missing_annotation_message_is_quoted"
            f".<locals>.func' is missing the type annotation"
        )

    def test_resource_function_without_parentheses(self) -> None:
        def func(foo: int, bar: str = resource) -> None:  # type: ignore[assignment]
            pass

        with pytest.raises(TypeError) as exc:
            inject(func)

        assert str(exc.value) == (
            f"Default value for parameter 'bar' of function "
            f"{__name__}.TestDecorationTime.test_resource_function_without_parentheses"
            f".<locals>.func was the 'resource' function – did you forget "
            f"to add the parentheses at the end?"
        )

    def test_first_offending_parameter_is_reported(self) -> None:
        # "a" is fine, "b" lacks the parentheses, "c" lacks an annotation:
        # parameters are checked in signature order, so "b" is reported
        def func(a: int = resource(), b: str = resource, *, c=resource()):  # type: ignore
            pass

        with pytest.raises(TypeError, match="Default value for parameter 'b' "):
            inject(func)

        def func2(a: int = resource(), *, c=resource(), b: str = resource):  # type: ignore
            pass

        with pytest.raises(TypeError, match="Dependency for parameter 'c' "):
            inject(func2)

    def test_no_injectables_warns_and_returns_original(self) -> None:
        def func(foo: int, bar: str = "x") -> None:
            pass

        with warnings.catch_warnings(record=True) as caught:
            warnings.simplefilter("always")
            result = inject(func)

        assert result is func
        assert len(caught) == 1
        assert caught[0].category is UserWarning
        assert str(caught[0].message) == (
            f"{__name__}.TestDecorationTime."
            f"test_no_injectables_warns_and_returns_original.<locals>.func "
            f"does not have any injectable resources declared"
        )

    def test_no_injectables_async_function(self) -> None:
        async def func(foo: int) -> None:
            pass

        with pytest.warns(UserWarning, match="does not have any injectable"):
            assert inject(func) is func

    def test_wrapper_kind_and_metadata(self) -> None:
        def sync_func(foo: int, bar: str = resource()) -> str:
            """Sync doc."""
            return bar

        async def async_func(foo: int, bar: str = resource()) -> str:
            """Async doc."""
            return bar

        with warnings.catch_warnings():
            warnings.simplefilter("error")
            wrapped_sync = inject(sync_func)
            wrapped_async = inject(async_func)

        assert wrapped_sync is not sync_func
        assert wrapped_async is not async_func
        assert not inspect.iscoroutinefunction(wrapped_sync)
        assert inspect.iscoroutinefunction(wrapped_async)
        for wrapper, original in (
            (wrapped_sync, sync_func),
            (wrapped_async, async_func),
        ):
            assert wrapper.__wrapped__ is original  # type: ignore[attr-defined]
            assert wrapper.__name__ == original.__name__
            assert wrapper.__qualname__ == original.__qualname__
            assert wrapper.__doc__ == original.__doc__
            assert list(inspect.signature(wrapper).parameters) == ["foo", "bar"]

    def test_no_type_hint_resolution_at_decoration_time(self) -> None:
        # An unresolvable forward reference must not matter until the first call
        @inject
        def func(bar: "DoesNotExistAnywhere" = resource()) -> Any:  # type: ignore # noqa
            return bar

        assert callable(func)


class TestLazyTypeHintResolution:
    async def test_global_forward_reference(self) -> None:
        @inject
        def func(thing: "LateGlobal" = resource()) -> Any:
            return thing

        instance = LateGlobal()
        async with Context():
            add_resource(instance)
            assert func() is instance
            assert func() is instance

    async def test_local_forward_reference(self) -> None:
        class LocalThing:
            pass

        @inject
        async def func(thing: "LocalThing" = resource("named")) -> Any:
            return thing

        instance = LocalThing()
        async with Context():
            add_resource(instance, "named")
            assert await func() is instance

    async def test_unresolvable_reference_raises_name_error_every_call(self) -> None:
        @inject
        def func(bar: "DoesNotExistAnywhere" = resource()) -> Any:  # type: ignore # noqa
            return bar

        async with Context():
            for _ in range(2):
                with pytest.raises(NameError, match="DoesNotExistAnywhere"):
                    func()

    def test_type_hints_resolved_before_context_lookup(self) -> None:
        # No context is active: a bad annotation is still reported first ...
        @inject
        def bad(bar: "DoesNotExistAnywhere" = resource()) -> Any:  # type: ignore # noqa
            return bar

        with pytest.raises(NameError):
            bad()

        # ... and a good one gets as far as the context lookup
        @inject
        def good(bar: "LateGlobal" = resource()) -> Any:
            return bar

        with pytest.raises(NoCurrentContext):
            good()

    @pytest.mark.parametrize(
        "annotation",
        [
            pytest.param(Optional[str], id="Optional"),
            pytest.param(Union[str, None], id="Union-str-None"),
            pytest.param(Union[None, str], id="Union-None-str"),
            pytest.param("str | None", id="pep604-string"),
            pytest.param("None | str", id="pep604-string-reversed"),
            pytest.param("Optional[str]", id="Optional-string"),
        ],
    )
    async def test_optional_forms(self, annotation: Any) -> None:
        @inject
        def sync_func(res: annotation = resource()) -> Any:
            return res

        @inject
        async def async_func(*, res: annotation = resource()) -> Any:
            return res

        async with Context():
            assert sync_func() is None
            assert await async_func() is None
            add_resource("value")
            assert sync_func() == "value"
            assert await async_func() == "value"

    @pytest.mark.parametrize(
        "annotation",
        [
            pytest.param(Union[str, int], id="two-types"),
            pytest.param(Union[str, int, None], id="two-types-and-None"),
            pytest.param("str | int | None", id="pep604-three"),
            pytest.param("str | bytes", id="pep604-two-types"),
        ],
    )
    async def test_bad_unions_raise_on_every_call(self, annotation: Any) -> None:
        @inject
        def sync_func(res: annotation = resource()) -> Any:
            return res

        @inject
        async def async_func(res: annotation = resource()) -> Any:
            return res

        async with Context():
            add_resource("value")
            add_resource(5)
            for _ in range(2):
                with pytest.raises(TypeError) as exc:
                    sync_func()

                assert str(exc.value) == UNION_ERROR
                with pytest.raises(TypeError) as exc:
                    await async_func()

                assert str(exc.value) == UNION_ERROR

    async def test_earlier_parameters_processed_before_bad_union(self) -> None:
        first = resource()
        second = resource()
        third = resource()

        @inject
        def func(
            a: Optional[int] = first,
            b: Union[int, str] = second,
            c: Optional[str] = third,
        ) -> Any:
            return a, b, c

        async with Context():
            with pytest.raises(TypeError, match="Unions are only valid"):
                func()

        # the markers record what was resolved up to the failure
        assert first.cls is int
        assert first.optional is True
        assert second.cls == Union[int, str]
        assert second.optional is False
        assert third.optional is False
        with pytest.raises(AttributeError, match="did you forget"):
            third.cls

    async def test_non_union_generic_annotation(self) -> None:
        @inject
        def func(items: "list[int]" = resource()) -> Any:
            return items

        async with Context():
            with pytest.raises(ResourceNotFound):
                func()

    async def test_marker_records_resolved_type(self) -> None:
        marker = resource("special")
        assert marker.name == "special"
        assert marker.optional is False
        assert repr(marker) == "_Dependency(name='special', optional=False)"

        @inject
        def func(res: Optional[LateGlobal] = marker) -> Any:
            return res

        async with Context():
            assert func() is None

        assert marker.cls is LateGlobal
        assert marker.optional is True

    @pytest.mark.skipif(sys.version_info < (3, 10), reason="Requires Python 3.10+")
    async def test_real_union_type_object(self) -> None:
        def func(res=resource()):  # type: ignore[no-untyped-def]
            return res

        func.__annotations__["res"] = int | None
        wrapped = inject(func)
        async with Context():
            assert wrapped() is None
            add_resource(7)
            assert wrapped() == 7
