"""
Behaviour check for refactoring 1 (local renames, walrus removal, flipped miss tail in
``Context.get_resource`` / ``Context.get_resource_nowait``).

Only the public API is used.  The file must pass on the unchanged source as well as
with the refactoring applied.
"""

from __future__ import annotations

from collections.abc import AsyncGenerator, AsyncIterator
from contextlib import asynccontextmanager
from typing import Any

import pytest
from anyio import fail_after

from asphalt.core import (
    AsyncResourceError,
    Context,
    NoCurrentContext,
    ResourceEvent,
    ResourceNotFound,
    get_resource,
    get_resource_nowait,
    get_resources,
)

pytestmark = pytest.mark.anyio()


class _Sentinel:
    pass


class Recorder:
    """Collects the ``resource_added`` events of a context in dispatch order."""

    def __init__(self, ctx: Context, stream: AsyncIterator[ResourceEvent]) -> None:
        self.ctx = ctx
        self.stream = stream
        self.count = 0

    async def drain(self) -> list[tuple[Any, ...]]:
        self.count += 1
        marker = f"sentinel_{self.count}"
        self.ctx.add_resource(_Sentinel(), marker)
        seen: list[tuple[Any, ...]] = []
        with fail_after(3):
            async for event in self.stream:
                if event.resource_name == marker:
                    break

                assert event.source is self.ctx
                assert event.topic == "resource_added"
                seen.append(
                    (
                        event.resource_types,
                        event.resource_name,
                        event.resource_description,
                        event.is_factory,
                    )
                )

        return seen


@asynccontextmanager
async def recording(ctx: Context) -> AsyncGenerator[Recorder, None]:
    async with ctx.resource_added.stream_events(max_queue_size=200) as stream:
        yield Recorder(ctx, stream)


@pytest.fixture
async def context() -> AsyncGenerator[Context, None]:
    async with Context() as ctx:
        yield ctx


@pytest.mark.parametrize("name", ["default", "other"])
async def test_miss_raises_with_details(context: Context, name: str) -> None:
    calls: list[str] = []

    def factory() -> str:
        calls.append("called")
        return "generated"

    # A factory and a resource under *other* keys must not satisfy the lookup
    context.add_resource_factory(factory, "unrelated")
    context.add_resource(1.5, name)

    async with recording(context) as recorder:
        with pytest.raises(ResourceNotFound) as exc_sync:
            context.get_resource_nowait(str, name)

        with pytest.raises(ResourceNotFound) as exc_async:
            await context.get_resource(str, name)

        with pytest.raises(ResourceNotFound) as exc_explicit:
            context.get_resource_nowait(str, name, optional=False)

        for excinfo in (exc_sync, exc_async, exc_explicit):
            assert isinstance(excinfo.value, LookupError)
            assert excinfo.value.type is str
            assert excinfo.value.name == name
            assert excinfo.value.args == (str, name)
            assert str(excinfo.value) == (
                f"no matching resource was found for type=str name={name!r}"
            )
            assert excinfo.value.__cause__ is None
            assert excinfo.value.__context__ is None

        assert await recorder.drain() == []

    assert calls == []


async def test_miss_optional_returns_none(context: Context) -> None:
    calls: list[str] = []

    def factory() -> str:
        calls.append("called")
        return "generated"

    context.add_resource_factory(factory, "unrelated")
    async with recording(context) as recorder:
        assert context.get_resource_nowait(str, optional=True) is None
        assert await context.get_resource(str, optional=True) is None
        assert context.get_resource_nowait(int, "unrelated", optional=True) is None
        assert await context.get_resource(int, "unrelated", optional=True) is None
        assert await recorder.drain() == []

    assert calls == []
    # A miss leaves nothing behind
    assert context.get_resources(str) == {}
    with pytest.raises(ResourceNotFound):
        context.get_resource_nowait(str)


async def test_optional_does_not_suppress_generation(context: Context) -> None:
    calls: list[int] = []

    def factory() -> int:
        calls.append(len(calls))
        return 100 + len(calls)

    context.add_resource_factory(factory, description="numbers")
    async with recording(context) as recorder:
        assert context.get_resource_nowait(int, optional=True) == 101
        assert await context.get_resource(int, optional=True) == 101
        assert context.get_resource_nowait(int) == 101
        assert await recorder.drain() == [((int,), "default", "numbers", False)]

    assert calls == [0]


async def test_existing_resource_wins_over_factory(context: Context) -> None:
    calls: list[str] = []

    def factory() -> int:
        calls.append("called")
        return -1

    context.add_resource_factory(factory)
    context.add_resource(42)
    async with recording(context) as recorder:
        assert context.get_resource_nowait(int) == 42
        assert await context.get_resource(int) == 42
        assert context.get_resource_nowait(int, optional=True) == 42
        assert await recorder.drain() == []

    assert calls == []
    assert context.get_resources(int) == {"default": 42}


async def test_falsy_resource_values_are_found(context: Context) -> None:
    context.add_resource(0)
    context.add_resource("", "empty")
    context.add_resource([], "empty", types=[list])
    assert context.get_resource_nowait(int) == 0
    assert await context.get_resource(int) == 0
    assert context.get_resource_nowait(str, "empty") == ""
    assert await context.get_resource(list, "empty") == []


@pytest.mark.parametrize("nowait", [True, False])
async def test_factory_returning_none_is_cached(context: Context, nowait: bool) -> None:
    calls: list[str] = []

    def factory() -> Any:
        calls.append("called")
        return None

    context.add_resource_factory(factory, types=[int])
    async with recording(context) as recorder:
        if nowait:
            assert context.get_resource_nowait(int) is None
            assert context.get_resource_nowait(int) is None
        else:
            assert await context.get_resource(int) is None
            assert await context.get_resource(int) is None

        assert await recorder.drain() == [((int,), "default", None, False)]

    assert calls == ["called"]
    assert context.get_resources(int) == {"default": None}


async def test_sync_factory_generates_once(context: Context) -> None:
    calls: list[str] = []

    def factory() -> str:
        calls.append("called")
        return f"value{len(calls)}"

    context.add_resource_factory(factory, "named", description="a string")
    async with recording(context) as recorder:
        assert await context.get_resource(str, "named") == "value1"
        assert context.get_resource_nowait(str, "named") == "value1"
        assert await recorder.drain() == [((str,), "named", "a string", False)]

    assert calls == ["called"]


async def test_async_factory(context: Context) -> None:
    calls: list[str] = []

    async def generate() -> str:
        started.append("started")
        return f"value{len(calls)}"

    def factory() -> Any:
        calls.append("called")
        return generate()

    started: list[str] = []
    context.add_resource_factory(factory, types=[str])
    async with recording(context) as recorder:
        with pytest.raises(AsyncResourceError):
            context.get_resource_nowait(str)

        # The failed attempt called the factory, but stored and announced nothing
        assert calls == ["called"]
        assert context.get_resources(str) == {}
        assert await recorder.drain() == []

        with pytest.raises(AsyncResourceError):
            context.get_resource_nowait(str, optional=True)

        assert calls == ["called"] * 2
        assert await context.get_resource(str) == "value3"
        assert context.get_resource_nowait(str) == "value3"
        assert await recorder.drain() == [((str,), "default", None, False)]

    assert calls == ["called"] * 3
    # The coroutines of the two failed attempts were closed without being run
    assert started == ["started"]


@pytest.mark.parametrize("nowait", [True, False])
async def test_factory_error_propagates(context: Context, nowait: bool) -> None:
    attempts: list[int] = []

    def factory() -> int:
        attempts.append(len(attempts))
        if len(attempts) == 1:
            raise ZeroDivisionError("first attempt fails")

        return 7

    context.add_resource_factory(factory)
    async with recording(context) as recorder:
        with pytest.raises(ZeroDivisionError, match="first attempt fails"):
            if nowait:
                context.get_resource_nowait(int, optional=True)
            else:
                await context.get_resource(int, optional=True)

        assert context.get_resources(int) == {}
        assert await recorder.drain() == []
        if nowait:
            assert context.get_resource_nowait(int) == 7
        else:
            assert await context.get_resource(int) == 7

        assert await recorder.drain() == [((int,), "default", None, False)]

    assert attempts == [0, 1]


async def test_state_checks() -> None:
    ctx = Context()
    with pytest.raises(RuntimeError, match="this context has not been entered yet"):
        ctx.get_resource_nowait(int, optional=True)

    with pytest.raises(RuntimeError, match="this context has not been entered yet"):
        await ctx.get_resource(int, optional=True)

    async with ctx:
        ctx.add_resource(3)

    with pytest.raises(RuntimeError, match="this context has already been closed"):
        ctx.get_resource_nowait(int)

    with pytest.raises(RuntimeError, match="this context has already been closed"):
        await ctx.get_resource(int)


async def test_lookup_while_closing() -> None:
    seen: list[Any] = []

    def factory() -> str:
        return "late"

    async def teardown() -> None:
        seen.append(ctx.get_resource_nowait(int))
        seen.append(await ctx.get_resource(str))
        seen.append(ctx.get_resource_nowait(float, optional=True))
        try:
            await ctx.get_resource(float)
        except ResourceNotFound as exc:
            seen.append(str(exc))

    async with Context() as ctx:
        ctx.add_resource(3)
        ctx.add_resource_factory(factory)
        ctx.add_teardown_callback(teardown)

    assert seen == [
        3,
        "late",
        None,
        "no matching resource was found for type=float name='default'",
    ]


async def test_module_level_shortcuts() -> None:
    with pytest.raises(NoCurrentContext):
        get_resource_nowait(int)

    with pytest.raises(NoCurrentContext):
        await get_resource(int)

    with pytest.raises(NoCurrentContext):
        get_resources(int)

    def factory() -> float:
        return 2.5

    async with Context() as ctx:
        ctx.add_resource(1)
        ctx.add_resource_factory(factory, "gen")
        assert get_resource_nowait(int) == 1
        assert await get_resource(int) == 1
        assert get_resource_nowait(float, "gen") == 2.5
        assert await get_resource(float, "gen") == 2.5
        assert get_resource_nowait(str, optional=True) is None
        assert await get_resource(str, optional=True) is None
        with pytest.raises(ResourceNotFound, match="type=str name='x'"):
            get_resource_nowait(str, "x")

        with pytest.raises(ResourceNotFound, match="type=str name='x'"):
            await get_resource(str, "x")

        assert get_resources(float) == {"gen": 2.5}
