"""
Behaviour check for refactoring 2 (guard clauses / early return / ``continue``).

Focus: the paths that the restructured control flow distinguishes - falsy arguments
(None, empty dict), "nothing to override", keys that are merged vs. replaced - plus
key ordering and the freshness of the returned dictionary.
"""

from __future__ import annotations

import copy
from types import MappingProxyType
from typing import Any

import pytest

from asphalt.core import merge_config


@pytest.mark.parametrize(
    "original, overrides, expected",
    [
        pytest.param(None, None, {}, id="both_none"),
        pytest.param({}, {}, {}, id="both_empty"),
        pytest.param(None, {}, {}, id="none_empty"),
        pytest.param({}, None, {}, id="empty_none"),
        pytest.param({"a": {"b": 1}}, None, {"a": {"b": 1}}, id="override_none"),
        pytest.param({"a": {"b": 1}}, {}, {"a": {"b": 1}}, id="override_empty"),
        pytest.param(None, {"a": {"b": 1}}, {"a": {"b": 1}}, id="original_none"),
        pytest.param({}, {"a": {"b": 1}}, {"a": {"b": 1}}, id="original_empty"),
    ],
)
def test_none_and_empty_arguments(
    original: dict[str, Any] | None,
    overrides: dict[str, Any] | None,
    expected: dict[str, Any],
) -> None:
    original_snapshot = copy.deepcopy(original)
    overrides_snapshot = copy.deepcopy(overrides)
    result = merge_config(original, overrides)
    assert result == expected
    assert type(result) is dict
    assert result is not original
    assert result is not overrides
    assert original == original_snapshot
    assert overrides == overrides_snapshot


def test_result_is_always_a_new_top_level_dict() -> None:
    original = {"a": 1}
    first = merge_config(original, None)
    second = merge_config(original, None)
    assert first == second == original
    assert first is not second
    first["b"] = 2
    assert original == {"a": 1}
    assert second == {"a": 1}


def test_empty_nested_dicts() -> None:
    # empty dict vs. non-empty dict, both directions, and empty vs. scalar
    original = {"a": {}, "b": {"x": 1}, "c": {}, "d": 1, "e": {}}
    overrides = {"a": {"y": 2}, "b": {}, "c": {}, "d": {}, "e": 0}
    original_snapshot = copy.deepcopy(original)
    overrides_snapshot = copy.deepcopy(overrides)
    result = merge_config(original, overrides)
    assert result == {"a": {"y": 2}, "b": {"x": 1}, "c": {}, "d": {}, "e": 0}
    for key in ("a", "b", "c"):
        assert result[key] is not original[key]
        assert result[key] is not overrides[key]

    result["a"]["added"] = 1
    result["b"]["added"] = 1
    result["c"]["added"] = 1
    assert original == original_snapshot
    assert overrides == overrides_snapshot


def test_key_order() -> None:
    original = {"z": 1, "m": {"b": 1, "a": 2}, "a": 3}
    overrides = {"q": 0, "a": 4, "m": {"c": 3, "a": 5}, "b": 9}
    result = merge_config(original, overrides)
    # original keys keep their position; new keys are appended in override order
    assert list(result) == ["z", "m", "a", "q", "b"]
    assert list(result["m"]) == ["b", "a", "c"]
    assert result == {"z": 1, "m": {"b": 1, "a": 5, "c": 3}, "a": 4, "q": 0, "b": 9}


def test_mixture_of_merged_and_replaced_keys_in_one_pass() -> None:
    original = {"k1": {"a": 1}, "k2": {"a": 1}, "k3": 3, "k4": None, "k5": [1]}
    overrides = {
        "k1": {"b": 2},  # merged
        "k2": "text",  # replaced (dict -> scalar)
        "k3": {"c": 3},  # replaced (scalar -> dict)
        "k4": {"d": 4},  # replaced (None -> dict)
        "k5": {"e": 5},  # replaced (list -> dict)
        "k6": None,  # added
    }
    assert merge_config(original, overrides) == {
        "k1": {"a": 1, "b": 2},
        "k2": "text",
        "k3": {"c": 3},
        "k4": {"d": 4},
        "k5": {"e": 5},
        "k6": None,
    }


def test_non_dict_mappings_are_accepted_at_top_level_only() -> None:
    original = MappingProxyType({"a": {"x": 1}, "b": 1})
    overrides = MappingProxyType({"a": {"y": 2}, "c": MappingProxyType({"k": 1})})
    result = merge_config(original, overrides)
    assert type(result) is dict
    assert result == {"a": {"x": 1, "y": 2}, "b": 1, "c": {"k": 1}}
    # a nested non-dict mapping is an ordinary value: it replaces, and is replaced
    nested = MappingProxyType({"k": 1})
    assert merge_config({"c": {"j": 0}}, {"c": nested})["c"] is nested
    assert merge_config({"c": nested}, {"c": {"j": 0}}) == {"c": {"j": 0}}


def test_chained_merges_like_the_cli_does() -> None:
    config: dict[str, Any] = {}
    layers: list[dict[str, Any] | None] = [
        {"component": {"type": "a", "components": {"x": {"v": 1}}}, "logging": None},
        None,
        {"component": {"components": {"x": {"w": 2}, "y": None}}},
        {},
        {"logging": {"version": 1, "loggers": {"asphalt.core": {"level": "INFO"}}}},
        {"logging": {"loggers": {"asphalt.core": {"level": "DEBUG"}}}},
    ]
    snapshots = copy.deepcopy(layers)
    for layer in layers:
        config = merge_config(config, layer)

    assert layers == snapshots
    assert config == {
        "component": {"type": "a", "components": {"x": {"v": 1, "w": 2}, "y": None}},
        "logging": {
            "version": 1,
            "loggers": {"asphalt.core": {"level": "DEBUG"}},
        },
    }
