#!/usr/bin/env python3
"""Print the normal form (after the normalisation and inlining pre-passes) of the functions whose
qualified name ends with one of the given suffixes, optionally with a unified diff applied to
/repo's sources in memory.  Debugging aid for rule work; not used by any registered check.

usage: tools/show_normal_form.py [--diff FILE] SUFFIX..."""
import ast
import os
import sys

sys.path.insert(0, os.path.dirname(os.path.dirname(os.path.abspath(__file__))))
from sa.driver import repo_root  # noqa: E402
from sa.loader import Project  # noqa: E402
from selftest.udiff import apply_unified  # noqa: E402


def main() -> None:
    args = sys.argv[1:]
    ov = None
    if args and args[0] == "--diff":
        base = Project(repo_root(), inline=False)
        sources = {m.relpath: m.src for m in base.modules.values()}
        ov = apply_unified(sources, open(args[1]).read())
        args = args[2:]
    p = Project(repo_root(), overrides=ov) if ov else Project(repo_root())
    for line in p.inline_log:
        print("#", line)
    for f in p.all_functions():
        if any(f.qualname.endswith(s) for s in args):
            print("#", f.qualname)
            print(ast.unparse(f.node))
            print()


if __name__ == "__main__":
    main()
