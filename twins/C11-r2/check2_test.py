"""
Behaviour check for refactoring 2 (C11): the per-declaration registry of bound signals.

Exercises many instances x many attributes with interleaved subscribe / dispatch
histories, checks that every (instance, attribute) pair is its own channel and that
the registry neither leaks instances nor hands out stale bindings.
"""

from __future__ import annotations

import dataclasses
import gc
import random
import weakref

import pytest
from anyio import create_task_group, fail_after
from anyio.lowlevel import checkpoint

from asphalt.core import Event, Signal, UnboundSignal, stream_events, wait_event

pytestmark = pytest.mark.anyio


@pytest.fixture
def anyio_backend() -> str:
    return "asyncio"


class Ping(Event):
    def __init__(self, tag: object) -> None:
        self.tag = tag


class Pong(Event):
    def __init__(self, tag: object) -> None:
        self.tag = tag


class SubPing(Ping):
    pass


class Node:
    ping = Signal(Ping)
    pong = Signal(Pong)
    other_ping = Signal(Ping)


class Leaf(Node):
    leaf_only = Signal(SubPing)


EVENT_CLASSES = {"ping": Ping, "pong": Pong, "other_ping": Ping, "leaf_only": SubPing}


async def test_matrix_of_channels_is_fully_isolated() -> None:
    nodes = [Node(), Leaf(), Leaf(), Node()]
    channels = [
        (i, name)
        for i, node in enumerate(nodes)
        for name in EVENT_CLASSES
        if hasattr(type(node), name)
    ]
    rng = random.Random(11)
    rng.shuffle(channels)

    from contextlib import AsyncExitStack

    async with AsyncExitStack() as stack:
        streams = {}
        for i, name in channels:
            streams[i, name] = await stack.enter_async_context(
                getattr(nodes[i], name).stream_events()
            )

        # dispatch history: 3 rounds in varying orders
        expected: dict[tuple[int, str], list[Event]] = {c: [] for c in channels}
        for round_no in range(3):
            order = channels[:]
            rng.shuffle(order)
            for i, name in order:
                event = EVENT_CLASSES[name]((i, name, round_no))
                getattr(nodes[i], name).dispatch(event)
                expected[i, name].append(event)

        await checkpoint()
        for channel, stream in streams.items():
            got = []
            for _ in range(3):
                with fail_after(1):
                    got.append(await stream.__anext__())

            assert [id(e) for e in got] == [id(e) for e in expected[channel]]
            for event in got:
                assert event.source is nodes[channel[0]]
                assert event.topic == channel[1]
                assert event.tag[:2] == channel

        # No extra deliveries anywhere: one sentinel per channel must come next
        for i, name in channels:
            getattr(nodes[i], name).dispatch(EVENT_CLASSES[name]("sentinel"))
        for channel, stream in streams.items():
            with fail_after(1):
                event = await stream.__anext__()
            assert event.tag == "sentinel"
            assert event.source is nodes[channel[0]] and event.topic == channel[1]


async def test_multi_signal_stream_gets_only_its_channels() -> None:
    a, b = Node(), Node()
    async with stream_events([a.ping, b.other_ping]) as stream:
        b.ping.dispatch(Ping("b.ping"))  # not subscribed
        a.other_ping.dispatch(Ping("a.other_ping"))  # not subscribed
        a.pong.dispatch(Pong("a.pong"))  # not subscribed
        b.other_ping.dispatch(Ping("b.other_ping"))
        a.ping.dispatch(Ping("a.ping"))
        tags = []
        for _ in range(2):
            with fail_after(1):
                tags.append((await stream.__anext__()).tag)

    assert tags == ["b.other_ping", "a.ping"]


async def test_wait_event_only_sees_own_channel() -> None:
    a, b = Node(), Leaf()
    results: list[Event] = []

    async def waiter() -> None:
        results.append(await wait_event([b.ping]))

    async with create_task_group() as tg:
        tg.start_soon(waiter)
        await checkpoint()
        await checkpoint()
        a.ping.dispatch(Ping("wrong instance"))
        b.other_ping.dispatch(Ping("wrong attribute"))
        b.leaf_only.dispatch(SubPing("wrong attribute 2"))
        await checkpoint()
        assert results == []
        right = Ping("right")
        b.ping.dispatch(right)

    assert results == [right]


async def test_subscription_lifetime_is_per_channel() -> None:
    a, b = Node(), Node()
    async with a.ping.stream_events() as outer:
        async with b.ping.stream_events() as inner_b, a.pong.stream_events() as inner:
            a.ping.dispatch(Ping(1))
            b.ping.dispatch(Ping(2))
            a.pong.dispatch(Pong(3))
            with fail_after(1):
                assert (await inner_b.__anext__()).tag == 2
                assert (await inner.__anext__()).tag == 3

        # closing the inner subscriptions did not affect a.ping's subscriber
        a.ping.dispatch(Ping(4))
        b.ping.dispatch(Ping(5))  # nobody listening now; must not reach outer
        a.ping.dispatch(Ping(6))
        with fail_after(1):
            assert [(await outer.__anext__()).tag for _ in range(3)] == [1, 4, 6]


def test_wrong_event_class_is_rejected_per_channel() -> None:
    node = Leaf()
    with pytest.raises(TypeError, match="Event type mismatch"):
        node.ping.dispatch(Pong("x"))  # type: ignore[arg-type]
    with pytest.raises(TypeError, match="Event type mismatch"):
        node.pong.dispatch(Ping("x"))  # type: ignore[arg-type]
    with pytest.raises(TypeError, match="Event type mismatch"):
        node.leaf_only.dispatch(Ping("x"))  # type: ignore[arg-type]
    # subclass events are accepted
    node.ping.dispatch(SubPing("ok"))
    node.other_ping.dispatch(SubPing("ok"))


def test_registry_does_not_leak_or_go_stale() -> None:
    declaration = Node.ping
    refs = []
    for round_no in range(3):
        batch = [Leaf() for _ in range(10)]
        bound = [n.ping for n in batch]
        assert len({id(s) for s in bound}) == 10
        assert all(n.ping is s for n, s in zip(batch, bound))
        refs.extend(weakref.ref(n) for n in batch)
        del batch
        gc.collect()
        # the bound signals alone do not keep their owners alive
        assert all(r() is None for r in refs)
        del bound

    assert Node.ping is declaration
    with pytest.raises(UnboundSignal):
        declaration.dispatch(Ping("x"))


def test_declaration_public_shape_unchanged() -> None:
    declaration = Node.__dict__["ping"]
    assert declaration.event_class is Ping
    bound = Node().ping
    assert bound.event_class is Ping
    # the declared dataclass' public constructor signature and compare/repr fields
    fields = {f.name: f for f in dataclasses.fields(Signal)}
    assert [n for n, f in fields.items() if f.init] == ["event_class"]
    assert sorted(n for n, f in fields.items() if f.repr) == [
        "_instance",
        "_send_streams",
        "_topic",
        "event_class",
    ]
    assert "ping" in repr(bound) and "Ping" in repr(bound)
    assert bound != Node().ping  # different owner => not equal
