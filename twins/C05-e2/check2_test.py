"""
Property check C05 (component trees start in order: construct all, prepare, children,
then start), exercised through the public API only.

Must pass both on the unchanged source and with refactor2.diff applied.

Scenario focus of this file: every kind of valid ``timeout`` argument (None, zero, ints,
floats, infinity, fractions), randomly generated trees with resource dependencies
between siblings, parents and children, and repeated / nested start_component() calls.
"""

from __future__ import annotations

import math
import random
from fractions import Fraction
from typing import Any

import anyio
import pytest
from anyio import fail_after, sleep

from asphalt.core import (
    Component,
    Context,
    add_resource,
    add_resource_factory,
    add_teardown_callback,
    get_resource,
    get_resource_nowait,
    start_component,
    start_service_task,
)

pytestmark = pytest.mark.anyio


@pytest.fixture(params=["asyncio", "trio"])
def anyio_backend(request: pytest.FixtureRequest) -> str:
    return request.param


# --------------------------------------------------------------------------------------
# Harness: a configurable component tree that records everything that happens
# --------------------------------------------------------------------------------------

EVENTS: list[tuple[str, str]] = []
TORN_DOWN: list[str] = []


class _Base(Component):
    """
    Configuration keys:

    label       unique name of the node (used in the recorded events)
    children    {alias: spec}
    prepare_delay / start_delay         seconds to sleep in the phase
    prepare_provides / start_provides   names of str resources added in the phase
    prepare_needs / start_needs         names of str resources awaited first in the phase
    prepare_needs_late / start_needs_late   ... awaited after providing its own
    prepare_teardown / start_teardown   register a teardown callback in the phase
    barrier     name of a rendezvous that all siblings sharing it must have reached in
                start() before any of them may continue (proves concurrency)
    """

    def __init__(self, label: str, **spec: Any) -> None:
        self.label = label
        self.spec = spec
        EVENTS.append(("init", label))
        for alias, child_spec in spec.get("children", {}).items():
            self.add_component(alias, **child_spec)

    async def _phase(self, phase: str) -> None:
        EVENTS.append((f"{phase}>", self.label))
        for name in self.spec.get(f"{phase}_needs", ()):
            value = await get_resource(str, name)
            assert value == f"res:{name}"

        delay = self.spec.get(f"{phase}_delay")
        if delay is not None:
            await sleep(delay)

        for name in self.spec.get(f"{phase}_provides", ()):
            add_resource(f"res:{name}", name)

        if phase == "start" and (barrier := self.spec.get("barrier")):
            await BARRIERS[barrier].arrive()

        for name in self.spec.get(f"{phase}_needs_late", ()):
            value = await get_resource(str, name)
            assert value == f"res:{name}"

        if self.spec.get(f"{phase}_teardown"):
            label = self.label
            add_teardown_callback(lambda: TORN_DOWN.append(f"{label}:{phase}"))

        EVENTS.append((f"{phase}<", self.label))


class NodePS(_Base):
    async def prepare(self) -> None:
        await self._phase("prepare")

    async def start(self) -> None:
        await self._phase("start")


class NodeP(_Base):
    async def prepare(self) -> None:
        await self._phase("prepare")


class NodeS(_Base):
    async def start(self) -> None:
        await self._phase("start")


class NodeNone(_Base):
    pass


class Barrier:
    def __init__(self, parties: int) -> None:
        self.parties = parties
        self.arrived = 0
        self.event = anyio.Event()

    async def arrive(self) -> None:
        self.arrived += 1
        if self.arrived == self.parties:
            self.event.set()

        await self.event.wait()


BARRIERS: dict[str, Barrier] = {}


def node(cls: type[_Base], label: str, **spec: Any) -> dict[str, Any]:
    return {"type": cls, "label": label, **spec}


def walk(spec: dict[str, Any]) -> list[dict[str, Any]]:
    found = [spec]
    for child in spec.get("children", {}).values():
        found.extend(walk(child))

    return found


def descendants(spec: dict[str, Any]) -> list[dict[str, Any]]:
    return walk(spec)[1:]


def has(spec: dict[str, Any], phase: str) -> bool:
    return getattr(spec["type"], phase) is not getattr(Component, phase)


def verify_order(root_spec: dict[str, Any], events: list[tuple[str, str]]) -> None:
    nodes = walk(root_spec)
    labels = [n["label"] for n in nodes]
    assert len(set(labels)) == len(labels)

    # The whole hierarchy is instantiated (each component once) before any prepare() or
    # start() runs
    assert sorted(e[1] for e in events[: len(nodes)]) == sorted(labels)
    assert all(e[0] == "init" for e in events[: len(nodes)])
    assert all(e[0] != "init" for e in events[len(nodes) :])

    # Each method exactly once (and never if not implemented)
    for n in nodes:
        for phase in ("prepare", "start"):
            expected = 1 if has(n, phase) else 0
            assert events.count((f"{phase}>", n["label"])) == expected
            assert events.count((f"{phase}<", n["label"])) == expected

    def index(kind: str, label: str) -> int:
        return events.index((kind, label))

    def first_activity(label: str) -> int | None:
        for i, (kind, lbl) in enumerate(events):
            if lbl == label and kind != "init":
                return i

        return None

    for n in nodes:
        if has(n, "prepare") and has(n, "start"):
            assert index("prepare<", n["label"]) < index("start>", n["label"])

        for d in descendants(n):
            # prepare() completes before any of the children (descendants) begin
            if has(n, "prepare") and (first := first_activity(d["label"])) is not None:
                assert index("prepare<", n["label"]) < first

            # start() is called only after the start() (and prepare()) of every
            # descendant has returned
            if has(n, "start"):
                for phase in ("prepare", "start"):
                    if has(d, phase):
                        assert index(f"{phase}<", d["label"]) < index(
                            "start>", n["label"]
                        )


async def run_tree(root_spec: dict[str, Any], **kwargs: Any) -> Component:
    """Start the tree, check the return value and the ordering, return the root."""
    config = {k: v for k, v in root_spec.items() if k != "type"}
    with fail_after(10):
        root = await start_component(root_spec["type"], config, **kwargs)

    assert type(root) is root_spec["type"]
    assert isinstance(root, _Base) and root.label == root_spec["label"]
    if has(root_spec, "start"):
        # start_component() returns only after the root's start() has returned
        assert EVENTS[-1] == ("start<", root_spec["label"])

    verify_order(root_spec, list(EVENTS))
    return root


@pytest.fixture(autouse=True)
def reset() -> None:
    EVENTS.clear()
    TORN_DOWN.clear()
    BARRIERS.clear()


# --------------------------------------------------------------------------------------
# Scenarios
# --------------------------------------------------------------------------------------


def random_tree(seed: int) -> dict[str, Any]:
    """
    Build a random tree where every component with a start() publishes ``out_<label>``,
    every parent with a prepare() publishes ``prep_<label>`` for its descendants, parents
    wait in start() for their children's output and each sibling waits for the output of
    the *next* sibling (against the order in which they were declared).
    """
    rng = random.Random(seed)
    counter = iter(range(10_000))

    def delay() -> float | None:
        return rng.choice([None, None, 0, 0.005, 0.02])

    def build(depth: int, inherited: list[str]) -> dict[str, Any]:
        label = f"n{next(counter)}"
        cls = rng.choice([NodePS, NodePS, NodeS, NodeS, NodeP, NodeNone])
        spec: dict[str, Any] = {}
        available = list(inherited)
        if cls in (NodePS, NodeP):
            spec["prepare_delay"] = delay()
            spec["prepare_provides"] = [f"prep_{label}"]
            if inherited:
                spec["prepare_needs"] = [rng.choice(inherited)]

            available.append(f"prep_{label}")

        fanout = 0 if depth == 0 else rng.choice([0, 1, 1, 2, 3, 4])
        children = [build(depth - 1, available) for _ in range(fanout)]
        for child, next_child in zip(children, children[1:]):
            if child["type"] in (NodePS, NodeS) and next_child["type"] in (
                NodePS,
                NodeS,
            ):
                child["start_needs_late"] = [f"out_{next_child['label']}"]

        if cls in (NodePS, NodeS):
            spec["start_delay"] = delay()
            spec["start_provides"] = [f"out_{label}"]
            spec["start_needs"] = [
                f"out_{child['label']}"
                for child in children
                if child["type"] in (NodePS, NodeS)
            ]
            if available and rng.random() < 0.5:
                spec["start_needs"].append(rng.choice(available))

            spec["start_teardown"] = rng.random() < 0.3

        if children:
            spec["children"] = {f"c{i}": child for i, child in enumerate(children)}

        return node(cls, label, **spec)

    return build(3, [])


def provided(spec: dict[str, Any]) -> list[str]:
    names: list[str] = []
    for n in walk(spec):
        names.extend(n.get("prepare_provides", ()))
        names.extend(n.get("start_provides", ()))

    return names


@pytest.mark.parametrize(
    "timeout",
    [
        pytest.param(None, id="None"),
        pytest.param(0, id="zero"),
        pytest.param(0.0, id="zero-float"),
        pytest.param(6, id="int"),
        pytest.param(6.5, id="float"),
        pytest.param(math.inf, id="inf"),
        pytest.param(Fraction(13, 2), id="fraction"),
    ],
)
async def test_valid_timeouts(timeout: Any) -> None:
    spec = random_tree(4242)
    assert len(walk(spec)) > 5
    async with Context():
        await run_tree(spec, timeout=timeout)
        for name in provided(spec):
            assert get_resource_nowait(str, name) == f"res:{name}"

        assert TORN_DOWN == []

    assert sorted(TORN_DOWN) == sorted(
        f"{n['label']}:start" for n in walk(spec) if n.get("start_teardown")
    )


@pytest.mark.parametrize("seed", range(12))
async def test_random_trees(seed: int) -> None:
    spec = random_tree(seed)
    async with Context() as ctx:
        await run_tree(spec)
        for name in provided(spec):
            assert ctx.get_resource_nowait(str, name) == f"res:{name}"

        assert TORN_DOWN == []

    assert sorted(TORN_DOWN) == sorted(
        f"{n['label']}:start" for n in walk(spec) if n.get("start_teardown")
    )


async def test_two_trees_in_one_context_and_a_nested_one() -> None:
    """
    start_component() may be called several times; each call's registrations land in the
    context that was current for that call.
    """

    class Inner(Component):
        async def start(self) -> None:
            EVENTS.append(("start>", "inner"))
            add_resource("inner", "inner_res")
            add_teardown_callback(lambda: TORN_DOWN.append("inner"))
            EVENTS.append(("start<", "inner"))

    class Outer(Component):
        async def start(self) -> None:
            EVENTS.append(("start>", "outer"))
            # A component may start another tree from within its own startup
            inner = await start_component(Inner, timeout=3)
            assert type(inner) is Inner
            assert get_resource_nowait(str, "inner_res") == "inner"
            add_resource("outer", "outer_res")
            EVENTS.append(("start<", "outer"))

    async with Context() as ctx:
        first = node(NodePS, "first", start_provides=["first_out"], start_teardown=True)
        await run_tree(first, timeout=5)
        async with Context() as sub:
            with fail_after(10):
                outer = await start_component(Outer, {}, timeout=4)

            assert type(outer) is Outer
            assert sub.get_resource_nowait(str, "outer_res") == "outer"
            assert sub.get_resource_nowait(str, "inner_res") == "inner"
            assert sub.get_resource_nowait(str, "first_out") == "res:first_out"
            assert TORN_DOWN == []

        assert TORN_DOWN == ["inner"]
        assert ctx.get_resource_nowait(str, "inner_res", optional=True) is None
        assert ctx.get_resource_nowait(str, "outer_res", optional=True) is None
        assert EVENTS[-4:] == [
            ("start>", "outer"),
            ("start>", "inner"),
            ("start<", "inner"),
            ("start<", "outer"),
        ]

    assert TORN_DOWN == ["inner", "first:start"]


async def test_registrations_belong_to_callers_context() -> None:
    stopped: list[str] = []

    class Registrar(Component):
        def __init__(self, tag: str, nested: bool = False) -> None:
            self.tag = tag
            if nested:
                self.add_component("inner", Registrar, tag=f"{tag}_inner")

        async def prepare(self) -> None:
            add_resource(f"prepared {self.tag}", f"{self.tag}_prepared")

        async def start(self) -> None:
            tag = self.tag

            def factory() -> int:
                return len(tag)

            async def service(*, task_status: Any) -> None:
                task_status.started()
                try:
                    await anyio.sleep_forever()
                finally:
                    stopped.append(tag)

            add_resource_factory(factory, f"{tag}_factory", types=[int])
            add_teardown_callback(lambda: TORN_DOWN.append(tag))
            await start_service_task(service, f"service of {tag}")

    class Top(Component):
        def __init__(self) -> None:
            self.add_component("x", Registrar, tag="x", nested=True)
            self.add_component("y", Registrar, tag="y")

    async with Context() as outer:
        async with Context() as ctx:
            with fail_after(10):
                root = await start_component(Top)

            assert type(root) is Top
            for tag in ("x", "x_inner", "y"):
                assert ctx.get_resource_nowait(str, f"{tag}_prepared") == (
                    f"prepared {tag}"
                )
                assert ctx.get_resource_nowait(int, f"{tag}_factory") == len(tag)

            await sleep(0.02)
            assert TORN_DOWN == [] and stopped == []

        # Torn down with the context that was current during start_component()...
        assert sorted(TORN_DOWN) == ["x", "x_inner", "y"]
        assert sorted(stopped) == ["x", "x_inner", "y"]
        # ...and nothing leaked into the surrounding context
        assert outer.get_resource_nowait(str, "x_prepared", optional=True) is None
