"""
Behaviour check for refactoring 1 (delivery to one subscriber extracted from
``Signal.dispatch`` into ``Signal._deliver``).

Focus: overflow handling (who loses what, who is warned, where the warning points),
non-blocking / non-raising dispatch, ordering and stamping.
"""

from __future__ import annotations

import sys
import warnings
from typing import Any

import pytest
from anyio import create_task_group, fail_after
from anyio.lowlevel import checkpoint

from asphalt.core import Event, Signal, SignalQueueFull, stream_events

pytestmark = pytest.mark.anyio()


class NumEvent(Event):
    def __init__(self, n: int) -> None:
        self.n = n


class OtherEvent(Event):
    pass


class Source:
    sig_a = Signal(NumEvent)
    sig_b = Signal(NumEvent)


async def drain(stream: Any, count: int) -> list[Any]:
    out = []
    with fail_after(3):
        for _ in range(count):
            out.append(await stream.__anext__())
    return out


async def test_overflow_hits_only_the_full_subscriber_and_only_that_event() -> None:
    src = Source()
    async with src.sig_a.stream_events(max_queue_size=2) as small, src.sig_a.stream_events(
        max_queue_size=10
    ) as big:
        events = [NumEvent(i) for i in range(5)]
        with warnings.catch_warnings(record=True) as caught:
            warnings.simplefilter("always")
            for event in events:
                assert src.sig_a.dispatch(event) is None

        full = [w for w in caught if issubclass(w.category, SignalQueueFull)]
        # events 2, 3 and 4 overflow the small queue: one warning each, none for "big"
        assert len(full) == 3
        assert all("Queue full (2)" in str(w.message) for w in full)
        assert all(
            str(w.message)
            == "Queue full (2) when trying to send dispatched event to subscriber"
            for w in full
        )

        assert await drain(small, 2) == events[:2]
        assert await drain(big, 5) == events

        # After draining, the small subscriber receives new events again
        late = NumEvent(99)
        with warnings.catch_warnings():
            warnings.simplefilter("error")
            src.sig_a.dispatch(late)

        assert await drain(small, 1) == [late]
        assert await drain(big, 1) == [late]


async def test_queue_full_warning_is_attributed_to_the_caller_of_dispatch() -> None:
    src = Source()
    async with src.sig_a.stream_events(max_queue_size=1):
        src.sig_a.dispatch(NumEvent(0))
        with warnings.catch_warnings(record=True) as caught:
            warnings.simplefilter("always")
            lineno = sys._getframe().f_lineno + 1
            src.sig_a.dispatch(NumEvent(1))

    assert len(caught) == 1
    assert caught[0].category is SignalQueueFull
    assert caught[0].filename == __file__
    assert caught[0].lineno == lineno


async def test_warning_as_error_propagates_but_earlier_subscribers_got_event() -> None:
    """With the warning turned into an error, it is raised out of dispatch()."""
    src = Source()
    async with src.sig_a.stream_events(max_queue_size=5) as first, src.sig_a.stream_events(
        max_queue_size=1
    ) as second, src.sig_a.stream_events(max_queue_size=5) as third:
        e0, e1 = NumEvent(0), NumEvent(1)
        src.sig_a.dispatch(e0)
        with warnings.catch_warnings():
            warnings.simplefilter("error", SignalQueueFull)
            with pytest.raises(SignalQueueFull):
                src.sig_a.dispatch(e1)

        # Subscribers are served in subscription order; the error escaped at the second
        assert await drain(first, 2) == [e0, e1]
        assert await drain(second, 1) == [e0]
        assert await drain(third, 1) == [e0]
        e2 = NumEvent(2)
        src.sig_a.dispatch(e2)
        assert await drain(second, 1) == [e2]
        assert await drain(third, 1) == [e2]


async def test_dispatch_never_blocks_with_slow_and_abandoned_subscribers() -> None:
    src = Source()
    async with src.sig_a.stream_events(max_queue_size=3) as abandoned:
        # The consumer closes its iterator but the subscription is still in place
        await abandoned.aclose()
        async with src.sig_a.stream_events(max_queue_size=100) as live:
            with warnings.catch_warnings(record=True) as caught:
                warnings.simplefilter("always")
                events = [NumEvent(i) for i in range(10)]
                for event in events:
                    src.sig_a.dispatch(event)  # synchronous: cannot block

            assert len(caught) == 7
            assert await drain(live, 10) == events

    # Everybody is gone; dispatching is still fine and silent
    with warnings.catch_warnings():
        warnings.simplefilter("error")
        src.sig_a.dispatch(NumEvent(1000))


async def test_stamping_and_type_check() -> None:
    src1, src2 = Source(), Source()
    async with stream_events([src1.sig_a, src1.sig_b, src2.sig_a]) as stream:
        e1, e2, e3 = NumEvent(1), NumEvent(2), NumEvent(3)
        src2.sig_a.dispatch(e1)
        src1.sig_b.dispatch(e2)
        src1.sig_a.dispatch(e3)
        with pytest.raises(TypeError, match="Event type mismatch"):
            src1.sig_a.dispatch(OtherEvent())  # type: ignore[arg-type]

        received = await drain(stream, 3)

    assert [e is r for e, r in zip((e1, e2, e3), received)] == [True] * 3
    assert [(e.source, e.topic) for e in received] == [
        (src2, "sig_a"),
        (src1, "sig_b"),
        (src1, "sig_a"),
    ]
    assert all(isinstance(e.time, float) for e in received)
    assert e1.time <= e2.time <= e3.time


async def test_interleaved_producer_and_consumers() -> None:
    src = Source()
    results: dict[str, list[int]] = {"all": [], "even": []}

    async def consume(name: str, filter: Any, count: int, *, task_status: Any) -> None:
        async with src.sig_a.stream_events(filter, max_queue_size=20) as stream:
            task_status.started()
            async for event in stream:
                results[name].append(event.n)
                if len(results[name]) == count:
                    return

    with fail_after(5):
        async with create_task_group() as tg:
            await tg.start(consume, "all", None, 12)
            await tg.start(consume, "even", lambda e: e.n % 2 == 0, 6)
            with warnings.catch_warnings():
                warnings.simplefilter("error")
                for i in range(12):
                    src.sig_a.dispatch(NumEvent(i))
                    if i % 3 == 2:
                        # let consumers catch up (queues are big enough anyway)
                        await checkpoint()
                        await checkpoint()
                        await checkpoint()

    assert results["all"] == list(range(12))
    assert results["even"] == [0, 2, 4, 6, 8, 10]
