"""
Behaviour checks for refactoring 1 (``_runner.py``: guard clauses in the exit code
handling, hoisted exit code limit, walrus removal, signal name computed up front).

Everything goes through the public ``run_application()``.
"""

from __future__ import annotations

import logging
import platform
import signal
import warnings
from typing import Any
from unittest.mock import patch

import pytest
from _pytest.logging import LogCaptureFixture
from anyio import sleep, wait_all_tasks_blocked

from asphalt.core import (
    CLIApplicationComponent,
    Component,
    add_teardown_callback,
    run_application,
    start_service_task,
)

not_windows = pytest.mark.skipif(
    platform.system() == "Windows", reason="Signals don't work on Windows"
)

events: list[Any] = []


@pytest.fixture(autouse=True)
def clear_events() -> None:
    events.clear()


class ExitCodeApp(CLIApplicationComponent):
    def __init__(self, result: Any = None) -> None:
        super().__init__()
        self.result = result

    async def start(self) -> None:
        add_teardown_callback(self.teardown, pass_exception=True)

    def teardown(self, exception: BaseException | None) -> None:
        events.append(("teardown", exception))

    async def run(self) -> Any:
        events.append("run")
        return self.result


class IntSubclass(int):
    pass


def run_and_get_code(config: dict[str, Any], **kwargs: Any) -> Any:
    """Return the SystemExit code, or the string "no exit" if none was raised."""
    try:
        run_application(ExitCodeApp, config, logging=None, **kwargs)
    except SystemExit as exc:
        return exc.code

    return "no exit"


@pytest.mark.parametrize("result", [None, 0, False], ids=["none", "zero", "false"])
def test_falsy_results_do_not_exit(result: Any) -> None:
    with warnings.catch_warnings():
        warnings.simplefilter("error")
        assert run_and_get_code({"result": result}) == "no exit"

    assert events == ["run", ("teardown", None)]


@pytest.mark.parametrize(
    "result", [1, 20, 126, 127, True, IntSubclass(5)], ids=lambda x: repr(x)
)
def test_valid_exit_codes_are_passed_through(result: Any) -> None:
    with warnings.catch_warnings():
        warnings.simplefilter("error")
        code = run_and_get_code({"result": result})

    assert code == result
    assert code is result
    assert events == ["run", ("teardown", None)]


@pytest.mark.parametrize("result", [-1, 128, 1000, -(2**70), IntSubclass(128)])
def test_out_of_range_exit_codes(result: int) -> None:
    with pytest.warns(UserWarning) as record:
        code = run_and_get_code({"result": result})

    assert code == 1
    assert [str(w.message) for w in record] == [f"exit code out of range: {result}"]
    assert events == ["run", ("teardown", None)]


@pytest.mark.parametrize(
    "result, type_name",
    [
        ("foo", "str"),
        (1.0, "float"),
        ([], "list"),
        (ExitCodeApp, "abc.ABCMeta"),
        (logging.getLogger("x"), "logging.Logger"),
    ],
    ids=["str", "float", "list", "class", "logger"],
)
def test_wrong_result_type(result: Any, type_name: str) -> None:
    with pytest.warns(UserWarning) as record:
        code = run_and_get_code({"result": result})

    assert code == 1
    assert [str(w.message) for w in record] == [
        f"run() must return an integer or None, not {type_name}"
    ]
    assert events == ["run", ("teardown", None)]


def test_run_raises(caplog: LogCaptureFixture) -> None:
    """An exception from run() propagates out of run_application()."""

    class FailingApp(ExitCodeApp):
        async def run(self) -> Any:
            raise LookupError("run failed")

    caplog.set_level(logging.INFO, "asphalt.core")
    with pytest.raises(LookupError, match="run failed"):
        run_application(FailingApp, logging=None)

    assert len(events) == 1
    assert events[0][0] == "teardown"
    assert isinstance(events[0][1], LookupError)
    assert caplog.messages == [
        "Running in development mode",
        "Starting application",
        "Application started",
        "Application stopped",
    ]


def test_log_sequence_and_logging_setup(caplog: LogCaptureFixture) -> None:
    caplog.set_level(logging.INFO, "asphalt.core")
    with (
        patch("asphalt.core._runner.basicConfig") as basic_config,
        patch("asphalt.core._runner.dictConfig") as dict_config,
    ):
        with pytest.raises(SystemExit) as exc_info:
            run_application(ExitCodeApp, {"result": 3}, logging=logging.DEBUG)

        basic_config.assert_called_once_with(level=logging.DEBUG)
        assert dict_config.call_count == 0
        basic_config.reset_mock()

        run_application(ExitCodeApp, logging={"version": 1})
        dict_config.assert_called_once_with({"version": 1})
        assert basic_config.call_count == 0

    assert exc_info.value.code == 3
    assert caplog.messages == [
        "Running in development mode",
        "Starting application",
        "Application started",
        "Application stopped",
    ] * 2


class SignalRaiser(Component):
    def __init__(self, signum: int, during_start: bool = False) -> None:
        self.signum = signum
        self.during_start = during_start

    async def raise_later(self) -> None:
        await wait_all_tasks_blocked()
        signal.raise_signal(self.signum)

    async def start(self) -> None:
        add_teardown_callback(lambda: events.append("teardown"))
        if self.during_start:
            signal.raise_signal(self.signum)
            await sleep(3)
        else:
            await start_service_task(self.raise_later, "raiser")


@not_windows
@pytest.mark.parametrize(
    "signum, name",
    [(signal.SIGINT, "Interrupt"), (signal.SIGTERM, "Terminated")],
    ids=["sigint", "sigterm"],
)
def test_signal_after_startup(
    caplog: LogCaptureFixture, signum: int, name: str
) -> None:
    caplog.set_level(logging.INFO, "asphalt.core")
    # A non-CLI component waits for the signal, and then exits without SystemExit
    run_application(SignalRaiser, {"signum": signum}, logging=None)
    assert events == ["teardown"]
    assert caplog.messages == [
        "Running in development mode",
        "Starting application",
        "Application started",
        f"Received signal ({name}) – terminating application",
        "Application stopped",
    ]


@not_windows
def test_signal_name_suffix_is_stripped(caplog: LogCaptureFixture) -> None:
    """The part after the colon (as on macOS) is left out of the log message."""
    caplog.set_level(logging.INFO, "asphalt.core")
    with patch(
        "asphalt.core._runner.signal.strsignal", return_value="Funny: 15: more"
    ) as strsignal:
        run_application(SignalRaiser, {"signum": signal.SIGTERM}, logging=None)

    strsignal.assert_called_once_with(signal.SIGTERM)
    assert "Received signal (Funny) – terminating application" in caplog.messages


@not_windows
def test_unknown_signal_name(caplog: LogCaptureFixture) -> None:
    caplog.set_level(logging.INFO, "asphalt.core")
    with patch("asphalt.core._runner.signal.strsignal", return_value=None):
        run_application(SignalRaiser, {"signum": signal.SIGINT}, logging=None)

    assert "Received signal () – terminating application" in caplog.messages


@not_windows
def test_signal_during_startup(caplog: LogCaptureFixture) -> None:
    caplog.set_level(logging.INFO, "asphalt.core")
    with pytest.raises(SystemExit) as exc_info:
        run_application(
            SignalRaiser,
            {"signum": signal.SIGTERM, "during_start": True},
            logging=None,
        )

    assert exc_info.value.code == 1
    assert events == ["teardown"]
    assert caplog.messages == [
        "Running in development mode",
        "Starting application",
        "Received signal (Terminated) – terminating application",
        "Application stopped",
    ]


def test_startup_error(caplog: LogCaptureFixture) -> None:
    class Crasher(Component):
        async def start(self) -> None:
            raise RuntimeError("startup crash")

    caplog.set_level(logging.INFO, "asphalt.core")
    with pytest.raises(SystemExit) as exc_info:
        run_application(Crasher, logging=None)

    assert exc_info.value.code == 1
    assert caplog.messages == [
        "Running in development mode",
        "Starting application",
        "Error during application startup",
        "Application stopped",
    ]
    record = caplog.records[2]
    assert record.exc_info is not None
    assert type(record.exc_info[1]).__name__ == "ComponentStartError"
    assert isinstance(record.exc_info[1].__cause__, RuntimeError)
    assert str(record.exc_info[1].__cause__) == "startup crash"
