"""Behaviour checks for refactoring 3 (task_status detection, handles, factory)."""

from __future__ import annotations

import logging
import sys
from functools import partial
from typing import Any, NoReturn

import anyio
import pytest
from anyio import Event, fail_after, get_cancelled_exc_class
from anyio.abc import TaskStatus
from pytest import LogCaptureFixture

from asphalt.core import (
    Component,
    Context,
    TaskHandle,
    current_context,
    start_background_task_factory,
    start_component,
    start_service_task,
)

if sys.version_info < (3, 11):
    from exceptiongroup import BaseExceptionGroup

pytestmark = pytest.mark.anyio()


@pytest.fixture
def anyio_backend() -> str:
    return "asyncio"


def flatten(exc: BaseException) -> list[BaseException]:
    if isinstance(exc, BaseExceptionGroup):
        return [leaf for sub in exc.exceptions for leaf in flatten(sub)]

    return [exc]


async def test_task_status_variants() -> None:
    """How "task_status" is detected in the target's signature."""
    calls: list[tuple[str, Any]] = []

    async def keyword_only(*, task_status: TaskStatus[str]) -> None:
        calls.append(("keyword_only", type(task_status).__name__))
        task_status.started("kw")

    async def positional_or_keyword(task_status: TaskStatus[str]) -> None:
        calls.append(("positional_or_keyword", None))
        task_status.started("pk")

    async def with_default(task_status: Any = None) -> None:
        calls.append(("with_default", task_status is not None))
        task_status.started("df")

    async def var_keyword(**kwargs: Any) -> None:
        # **kwargs is not named "task_status": started() is called for the function
        calls.append(("var_keyword", sorted(kwargs)))

    async def named_kwargs(**task_status: Any) -> None:
        # a var-keyword parameter that happens to be named task_status counts
        calls.append(("named_kwargs", sorted(task_status)))
        task_status["task_status"].started("vk")

    async def two_args(a: int, task_status: TaskStatus[str]) -> None:
        calls.append(("two_args", a))
        task_status.started("pa")

    async with Context():
        factory = await start_background_task_factory()
        results = []
        for func in (
            keyword_only,
            positional_or_keyword,
            with_default,
            var_keyword,
            named_kwargs,
            partial(two_args, 7),
        ):
            handle = await factory.start_task(func)
            await handle.wait_finished()
            results.append(handle.start_value)

        assert results == ["kw", "pk", "df", None, "vk", "pa"]
        assert await start_service_task(keyword_only, "svc1") == "kw"
        assert await start_service_task(var_keyword, "svc2") is None

    assert [name for name, _ in calls] == [
        "keyword_only",
        "positional_or_keyword",
        "with_default",
        "var_keyword",
        "named_kwargs",
        "two_args",
        "keyword_only",
        "var_keyword",
    ]
    assert calls[2] == ("with_default", True)
    assert calls[3] == ("var_keyword", [])
    assert calls[4] == ("named_kwargs", ["task_status"])
    assert calls[5] == ("two_args", 7)


async def test_positional_only_task_status_is_not_passed() -> None:
    ns: dict[str, Any] = {}
    exec(
        "async def posonly(task_status=None, /):\n"
        "    seen.append(task_status)\n",
        {"seen": (seen := [])},
        ns,
    )
    async with Context():
        factory = await start_background_task_factory()
        handle = await factory.start_task(ns["posonly"], "posonly")
        assert handle.start_value is None
        await handle.wait_finished()

    assert seen == [None]


async def test_start_soon_with_task_status_gets_ignored_status() -> None:
    got: list[Any] = []

    async def taskfunc(task_status: TaskStatus[str]) -> None:
        got.append(task_status)
        task_status.started("ignored")

    async with Context():
        factory = await start_background_task_factory()
        handle = factory.start_task_soon(taskfunc)
        await handle.wait_finished()
        assert not hasattr(handle, "start_value")

    assert got == [anyio.TASK_STATUS_IGNORED]


async def test_no_signature(caplog: LogCaptureFixture) -> None:
    """A callable with a broken signature fails before the task is "started"."""
    caplog.set_level(logging.DEBUG, "asphalt.core")

    class Weird:
        __signature__ = "not a signature"

        async def __call__(self) -> None:
            pass

    with fail_after(2):
        async with Context():
            with pytest.raises((TypeError, ValueError)):
                await start_service_task(Weird(), "weird")

    assert caplog.messages == []


async def test_task_runs_in_own_context_and_handle_finishes_on_crash(
    caplog: LogCaptureFixture,
) -> None:
    contexts: list[Context] = []
    handled: list[BaseException] = []

    def handler(exc: Exception) -> bool:
        handled.append(exc)
        return True

    async def crasher() -> NoReturn:
        contexts.append(current_context())
        raise LookupError("nope")

    async with Context() as ctx:
        factory = await start_background_task_factory(exception_handler=handler)
        handle = await factory.start_task(crasher, "crasher")
        with fail_after(1):
            await handle.wait_finished()

        assert factory.all_task_handles() == set()
        assert contexts[0] is not ctx
        # task context -> factory service task context -> ctx
        assert contexts[0].parent is not None
        assert contexts[0].parent.parent is ctx

    assert [str(e) for e in handled] == ["nope"]
    assert caplog.messages == ["Background task (crasher) crashed"]


async def test_unhandled_crash_propagates_and_finishes_handle() -> None:
    handles: list[TaskHandle] = []

    def handler(exc: Exception) -> bool:
        return False

    async def crasher() -> NoReturn:
        raise LookupError("nope")

    with pytest.raises(BaseException) as excinfo:
        async with Context():
            factory = await start_background_task_factory(exception_handler=handler)
            handles.append(factory.start_task_soon(crasher))
            await anyio.sleep(1)

    leaves = flatten(excinfo.value)
    assert [type(e) for e in leaves] == [LookupError]
    with fail_after(1):
        await handles[0].wait_finished()

    assert factory.all_task_handles() == set()


async def test_cancelled_task_is_finished_and_untracked(
    caplog: LogCaptureFixture,
) -> None:
    caplog.set_level(logging.DEBUG, "asphalt.core")
    started = Event()
    cancelled = False

    async def taskfunc() -> None:
        nonlocal cancelled
        started.set()
        try:
            await anyio.sleep_forever()
        except get_cancelled_exc_class():
            cancelled = True
            raise

    with fail_after(2):
        async with Context():
            factory = await start_background_task_factory()
            handle = await factory.start_task(taskfunc, "victim")
            other = await factory.start_task(started.wait, "other")
            await other.wait_finished()
            handle.cancel()
            await handle.wait_finished()
            assert cancelled
            assert factory.all_task_handles() == set()
            # the factory still works after a task was cancelled
            again = await factory.start_task(started.wait, "again")
            await again.wait_finished()

    assert "Background task (victim) finished successfully" in caplog.messages
    assert "Background task (again) finished successfully" in caplog.messages


async def test_task_handle_public_surface() -> None:
    handle = TaskHandle("some name")
    assert repr(handle) == "TaskHandle(name='some name')"
    assert handle != TaskHandle("some name")
    assert len({handle, TaskHandle("some name")}) == 2
    with pytest.raises(TypeError):
        TaskHandle("x", 1)  # type: ignore[call-arg]

    # cancelling a handle that never ran is harmless
    handle.cancel()


async def test_component_shortcuts() -> None:
    results: list[Any] = []

    class Comp(Component):
        async def start(self) -> None:
            async def service(task_status: TaskStatus[int]) -> None:
                task_status.started(5)
                await anyio.sleep_forever()

            results.append(await start_service_task(service, "svc"))
            factory = await start_background_task_factory()
            handle = await factory.start_task(partial(anyio.sleep, 0), "nop")
            results.append(handle.name)
            results.append(type(factory).__name__)

    with fail_after(2):
        async with Context():
            await start_component(Comp)

    assert results == [5, "nop", "TaskFactory"]
