"""
Property C02 checks (resources are scoped to the context tree: snapshot down, nothing
up or sideways), with emphasis on the agreement of all lookup paths (context methods,
module level shortcuts, injected parameters, component contexts) on the visible set
(the area touched by evolution 3). repr() is called on the contexts all along, which
must never disturb anything.

Passes on the unchanged source and with refactor3.diff applied.
"""

import random
from contextlib import AsyncExitStack
from typing import Any, Optional

import pytest
from anyio import Event, create_task_group
from anyio.lowlevel import checkpoint

from asphalt.core import (
    Component,
    Context,
    ResourceConflict,
    ResourceNotFound,
    current_context,
    get_resource,
    get_resource_nowait,
    get_resources,
    inject,
    resource,
    start_component,
)

pytestmark = pytest.mark.anyio()


class TA:
    pass


class TB:
    pass


class TC:
    pass


TYPES = [TA, TB, TC, int, str]
STATIC_NAMES = ["default", "s1", "s_2"]
FACTORY_NAMES = ["f1", "f_2", "F3"]
MISSING = object()


class Value:
    def __init__(self, label: str) -> None:
        self.label = label

    def __repr__(self) -> str:
        return f"Value({self.label})"


_injected_sync: dict = {}
_injected_async: dict = {}


def injected_sync(tp: type, name: str) -> Any:
    try:
        return _injected_sync[tp, name]
    except KeyError:

        @inject
        def func(*, res: Optional[tp] = resource(name)) -> Any:  # type: ignore[valid-type]
            return res

        _injected_sync[tp, name] = func
        return func


def injected_async(tp: type, name: str) -> Any:
    try:
        return _injected_async[tp, name]
    except KeyError:

        @inject
        async def func(*, res: Optional[tp] = resource(name)) -> Any:  # type: ignore[valid-type]
            return res

        _injected_async[tp, name] = func
        return func


class Model:
    """Reference model of what a context is supposed to see."""

    counter = 0

    def __init__(self, parent: Optional["Model"] = None) -> None:
        self.parent = parent
        self.static: dict = dict(parent.static) if parent else {}
        self.factories: dict = dict(parent.factories) if parent else {}
        self.generated: dict = {}
        self.ctx: Context = None  # type: ignore[assignment]

    def visible(self, key: tuple) -> Any:
        if key in self.static:
            return self.static[key]

        return self.generated.get(key, MISSING)

    def expected_of_type(self, tp: type) -> dict:
        result = {}
        for source in (self.static, self.generated):
            for (type_, name), value in source.items():
                if type_ is tp:
                    result[name] = value

        return result


async def check_lookup(model: Model, tp: type, name: str, how: int) -> None:
    """Look a resource up through one of the lookup paths; compare with the model."""
    ctx = model.ctx
    key = (tp, name)
    expected = model.visible(key)
    will_generate = expected is MISSING and key in model.factories
    is_current = current_context() is ctx
    if how >= 3 and not is_current:
        how %= 3

    if how == 0:
        actual = ctx.get_resource_nowait(tp, name, optional=True)
    elif how == 1:
        actual = await ctx.get_resource(tp, name, optional=True)
    elif how == 2:
        try:
            actual = ctx.get_resource_nowait(tp, name)
        except ResourceNotFound:
            actual = None
    elif how == 3:
        actual = injected_sync(tp, name)()
    elif how == 4:
        actual = await injected_async(tp, name)()
    elif how == 5:
        actual = get_resource_nowait(tp, name, optional=True)
    else:
        actual = await get_resource(tp, name, optional=True)

    if will_generate:
        factory_id, types, _ = model.factories[key]
        assert isinstance(actual, Value)
        assert actual.label.startswith(f"gen:{factory_id}:")
        for type_ in types:
            model.generated.setdefault((type_, name), actual)
    elif expected is MISSING:
        assert actual is None
    else:
        assert actual is expected


def check_all_visible(model: Model) -> None:
    """Compare get_resources() and non-generating lookups against the model."""
    ctx = model.ctx
    assert isinstance(repr(ctx), str)
    for tp in TYPES:
        assert dict(ctx.get_resources(tp)) == model.expected_of_type(tp)
        if current_context() is ctx:
            assert dict(get_resources(tp)) == model.expected_of_type(tp)

        for name in STATIC_NAMES:
            expected = model.visible((tp, name))
            actual = ctx.get_resource_nowait(tp, name, optional=True)
            if expected is MISSING:
                assert actual is None
            else:
                assert actual is expected

        for name in FACTORY_NAMES:
            # Only look at keys where no new resource would be generated
            key = (tp, name)
            if key in model.generated:
                assert ctx.get_resource_nowait(tp, name) is model.generated[key]
            elif key not in model.factories:
                assert ctx.get_resource_nowait(tp, name, optional=True) is None


def do_add_static(model: Model, rng: random.Random) -> None:
    types = tuple(rng.sample(TYPES, rng.choice([1, 1, 2, 3])))
    name = rng.choice(STATIC_NAMES)
    Model.counter += 1
    value = Value(f"static:{Model.counter}")
    conflict = any((tp, name) in model.static for tp in types)
    if conflict:
        with pytest.raises(ResourceConflict):
            model.ctx.add_resource(value, name, types)
    else:
        model.ctx.add_resource(value, name, types if len(types) > 1 else types[0])
        for tp in types:
            model.static[tp, name] = value


def do_add_factory(model: Model, rng: random.Random) -> None:
    types = tuple(rng.sample(TYPES, rng.choice([1, 1, 2, 3])))
    name = rng.choice(FACTORY_NAMES)
    Model.counter += 1
    factory_id = Model.counter
    calls = [0]

    if rng.random() < 0.5:

        def factory() -> Any:
            calls[0] += 1
            return Value(f"gen:{factory_id}:{calls[0]}")

    else:

        async def factory() -> Any:  # type: ignore[misc]
            await checkpoint()
            calls[0] += 1
            return Value(f"gen:{factory_id}:{calls[0]}")

    is_async = factory.__code__.co_flags & 0x80
    conflict = any((tp, name) in model.factories for tp in types)
    if conflict:
        with pytest.raises(ResourceConflict):
            model.ctx.add_resource_factory(factory, name, types=types)
    else:
        model.ctx.add_resource_factory(factory, name, types=types)
        for tp in types:
            model.factories[tp, name] = (factory_id, types, bool(is_async))


async def run_random_ops(
    open_models: list, current: Model, rng: random.Random, count: int
) -> None:
    for _ in range(count):
        model = rng.choice(open_models) if rng.random() < 0.4 else current
        op = rng.random()
        if op < 0.25:
            do_add_static(model, rng)
        elif op < 0.4:
            do_add_factory(model, rng)
        elif op < 0.8:
            tp = rng.choice(TYPES)
            name = rng.choice(STATIC_NAMES + FACTORY_NAMES)
            how = rng.randrange(7)
            key = (tp, name)
            if (
                model.visible(key) is MISSING
                and key in model.factories
                and model.factories[key][2]
            ):
                # async factory: must go through an async lookup path
                how = rng.choice([1, 4, 6])
                if current_context() is not model.ctx:
                    how = 1

            await check_lookup(model, tp, name, how)
        else:
            for each in open_models:
                check_all_visible(each)


async def visit(
    parent: Optional[Model], open_models: list, rng: random.Random, depth: int
) -> None:
    model = Model(parent)
    if parent is None:
        ctx = Context()
    elif rng.random() < 0.5:
        ctx = Context()  # implicit parent: the current context
    else:
        ctx = Context(parent.ctx)

    async with ctx:
        assert ctx.parent is (parent.ctx if parent else None)
        model.ctx = ctx
        open_models.append(model)
        check_all_visible(model)
        await run_random_ops(open_models, model, rng, rng.randrange(3, 9))
        if depth < 3:
            for _ in range(rng.randrange(0, 3)):
                await visit(model, open_models, rng, depth + 1)
                await run_random_ops(open_models, model, rng, rng.randrange(1, 5))

        for each in open_models:
            check_all_visible(each)

        open_models.remove(model)

    # Leaving a context must not have changed what the others see
    for each in open_models:
        check_all_visible(each)


@pytest.mark.parametrize("seed", range(25))
async def test_random_histories_against_model(seed: int) -> None:
    rng = random.Random(3000 + seed)
    await visit(None, [], rng, 0)


async def all_paths(ctx: Context, tp: type, name: str) -> list:
    """
    Look (tp, name) up through every lookup path that applies to ``ctx`` and return
    the results (``None`` = not visible). Must only be used where no factory would be
    triggered for the first time with differing results, i.e. results must agree.
    """
    results = [
        ctx.get_resource_nowait(tp, name, optional=True),
        await ctx.get_resource(tp, name, optional=True),
        ctx.get_resources(tp).get(name),
    ]
    try:
        results.append(ctx.get_resource_nowait(tp, name))
    except ResourceNotFound:
        results.append(None)

    try:
        results.append(await ctx.get_resource(tp, name))
    except ResourceNotFound:
        results.append(None)

    if current_context() is ctx:
        results += [
            get_resource_nowait(tp, name, optional=True),
            await get_resource(tp, name, optional=True),
            get_resources(tp).get(name),
            injected_sync(tp, name)(),
            await injected_async(tp, name)(),
        ]

    repr(ctx)
    return results


async def assert_sees(ctx: Context, tp: type, name: str, expected: Any) -> None:
    for result in await all_paths(ctx, tp, name):
        assert result is expected, (ctx, tp, name)


async def test_all_lookup_paths_agree_over_a_three_level_tree() -> None:
    a, b, c, d = (Value(x) for x in "abcd")
    async with Context() as root:
        root.add_resource(a, "a", [Value, TA])
        await assert_sees(root, Value, "a", a)
        await assert_sees(root, TA, "a", a)
        await assert_sees(root, TB, "a", None)
        async with Context() as mid:
            mid.add_resource(b, "b", [Value, TB])
            root.add_resource(c, "c")  # after mid was created: invisible in mid
            async with Context() as leaf:
                leaf.add_resource(d, "d")
                mid.add_resource(d, "late")  # after leaf was created
                expectations = {
                    root: {"a": a, "c": c},
                    mid: {"a": a, "b": b, "late": d},
                    leaf: {"a": a, "b": b, "d": d},
                }
                for ctx, visible in expectations.items():
                    assert dict(ctx.get_resources(Value)) == visible
                    for name in ("a", "b", "c", "d", "late", "default"):
                        await assert_sees(ctx, Value, name, visible.get(name))

                await assert_sees(leaf, TB, "b", b)
                await assert_sees(leaf, TA, "a", a)
                await assert_sees(root, TB, "b", None)

            # leaving the leaf changed nothing for the others
            await assert_sees(mid, Value, "d", None)
            await assert_sees(mid, Value, "late", d)
            await assert_sees(mid, Value, "c", None)

        await assert_sees(root, Value, "b", None)
        await assert_sees(root, Value, "late", None)
        await assert_sees(root, Value, "c", c)
        assert dict(root.get_resources(Value)) == {"a": a, "c": c}


async def test_lookup_paths_agree_after_a_factory_has_generated() -> None:
    counter = [0]

    def factory() -> Value:
        counter[0] += 1
        return Value(f"gen:{counter[0]}")

    async with Context() as root:
        root.add_resource_factory(factory, "f", types=[Value, TC])
        # get_resources() never triggers factories
        assert root.get_resources(Value) == {} and counter[0] == 0
        async with Context() as child:
            first = injected_sync(TC, "f")()  # generated through an injected parameter
            assert counter[0] == 1 and first.label == "gen:1"
            await assert_sees(child, Value, "f", first)
            await assert_sees(child, TC, "f", first)
            assert counter[0] == 1
            assert root.get_resources(Value) == {} == root.get_resources(TC)
            async with Context(child) as grandchild:
                assert grandchild.get_resources(Value) == {}
                second = await get_resource(Value, "f")
                assert second.label == "gen:2"
                await assert_sees(grandchild, TC, "f", second)
                await assert_sees(child, TC, "f", first)

            async with Context(root) as other:
                assert other.parent is root
                third = await injected_async(Value, "f")()
                assert third.label == "gen:3"
                await assert_sees(other, TC, "f", third)
                await assert_sees(child, Value, "f", first)

        assert counter[0] == 3
        assert root.get_resources(Value) == {}
        root_own = root.get_resource_nowait(Value, "f")
        assert root_own.label == "gen:4"
        await assert_sees(root, TC, "f", root_own)


async def test_component_contexts_share_the_application_context_view() -> None:
    seen: dict = {}
    before, during, after = Value("before"), Value("during"), Value("after")

    class Child(Component):
        async def start(self) -> None:
            ctx = current_context()  # a component context
            repr(ctx)
            ctx.add_resource(during, "during")
            ctx.add_resource_factory(lambda: Value("gen:comp"), "fc", types=[TA])
            seen["component_paths"] = [
                ctx.get_resource_nowait(Value, "before"),
                await ctx.get_resource(Value, "before"),
                ctx.get_resources(Value).get("before"),
                get_resource_nowait(Value, "before"),
                await get_resource(Value, "before"),
                get_resources(Value).get("before"),
                injected_sync(Value, "before")(),
                await injected_async(Value, "before")(),
            ]
            seen["component_all"] = dict(get_resources(Value))
            # a context created from within a component hangs off the real context
            async with Context() as sub:
                seen["sub_parent"] = sub.parent
                sub.add_resource(Value("sub"), "sub")
                seen["sub_all"] = set(sub.get_resources(Value))
                seen["component_after_sub"] = set(get_resources(Value)) - {"sub"}
                seen["outer_in_sub"] = set(ctx.get_resources(Value))

    class Root(Component):
        def __init__(self) -> None:
            self.add_component("child", Child)

    async with Context() as app:
        app.add_resource(before, "before")
        pre_child = Context()
        await start_component(Root)
        app.add_resource(after, "after")
        assert seen["component_paths"] == [before] * 8
        assert seen["component_all"] == {"before": before, "during": during}
        assert seen["sub_parent"] is app
        assert seen["sub_all"] == {"before", "during", "sub"}
        assert seen["outer_in_sub"] == {"before", "during"}
        assert dict(app.get_resources(Value)) == {
            "before": before,
            "during": during,
            "after": after,
        }
        await assert_sees(app, Value, "sub", None)
        async with pre_child:
            # snapshot was taken before the component added anything
            await assert_sees(pre_child, Value, "before", before)
            await assert_sees(pre_child, Value, "during", None)
            await assert_sees(pre_child, Value, "after", None)
            await assert_sees(pre_child, TA, "fc", None)

        async with Context() as post_child:
            await assert_sees(post_child, Value, "during", during)
            await assert_sees(post_child, Value, "after", after)
            generated = post_child.get_resource_nowait(TA, "fc")
            await assert_sees(post_child, TA, "fc", generated)
            assert app.get_resources(TA) == {}
