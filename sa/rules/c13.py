"""C13 - context lifecycle: usable only from entry to end of teardown, entered once."""
from __future__ import annotations

import ast

from ..cfg import iter_own
from ..loader import exc_expr, AnalysisError, FuncInfo, walk_own
from . import c03
from .common import Anchors, call_name, enum_member, self_attr

# the oracle: transcribed from the property statement, never derived from the code
STATES = ("inactive", "open", "closing", "closed")
MATRIX = {
    "add_resource": {"open", "closing"},
    "get_resource": {"open", "closing"},
    "get_resource_nowait": {"open", "closing"},
    "add_teardown_callback": {"open", "closing"},
    "add_resource_factory": {"open"},
    "__aenter__": {"inactive"},
}


def guard_calls(ctx, an: Anchors, f: FuncInfo) -> list:
    a = ctx.a
    cfg = a.cfg(f)
    out = []
    for n in cfg.live_nodes():
        for call, c in a.node_calls(f, cfg, n):
            if c.kind == "func" and c.func is an.guard:
                out.append((n, call))
    return out


def rule_closed_in_finally(ctx, an: Anchors, rule: str) -> None:
    rep = ctx.rep
    a = ctx.a
    aexit = an.ctx_method("__aexit__")
    xcfg = a.cfg(aexit)
    st_attr, st_enum = an.state_attr, an.state_enum
    assigns: dict = {}
    for n in xcfg.live_nodes():
        if n.kind == "stmt" and isinstance(n.ast, ast.Assign) and any(self_attr(t) == st_attr for t in n.ast.targets):
            assigns.setdefault(enum_member(n.ast.value, st_enum), []).append(n)
    aw_nodes = [n for n in xcfg.live_nodes() if a.node_checkpoints(aexit, xcfg, n)]
    if not aw_nodes:
        rep.violate(rule, aexit, aexit.node, "__aexit__ never awaits the exit stack")
        return
    closing = assigns.get("closing", [])
    rep.check(rule, bool(closing) and all(xcfg.dominates(closing[0].id, x.id) for x in aw_nodes), aexit, closing[0].ast if closing else aexit.node, "state becomes closing before the exit stack (teardown) is awaited", "the context is not marked closing before teardown starts")
    closed = {n.id for n in assigns.get("closed", [])}
    ok = bool(closed) and all(xcfg.all_paths_pass(aw.id, [xcfg.exit, xcfg.raise_exit], closed) for aw in aw_nodes)
    rep.check(rule, ok, aexit, aw_nodes[0].ast, "on every path out of the teardown await - normal, exception, cancellation - the state becomes closed", "when teardown raises or is cancelled the state is left at 'closing': the dead context still accepts operations")
    others = [m for m in assigns if m not in ("closing", "closed")]
    rep.check(rule, not others, aexit, aexit.node, "__aexit__ only moves the state forward", f"__aexit__ assigns state {others}")


def run(ctx) -> None:
    rep = ctx.rep
    a = ctx.a
    an = Anchors(a)
    eff = c03.Effects(ctx)
    st_attr, st_enum = an.state_attr, an.state_enum
    guard = an.guard

    # ------------------------------------------------------------------ R1 guard matrix
    cells = 0
    for op, allowed in MATRIX.items():
        f = an.ctx_method(op)
        cfg = a.cfg(f)
        gcs = guard_calls(ctx, an, f)
        if not gcs:
            rep.violate("C13.R1", f, f.node, f"{op} has no lifecycle guard: it works on a context that was never entered / is already closed")
            continue
        gn, gcall = gcs[0]
        members = {enum_member(x, st_enum) for x in gcall.args}
        if None in members or any(isinstance(x, ast.Starred) for x in gcall.args):
            rep.unrecognised("C13.R1", f, gcall, "guard arguments are not plain state members")
            continue
        for state in STATES:
            cells += 1
            want = state in allowed
            got = state in members
            if want == got:
                rep.hold("C13.R1", f, gcall, f"cell ({op}, {state}): {'allowed' if want else 'RuntimeError'}", nontrivial=True)
            else:
                rep.violate("C13.R1", f, gcall, f"cell ({op}, {state}): the statement says {'allowed' if want else 'RuntimeError'} but the guard {'allows' if got else 'rejects'} it (guard allows {sorted(members)})")
        # the guard dominates every effect, user call and value return of the operation
        bad = []
        for n in cfg.live_nodes():
            if n.id in (cfg.entry, cfg.exit, cfg.raise_exit) or n.id == gn.id:
                continue
            is_effect = bool(eff.node_effects(f, cfg, n))
            if not is_effect:
                for call, c in a.node_calls(f, cfg, n):
                    if c.kind in ("param", "local", "attrcall") or (c.kind == "method" and call_name(call) in ("callback",)):
                        is_effect = True
            if not is_effect and n.kind == "stmt" and isinstance(n.ast, ast.Return) and n.ast.value is not None:
                is_effect = True
            if not is_effect and n.kind == "stmt" and isinstance(n.ast, ast.Assign) and any(self_attr(t) for t in n.ast.targets):
                is_effect = True
            if is_effect and not cfg.dominates(gn.id, n.id):
                bad.append(n)
        if bad:
            rep.violate("C13.R1", f, bad[0].ast if isinstance(bad[0].ast, ast.AST) else f.node, f"{op}: an effect / return is reachable without passing the lifecycle guard")
        else:
            rep.hold("C13.R1", f, gcall, f"{op}: the guard dominates every state change, dispatch, user call and return")
        if len(gcs) > 1:
            for n2, c2 in gcs[1:]:
                m2 = {enum_member(x, st_enum) for x in c2.args}
                if m2 != members:
                    rep.violate("C13.R1", f, c2, f"{op} has a second guard with a different allowed set {sorted(x for x in m2 if x)}")
    rep.floor("C13.R1", cells, 24)
    # the guard function itself
    gcfg = a.cfg(guard)
    allowed_param = guard.node.args.vararg.arg if guard.node.args.vararg else (guard.params[1] if len(guard.params) > 1 else None)
    tests = [t for t in gcfg.live_nodes() if t.kind == "test" and isinstance(t.ast, ast.Compare) and self_attr(t.ast.left) == st_attr and isinstance(t.ast.ops[0], (ast.In, ast.NotIn)) and isinstance(t.ast.comparators[0], ast.Name) and t.ast.comparators[0].id == allowed_param]
    if not tests:
        rep.violate("C13.R1", guard, guard.node, "the guard does not test membership of the current state in the allowed set")
    else:
        t = tests[0]
        pos = isinstance(t.ast.ops[0], ast.In)
        ok_side = [d for d, lab in t.succ if lab == ("t" if pos else "f")]
        bad_side = [d for d, lab in t.succ if lab == ("f" if pos else "t")]
        reach_ok = gcfg.reach(ok_side, avoid=[t.id], edge_ok=lambda s, d, lab: lab != "e")
        ok_returns = gcfg.exit in reach_ok and not any(gcfg.nodes[i].kind == "stmt" and isinstance(gcfg.nodes[i].ast, ast.Raise) for i in reach_ok)
        rep.check("C13.R1", ok_returns, guard, t.ast, "the guard returns normally when the state is allowed", "the guard can raise although the state is allowed")
        reach_bad = gcfg.reach(bad_side, avoid=[t.id], edge_ok=lambda s, d, lab: lab != "e")
        raises = [gcfg.nodes[i] for i in reach_bad if gcfg.nodes[i].kind == "stmt" and isinstance(gcfg.nodes[i].ast, ast.Raise)]
        all_rt = bool(raises) and all(r.ast.exc is not None and "RuntimeError" in ast.unparse(exc_expr(r.ast)) for r in raises)
        rep.check("C13.R1", gcfg.exit not in reach_bad and all_rt, guard, t.ast, f"in every other state the guard raises RuntimeError ({len(raises)} raise sites, all four states enumerated)", "for a state outside the allowed set the guard can return normally or raise something other than RuntimeError")
        rep.check("C13.R1", all(gcfg.dominates(t.id, n.id) for n in gcfg.live_nodes() if n.kind == "stmt" and isinstance(n.ast, (ast.Raise, ast.Return))), guard, t.ast, "the membership test comes first", "a raise/return precedes the membership test")
        muts = a.func_mutations(guard)
        rep.check("C13.R1", not muts, guard, guard.node, "the guard changes nothing", "the guard itself mutates state")

    # ------------------------------------------------------------------ R2 transitions
    aenter, aexit = an.ctx_method("__aenter__"), an.ctx_method("__aexit__")
    sites = []
    for f in ctx.p.all_functions():
        for n in walk_own(f.node):
            if isinstance(n, (ast.Assign, ast.AugAssign, ast.AnnAssign)):
                for t in (n.targets if isinstance(n, ast.Assign) else [n.target]):
                    if isinstance(t, ast.Attribute) and t.attr == st_attr:
                        sites.append((f, n, t))
    allowed_homes = {id(aenter), id(aexit), id(an.ctx_method("__init__"))}
    for f, n, t in sites:
        if id(f) not in allowed_homes or self_attr(t) != st_attr:
            rep.violate("C13.R2", f, n, "the context state is assigned outside Context.__init__/__aenter__/__aexit__")
    rep.floor("C13.R2", len(sites), 4)
    init_assign = [n for f, n, t in sites if f is an.ctx_method("__init__")]
    rep.check("C13.R2", len(init_assign) == 1 and enum_member(init_assign[0].value, st_enum) == "inactive", an.ctx_method("__init__"), init_assign[0] if init_assign else None, "a new context is inactive", "a new context does not start inactive")
    ecfg = a.cfg(aenter)
    eg = guard_calls(ctx, an, aenter)
    e_assigns = {}
    for n in ecfg.live_nodes():
        if n.kind == "stmt" and isinstance(n.ast, ast.Assign) and any(self_attr(t) == st_attr for t in n.ast.targets):
            e_assigns.setdefault(enum_member(n.ast.value, st_enum), []).append(n)
    opens = e_assigns.get("open", [])
    if eg and opens:
        gn = eg[0][0]
        btw = ecfg.between([gn.id], [opens[0].id])
        rep.check("C13.R2", ecfg.dominates(gn.id, opens[0].id) and not any(a.node_checkpoints(aenter, ecfg, ecfg.nodes[i]) for i in btw), aenter, opens[0].ast, "inactive -> open right after the guard (no checkpoint in between)", "the state does not become open immediately after the entry guard")
        # rollback: inactive only inside a BaseException handler that re-raises and does NOT cover the guard
        rollback = e_assigns.get("inactive", [])
        if not rollback:
            rep.violate("C13.R2", aenter, aenter.node, "a failing entry (e.g. cancellation while entering) is not rolled back: the context stays 'open' although it was never entered, and cannot be entered again")
        for rn in rollback:
            hs = [h for h in walk_own(aenter.node) if isinstance(h, ast.ExceptHandler) and any(x is rn.ast for x in ast.walk(h))]
            ok = bool(hs) and any(isinstance(b, ast.Raise) and b.exc is None for b in hs[0].body)
            rep.check("C13.R2", ok, aenter, rn.ast, "entry failure rolls the state back to inactive and re-raises", "the state is reset to inactive outside a re-raising handler")
            if hs:
                from ..cfg import handler_names as _hn

                catch_all = hs[0].type is None or "BaseException" in _hn(hs[0].type)
                # ... for every way the entry can fail: every checkpoint / may-raise node between
                # `state = open` and the end of the entry is covered by that handler
                rep.check("C13.R2", catch_all, aenter, hs[0], "the rollback handler catches BaseException: cancellation while entering (the task group / exit stack is entered with awaits) is rolled back too", f"the rollback handler catches only `{ast.unparse(hs[0].type) if hs[0].type is not None else ''}`: an entry cancelled at one of its checkpoints leaves the context 'open' although it was never entered - it can neither be used nor entered again")
                after_open = ecfg.reach([opens[0].id], edge_ok=lambda s_, d_, lab: lab not in ("e", "h"))
                uncovered = [ecfg.nodes[i] for i in sorted(after_open) if i != opens[0].id and ecfg.nodes[i].kind in ("stmt", "with_enter", "for_iter", "test") and a.node_may_raise(aenter, ecfg, ecfg.nodes[i]) and isinstance(ecfg.own_ast(ecfg.nodes[i]) or ecfg.nodes[i].ast, ast.AST) and hs[0] not in a.covering_handlers(aenter, ecfg.own_ast(ecfg.nodes[i]) or ecfg.nodes[i].ast)]
                uncovered = [n for n in uncovered if not (n.kind == "stmt" and isinstance(n.ast, ast.Raise) and n.ast.exc is None)]
                rep.check("C13.R2", not uncovered, aenter, uncovered[0].ast if uncovered and isinstance(uncovered[0].ast, ast.AST) else hs[0], "everything that can fail after the state became open is inside the rollback try", "a statement that may raise after `state = open` is outside the rollback handler: its failure leaves the context 'open'")
                cover = a.covering_handlers(aenter, eg[0][1])
                rep.check("C13.R2", hs[0] not in cover, aenter, eg[0][1], "the entry guard is outside the rollback handler: a rejected re-entry changes nothing", "the entry guard sits inside the rollback try: a rejected re-entry (RuntimeError) resets an open/closing/closed context to inactive")
        others = [m for m in e_assigns if m not in ("open", "inactive")]
        rep.check("C13.R2", not others, aenter, aenter.node, "__aenter__ assigns only open / inactive", f"__aenter__ assigns {others}")
    else:
        rep.violate("C13.R2", aenter, aenter.node, "__aenter__ has no guard or never sets the state to open")
    rule_closed_in_finally(ctx, an, "C13.R2")
    for nm in ("__aenter__", "__aexit__"):
        rep.check("C13.R2", nm not in an.ComponentContext.methods, an.ComponentContext.methods.get(nm), None, f"ComponentContext inherits {nm}", f"ComponentContext overrides {nm} (lifecycle no longer decided here)")

    # ------------------------------------------------------------------ R3 closed property
    closed = an.Context.methods.get("closed")
    if closed is None:
        rep.violate("C13.R3", None, None, "Context has no `closed` property")
    else:
        rets = [n for n in walk_own(closed.node) if isinstance(n, ast.Return) and n.value is not None]
        ok = False
        if len(rets) == 1:
            v = rets[0].value
            def members(expr):
                # inline literal, or a module-level constant (tuple / set / frozenset of members)
                if isinstance(expr, ast.Name) and expr.id in closed.module.assigns:
                    expr = closed.module.assigns[expr.id]
                return {enum_member(x, st_enum) for x in ast.walk(expr) if isinstance(x, ast.Attribute) and enum_member(x, st_enum)}

            if isinstance(v, ast.Compare) and self_attr(v.left) == st_attr and isinstance(v.ops[0], ast.In):
                ok = members(v.comparators[0]) == {"closing", "closed"}
            elif isinstance(v, ast.Compare) and self_attr(v.left) == st_attr and isinstance(v.ops[0], ast.NotIn):
                ok = members(v.comparators[0]) == {"inactive", "open"}
            elif isinstance(v, ast.BoolOp) and isinstance(v.op, ast.Or):
                ms = set()
                for c in v.values:
                    if isinstance(c, ast.Compare) and self_attr(c.left) == st_attr and isinstance(c.ops[0], (ast.Is, ast.Eq)):
                        ms.add(enum_member(c.comparators[0], st_enum))
                ok = ms == {"closing", "closed"}
        rep.check("C13.R3", ok, closed, rets[0] if rets else closed.node, "closed is true exactly in states closing and closed", "`closed` does not mean 'teardown has begun' (states closing, closed)")

    # ------------------------------------------------------------------ R4 open child detected
    child_attr = None
    for n, m in a.func_mutations(aenter):
        if m.kind == "call:add" and len(m.path) >= 2:
            child_attr = m.path[-1]
            add_node, add_m = n, m
    if child_attr is None:
        rep.violate("C13.R4", aenter, aenter.node, "a context does not register itself with its parent on entry: leaving the parent first goes unnoticed")
    else:
        arg_ok = add_m.node.args and isinstance(add_m.node.args[0], ast.Name) and add_m.node.args[0].id == "self"
        rep.check("C13.R4", bool(arg_ok), aenter, add_m.node, "the context adds itself to the parent's child set on entry", "what is added to the parent's child set is not the context itself")
        removal = [c for c, _ in a.func_calls(aenter) if call_name(c) == "callback" and c.args and isinstance(c.args[0], ast.Attribute) and c.args[0].attr in ("remove", "discard") and child_attr in ast.unparse(c.args[0])]
        rep.check("C13.R4", bool(removal), aenter, removal[0] if removal else add_m.node, "the removal from the parent's child set is registered on the context's own exit stack", "the context is never removed from its parent's child set (or not via its own exit stack)")
        xcfg = a.cfg(aexit)
        tests = [t for t in xcfg.live_nodes() if t.kind == "test" and self_attr(t.ast) == child_attr]
        if not tests:
            tests = [t for t in xcfg.live_nodes() if t.kind == "test" and any(isinstance(x, ast.Attribute) and x.attr == child_attr for x in ast.walk(t.ast))]
        if not tests:
            # the child set (or its size) held in a local: `n = len(self._children)` / `if n:`
            def _is_children(e) -> bool:
                if isinstance(e, ast.Call) and isinstance(e.func, ast.Name) and e.func.id in ("len", "bool", "list", "tuple", "set") and len(e.args) == 1 and not e.keywords:
                    e = e.args[0]
                return self_attr(e) == child_attr

            local_defs: dict = {}
            for n_ in walk_own(aexit.node):
                if isinstance(n_, ast.Assign) and len(n_.targets) == 1 and isinstance(n_.targets[0], ast.Name):
                    local_defs.setdefault(n_.targets[0].id, []).append(n_.value)
                elif isinstance(n_, ast.Name) and isinstance(n_.ctx, (ast.Store, ast.Del)):
                    local_defs.setdefault(n_.id, [])
            holders = {v for v, ds in local_defs.items() if len(ds) == 1 and _is_children(ds[0]) and sum(1 for n_ in walk_own(aexit.node) if isinstance(n_, ast.Name) and n_.id == v and isinstance(n_.ctx, (ast.Store, ast.Del))) == 1}
            tests = [t for t in xcfg.live_nodes() if t.kind == "test" and any(isinstance(x, ast.Name) and x.id in holders for x in ast.walk(t.ast))]
        if not tests:
            rep.violate("C13.R4", aexit, aexit.node, "__aexit__ does not check for child contexts that are still open")
        else:
            t = tests[0]
            # the side on which children are left: `if children:` -> true side,
            # `if not children:` / `if len(children) == 0:` -> false side
            e_, left_lab = t.ast, "t"
            while isinstance(e_, ast.UnaryOp) and isinstance(e_.op, ast.Not):
                e_, left_lab = e_.operand, ("f" if left_lab == "t" else "t")
            if isinstance(e_, ast.Compare) and len(e_.ops) == 1 and isinstance(e_.comparators[0], ast.Constant) and e_.comparators[0].value == 0 and isinstance(e_.ops[0], (ast.Eq, ast.LtE)):
                left_lab = "f" if left_lab == "t" else "t"
            side = [d for d, lab in t.succ if lab == left_lab]
            # on the "children left" side every (non-exceptional) path ends in a raise of RuntimeError
            region = xcfg.reach(side, avoid=[t.id], edge_ok=lambda s_, d_, lab: lab not in ("e", "h")) if side else set()
            rraises = [xcfg.nodes[i] for i in sorted(region) if xcfg.nodes[i].kind == "stmt" and isinstance(xcfg.nodes[i].ast, ast.Raise)]
            first = rraises[0] if rraises else None
            ok_r = bool(rraises) and xcfg.exit not in region and all(r.ast.exc is not None and "RuntimeError" in ast.unparse(exc_expr(r.ast)) for r in rraises)
            rep.check("C13.R4", ok_r, aexit, t.ast, "a still-open child context is reported with RuntimeError", "a still-open child context is not reported as an error")
            aw = [n for n in xcfg.live_nodes() if a.node_checkpoints(aexit, xcfg, n)]
            rep.check("C13.R4", bool(aw) and t.id in xcfg.reach([aw[0].id]) and not xcfg.dominates(t.id, aw[0].id), aexit, t.ast, "the check runs after the exit stack has been unwound", "the child check runs before the exit stack is unwound")
            hs = a.covering_handlers(aexit, first.ast) if first is not None else []
            rep.check("C13.R4", not hs, aexit, t.ast, "the error cannot be swallowed by a handler", "the stack-corruption error is raised inside a try with handlers")

    # ------------------------------------------------------------------ R5 wrappers do not bypass guards
    for op in MATRIX:
        if op.startswith("__"):
            continue
        w = an.ComponentContext.methods.get(op)
        if w is None:
            continue
        target = an.ctx_method(op) if op in an.Context.methods else None
        calls = [c for c, cal in a.func_calls(w) if cal.kind == "func" and cal.func is an.Context.methods.get(op)]
        rep.check("C13.R5", bool(calls), w, w.node, f"ComponentContext.{op} goes through the guarded Context.{op}", f"ComponentContext.{op} does not call the guarded Context.{op}")
    # ... on every path (no fast path that answers from the wrapped context's tables without
    # passing its guard): C02.R4
    from .common import include_rules as _inc13

    _inc13(ctx, "c02", "C13.R5", only=("C02.R4",))

    # ------------------------------------------------------------------ R6 the guard is the only lifecycle gate
    # The matrix above is decided by the guard calls alone only if nothing else refuses an
    # operation because of the lifecycle state: a raise controlled by a test that reads the
    # state (directly or through `closed`) anywhere else is an extra, unlisted row.
    from ..loader import ClassInfo
    from .discharge import controlling_tests

    closed_prop = "closed" if "closed" in an.Context.methods else None

    def reads_state(f, expr) -> bool:
        for x in ast.walk(expr):
            if isinstance(x, ast.Attribute) and x.attr == st_attr:
                return True
            if isinstance(x, ast.Attribute) and closed_prop and x.attr == closed_prop:
                t = a.r.expr_type(f, x.value)
                if isinstance(t, ClassInfo) and ctx.p.is_subclass(t, an.Context.name):
                    return True
                if isinstance(x.value, ast.Name) and x.value.id == "self" and f.owner_class is not None and ctx.p.is_subclass(f.owner_class, an.Context.name):
                    return True
        return False

    def may_be(f, expr, state) -> set:
        """Possible truth values of a test in a given lifecycle state (state reads are decided,
        everything else may be either)."""
        both = {True, False}
        if isinstance(expr, ast.UnaryOp) and isinstance(expr.op, ast.Not):
            return {not v for v in may_be(f, expr.operand, state)}
        if isinstance(expr, ast.BoolOp):
            vals = [may_be(f, v, state) for v in expr.values]
            if isinstance(expr.op, ast.And):
                out = set()
                if all(True in v for v in vals):
                    out.add(True)
                if any(False in v for v in vals):
                    out.add(False)
                return out
            out = set()
            if any(True in v for v in vals):
                out.add(True)
            if all(False in v for v in vals):
                out.add(False)
            return out
        if isinstance(expr, ast.Attribute) and closed_prop and expr.attr == closed_prop and reads_state(f, expr):
            return {state in ("closing", "closed")}
        if isinstance(expr, ast.Compare) and len(expr.ops) == 1 and isinstance(expr.left, ast.Attribute) and expr.left.attr == st_attr:
            op, rhs = expr.ops[0], expr.comparators[0]
            if isinstance(op, (ast.Is, ast.Eq, ast.IsNot, ast.NotEq)):
                m = enum_member(rhs, st_enum)
                if m:
                    r = state == m
                    return {r if isinstance(op, (ast.Is, ast.Eq)) else not r}
            if isinstance(op, (ast.In, ast.NotIn)) and isinstance(rhs, (ast.Tuple, ast.List, ast.Set)):
                ms = {enum_member(x, st_enum) for x in rhs.elts}
                if None not in ms:
                    r = state in ms
                    return {r if isinstance(op, ast.In) else not r}
        return both

    extra = 0
    scanned = 0
    for f in ctx.p.all_functions():
        if f is guard or f.is_lambda or (closed_prop and f is an.Context.methods.get(closed_prop)):
            continue
        if not any(isinstance(x, ast.Raise) for x in walk_own(f.node)):
            continue
        if not any(isinstance(x, ast.Attribute) and x.attr in (st_attr, closed_prop) for x in walk_own(f.node)):
            continue
        scanned += 1
        # the tests a raise is nested in (an early-exit gate in front of other raises does not
        # gate those: they are judged by their own conditions)
        def gated(stmts, conds):
            for st in stmts:
                if isinstance(st, ast.Raise):
                    yield st, list(conds)
                elif isinstance(st, (ast.FunctionDef, ast.AsyncFunctionDef, ast.ClassDef)):
                    continue
                elif isinstance(st, (ast.If, ast.While)):
                    yield from gated(st.body, conds + [(st.test, True)])
                    yield from gated(st.orelse, conds + [(st.test, False)])
                else:
                    for fld in ("body", "orelse", "finalbody"):
                        blk = getattr(st, fld, None)
                        if isinstance(blk, list) and blk and isinstance(blk[0], ast.stmt):
                            yield from gated(blk, conds)
                    for h in getattr(st, "handlers", []) or []:
                        yield from gated(h.body, conds)

        for r_ast, conds in gated(f.node.body, []):
            for t_ast, want in conds:
                if reads_state(f, t_ast):
                    # in which states can this gate fire?  Harmless if only where the
                    # statement demands a RuntimeError anyway (and that is what it raises)
                    fires = {st for st in STATES if want in may_be(f, t_ast, st)}
                    row = MATRIX.get(f.name) if f.owner_class is not None and ctx.p.is_subclass(f.owner_class, an.Context.name) else None
                    exc = r_ast.exc
                    is_rt = exc is not None and "RuntimeError" in ast.unparse(exc)
                    if row is not None and not (fires & row) and is_rt:
                        rep.hold("C13.R6", f, r_ast, f"extra gate `{ast.unparse(t_ast)}` fires only in states {sorted(fires)} where the statement demands RuntimeError anyway")
                        continue
                    extra += 1
                    rep.violate("C13.R6", f, r_ast, f"`{ast.unparse(t_ast)}` gates a raise on the lifecycle state outside the guard (fires in states {sorted(fires)}): an operation the statement allows in that state (e.g. during teardown, when `closed` is already true) is refused, or the refusal differs from the guard's RuntimeError")
    if not extra:
        rep.hold("C13.R6", guard, None, f"no raise outside the guard is controlled by the lifecycle state ({scanned} functions with both a raise and a state read inspected)", nontrivial=False)
    rep.exhaustive = True
    rep.assume("Enum members are compared by identity; the state attribute is only reachable through the Context class")
