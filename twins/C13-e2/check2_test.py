"""
Property C13 checks accompanying refactor2.diff (Context.children property, warning
when a context is entered after its parent was closed).

Must pass on the unchanged source and with refactor2 applied.
"""

from __future__ import annotations

import sys
from typing import Any

import anyio
import pytest
from anyio import CancelScope, create_task_group

from asphalt.core import Context, current_context

if sys.version_info < (3, 11):
    from exceptiongroup import BaseExceptionGroup

pytestmark = pytest.mark.anyio()


def snapshot(ctx: Context) -> tuple[Any, ...]:
    return (
        dict(ctx._resources),
        dict(ctx._resource_factories),
        list(ctx._teardown_callbacks),
    )


def flatten(exc: BaseException) -> list[BaseException]:
    if isinstance(exc, BaseExceptionGroup):
        result: list[BaseException] = []
        for sub in exc.exceptions:
            result.extend(flatten(sub))
        return result

    return [exc]


async def assert_unusable(ctx: Context, message: str) -> None:
    before = snapshot(ctx)
    state = ctx._state
    with pytest.raises(RuntimeError, match=message):
        ctx.add_resource(object())
    with pytest.raises(RuntimeError, match=message):
        ctx.add_resource_factory(lambda: 1, types=[int])
    with pytest.raises(RuntimeError, match=message):
        ctx.get_resource_nowait(str, optional=True)
    with pytest.raises(RuntimeError, match=message):
        await ctx.get_resource(str, optional=True)
    with pytest.raises(RuntimeError, match=message):
        ctx.add_teardown_callback(lambda: None)
    assert snapshot(ctx) == before
    assert ctx._state is state


async def assert_usable(ctx: Context, tag: str) -> None:
    ctx.add_resource(tag, f"res_{tag}")
    ctx.add_resource_factory(lambda: 1.25, f"fac_{tag}", types=[float])
    assert ctx.get_resource_nowait(str, f"res_{tag}") == tag
    assert await ctx.get_resource(float, f"fac_{tag}") == 1.25
    ctx.add_teardown_callback(lambda: None)
    assert not ctx.closed


async def test_single_entry_in_every_state() -> None:
    ctx = Context()
    await assert_unusable(ctx, "has not been entered yet")
    assert not ctx.closed

    async def in_teardown() -> None:
        assert ctx.closed
        with pytest.raises(RuntimeError, match="is being torn down"):
            await ctx.__aenter__()
        with pytest.raises(RuntimeError, match="is being torn down"):
            async with ctx:
                pytest.fail("must not run")
        assert ctx.closed
        assert ctx.get_resource_nowait(str, "res_a") == "a"

    async with ctx as entered:
        assert entered is ctx
        assert current_context() is ctx
        await assert_usable(ctx, "a")
        ctx.add_teardown_callback(in_teardown)
        for _ in range(2):
            with pytest.raises(RuntimeError, match="already been entered"):
                await ctx.__aenter__()
            with pytest.raises(RuntimeError, match="already been entered"):
                async with ctx:
                    pytest.fail("must not run")
            # a rejected entry must not disturb the open context
            assert not ctx.closed
            assert current_context() is ctx
            assert ctx.get_resource_nowait(str, "res_a") == "a"

    assert ctx.closed
    for _ in range(2):
        with pytest.raises(RuntimeError, match="already been closed"):
            await ctx.__aenter__()
        assert ctx.closed
    await assert_unusable(ctx, "already been closed")


async def test_concurrent_entry_only_one_wins() -> None:
    ctx = Context()
    results: list[str] = []
    release = anyio.Event()

    async def enter(tag: str) -> None:
        try:
            async with ctx:
                results.append(f"{tag} entered")
                await release.wait()
        except RuntimeError as exc:
            results.append(f"{tag} rejected: {exc}")
            release.set()

    async with create_task_group() as tg:
        tg.start_soon(enter, "t1")
        await anyio.wait_all_tasks_blocked()
        tg.start_soon(enter, "t2")

    assert results == [
        "t1 entered",
        "t2 rejected: this context has already been entered",
    ]
    assert ctx.closed


async def test_nested_children_lifecycle() -> None:
    async with Context() as root:
        child = Context()
        assert child.parent is root
        await assert_unusable(child, "has not been entered yet")
        root.add_resource("inherited-late")  # added after the child was created
        async with child:
            await assert_usable(child, "c")
            assert child.get_resource_nowait(str, optional=True) is None
            async with Context() as grandchild:
                assert grandchild.parent is child
                assert grandchild.get_resource_nowait(str, "res_c") == "c"
                await assert_usable(grandchild, "g")

            assert grandchild.closed
            await assert_unusable(grandchild, "already been closed")
            assert not child.closed

        assert child.closed and not root.closed
        await assert_unusable(child, "already been closed")
        await assert_usable(root, "r")

    assert root.closed


async def test_leaving_with_open_child_is_reported() -> None:
    async with Context() as root:
        with pytest.raises(RuntimeError, match="Context stack corruption detected"):
            async with Context() as parent:
                leaked = Context()
                await leaked.__aenter__()
                async with Context(parent) as sibling:
                    pass

                assert sibling.closed

        assert parent.closed
        await assert_unusable(parent, "already been closed")
        # the leaked child is unaffected and can still be used and closed
        assert not leaked.closed
        await assert_usable(leaked, "l")
        await leaked.__aexit__(None, None, None)
        assert leaked.closed
        await assert_unusable(leaked, "already been closed")
        assert not root.closed
        await assert_usable(root, "r")


async def test_child_closed_before_parent_exit_is_not_reported() -> None:
    async with Context() as parent:
        child = Context()
        await child.__aenter__()
        await assert_usable(child, "c")
        await child.__aexit__(None, None, None)
        assert child.closed

    assert parent.closed


async def test_child_created_before_but_entered_after_parent_closed() -> None:
    async with Context() as root:
        async with Context() as parent:
            parent.add_resource("from parent")
            late_child = Context()

        assert parent.closed
        await assert_unusable(late_child, "has not been entered yet")
        # Entering is (still) possible, and the child has its own, full lifecycle
        async with late_child:
            assert late_child.parent is parent
            assert not late_child.closed
            assert late_child.get_resource_nowait(str) == "from parent"
            await assert_usable(late_child, "late")
            with pytest.raises(RuntimeError, match="already been entered"):
                await late_child.__aenter__()

        assert late_child.closed
        await assert_unusable(late_child, "already been closed")
        await assert_unusable(parent, "already been closed")
        with pytest.raises(RuntimeError, match="already been closed"):
            await late_child.__aenter__()
        assert not root.closed


async def test_closed_after_failed_and_cancelled_exits() -> None:
    with pytest.raises(BaseExceptionGroup) as excinfo:
        async with Context() as failing:
            failing.add_teardown_callback(lambda: 1 / 0)

    assert [type(e) for e in flatten(excinfo.value)] == [ZeroDivisionError]
    assert failing.closed
    await assert_unusable(failing, "already been closed")
    with pytest.raises(RuntimeError, match="already been closed"):
        await failing.__aenter__()

    async def slow_teardown() -> None:
        assert cancelled.closed
        cancelled.add_teardown_callback(lambda: None)
        await anyio.sleep(10)

    with CancelScope() as scope:
        async with Context() as cancelled:
            cancelled.add_teardown_callback(slow_teardown)
            scope.cancel()

    assert cancelled.closed
    await assert_unusable(cancelled, "already been closed")
    with pytest.raises(RuntimeError, match="already been closed"):
        await cancelled.__aenter__()
