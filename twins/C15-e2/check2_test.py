"""
Property C15 check (1): every ending of run_application() tears down the root context
(every callback exactly once, in reverse registration order, before run_application()
returns or raises) and the exit is the documented one.

This variant runs the scenarios with different (valid) ``max_threads`` values, the
default logging setup disabled/enabled, and a CLI ``run()`` / teardown callback that
really use the worker thread pool, so that the thread limiter set-up at the top of
run_application() / _run_application_async() is exercised together with every ending.
"""

from __future__ import annotations

import logging
import math
import signal
import threading
import warnings
from functools import partial
from typing import Any

import anyio
import pytest
from anyio import sleep, to_thread, wait_all_tasks_blocked

from asphalt.core import (
    CLIApplicationComponent,
    Component,
    add_teardown_callback,
    get_resource,
    run_application,
    start_service_task,
)

BACKENDS = ["asyncio", "trio"]


MAX_THREADS = [None, 1, 3, True, math.inf]


@pytest.fixture(params=MAX_THREADS, ids=lambda v: f"max_threads={v}")
def max_threads(request: pytest.FixtureRequest) -> Any:
    return request.param


class Recorder:
    """Records registration and invocation of teardown callbacks."""

    def __init__(self) -> None:
        self.registered: list[str] = []
        self.called: list[str] = []
        self.passed: dict[str, BaseException | None] = {}
        self.returned = False  # set by the test right after run_application() ends

    def _mark(self, name: str) -> None:
        assert not self.returned, "callback ran after run_application() ended"
        self.called.append(name)

    def register(self, name: str, flavour: str) -> None:
        self.registered.append(name)
        if flavour == "sync":
            add_teardown_callback(lambda: self._mark(name))
        elif flavour == "async":

            async def callback() -> None:
                # Mark first: after a crash the root task group is cancelled, so an
                # async callback is still *called*, but cancelled at its first
                # checkpoint (that is how the unchanged library behaves)
                self._mark(name)
                await sleep(0)

            add_teardown_callback(callback)
        elif flavour == "partial":
            add_teardown_callback(partial(self._mark, name))
        elif flavour == "object":
            recorder = self

            class CallableObject:
                def __call__(self) -> None:
                    recorder._mark(name)

            add_teardown_callback(CallableObject())
        elif flavour == "partial_object":
            recorder = self

            class CallableObject2:
                def __call__(self, arg: str) -> None:
                    recorder._mark(arg)

            add_teardown_callback(partial(CallableObject2(), name))
        elif flavour == "exc":

            def callback_exc(exc: BaseException | None) -> None:
                self.passed[name] = exc
                self._mark(name)

            add_teardown_callback(callback_exc, pass_exception=True)
        else:  # pragma: no cover
            raise AssertionError(flavour)

    def check(self, expected_names: set[str] | None = None) -> None:
        assert self.called == list(reversed(self.registered))
        assert len(set(self.called)) == len(self.called)
        if expected_names is not None:
            assert set(self.called) == expected_names


class Leaf(Component):
    def __init__(self, recorder: Recorder, name: str, fail: str | None = None):
        self.recorder = recorder
        self.name = name
        self.fail = fail

    async def start(self) -> None:
        self.recorder.register(f"{self.name}.1", "async")
        self.recorder.register(f"{self.name}.2", "object")
        if self.fail == "raise":
            raise RuntimeError("leaf failed")
        elif self.fail == "stall":
            await get_resource(float)
        elif self.fail == "sigint":
            signal.raise_signal(signal.SIGINT)
            await sleep(3)
        elif self.fail == "sigterm":
            signal.raise_signal(signal.SIGTERM)
            await sleep(3)

        self.recorder.register(f"{self.name}.3", "partial_object")


class Tree(Component):
    """Root with two leaf children; registers callbacks before and after them."""

    def __init__(
        self,
        recorder: Recorder,
        fail: str | None = None,
        service: str | None = None,
    ):
        self.recorder = recorder
        self.service = service
        self.add_component("a", Leaf, recorder=recorder, name="a")
        self.add_component("b", Leaf, recorder=recorder, name="b", fail=fail)

    async def prepare(self) -> None:
        self.recorder.register("root.prepare.1", "sync")
        self.recorder.register("root.prepare.2", "exc")

    async def service_task(self) -> None:
        await wait_all_tasks_blocked()
        if self.service == "sigint":
            signal.raise_signal(signal.SIGINT)
        elif self.service == "sigterm":
            signal.raise_signal(signal.SIGTERM)
        elif self.service == "crash":
            raise LookupError("service task crashed")

        await sleep(10)

    async def start(self) -> None:
        self.recorder.register("root.start.1", "partial")
        if self.service:
            # (this registers the service task's own finalizer on the root context,
            # between root.start.1 and root.start.2)
            await start_service_task(self.service_task, "svc")

        self.recorder.register("root.start.2", "exc")


class CLITree(Tree, CLIApplicationComponent):
    def __init__(
        self,
        recorder: Recorder,
        result: Any = None,
        expected_tokens: Any = None,
        **kwargs: Any,
    ):
        CLIApplicationComponent.__init__(self)
        Tree.__init__(self, recorder, **kwargs)
        self.result = result
        self.expected_tokens = expected_tokens

    async def run(self) -> Any:
        self.recorder.register("root.run.1", "async")
        limiter = to_thread.current_default_thread_limiter()
        if self.expected_tokens is not None:
            assert limiter.total_tokens == self.expected_tokens

        main_thread = threading.current_thread()
        other_thread = await to_thread.run_sync(threading.current_thread)
        assert other_thread is not main_thread
        if isinstance(self.result, BaseException):
            raise self.result

        return self.result


def run(
    recorder: Recorder,
    component: type[Component],
    backend: str,
    start_timeout: float = 5,
    max_threads: Any = None,
    **config: Any,
) -> BaseException | None:
    """Run the app; return the exception that run_application() raised, or None."""
    try:
        with warnings.catch_warnings():
            warnings.simplefilter("ignore")
            run_application(
                component,
                {"recorder": recorder, **config},
                backend=backend,
                start_timeout=start_timeout,
                max_threads=max_threads,
                logging=logging.INFO if max_threads == 3 else None,
            )
    except BaseException as exc:
        recorder.returned = True
        return exc
    else:
        recorder.returned = True
        return None


ALL_STARTED = {
    "root.prepare.1",
    "root.prepare.2",
    "a.1",
    "a.2",
    "a.3",
    "b.1",
    "b.2",
    "b.3",
    "root.start.1",
    "root.start.2",
}


@pytest.mark.parametrize("backend", BACKENDS)
@pytest.mark.parametrize(
    "result, expected_code",
    [
        (None, None),
        (0, None),
        (20, 20),
        (127, 127),
        (128, 1),
        (-3, 1),
        ("foo", 1),
    ],
)
def test_cli_result(max_threads: Any, backend: str, result: Any, expected_code: int | None) -> None:
    recorder = Recorder()
    exc = run(
        recorder,
        CLITree,
        backend,
        max_threads=max_threads,
        result=result,
        expected_tokens=max_threads,
    )
    if expected_code is None:
        assert exc is None
    else:
        assert isinstance(exc, SystemExit)
        assert exc.code == expected_code

    recorder.check(ALL_STARTED | {"root.run.1"})
    assert recorder.passed == {"root.start.2": None, "root.prepare.2": None}


@pytest.mark.parametrize("backend", BACKENDS)
def test_cli_run_raises(max_threads: Any, backend: str) -> None:
    recorder = Recorder()
    error = ZeroDivisionError("run() failed")
    exc = run(recorder, CLITree, backend, max_threads=max_threads, result=error)
    assert exc is error
    recorder.check(ALL_STARTED | {"root.run.1"})
    assert recorder.passed == {"root.start.2": error, "root.prepare.2": error}


@pytest.mark.parametrize("backend", BACKENDS)
@pytest.mark.parametrize("fail", ["raise", "sigint", "sigterm"])
@pytest.mark.parametrize("component", [Tree, CLITree])
def test_startup_failure(max_threads: Any, backend: str, fail: str, component: type[Component]) -> None:
    recorder = Recorder()
    exc = run(recorder, component, backend, max_threads=max_threads, fail=fail)
    assert isinstance(exc, SystemExit)
    assert exc.code == 1
    recorder.check()
    assert {"root.prepare.1", "root.prepare.2", "b.1", "b.2"} <= set(recorder.called)
    assert "b.3" not in recorder.called
    assert "root.start.1" not in recorder.called
    assert "root.run.1" not in recorder.called


@pytest.mark.parametrize("backend", BACKENDS)
def test_startup_timeout(max_threads: Any, backend: str) -> None:
    recorder = Recorder()
    exc = run(
        recorder, Tree, backend, start_timeout=0.2, max_threads=max_threads, fail="stall"
    )
    assert isinstance(exc, SystemExit)
    assert exc.code == 1
    recorder.check(
        {"root.prepare.1", "root.prepare.2", "a.1", "a.2", "a.3", "b.1", "b.2"}
    )


@pytest.mark.parametrize("backend", BACKENDS)
@pytest.mark.parametrize("signame", ["sigint", "sigterm"])
def test_signal_after_startup(max_threads: Any, backend: str, signame: str) -> None:
    recorder = Recorder()
    exc = run(recorder, Tree, backend, max_threads=max_threads, service=signame)
    assert exc is None
    recorder.check(ALL_STARTED)
    assert recorder.passed == {"root.start.2": None, "root.prepare.2": None}


@pytest.mark.parametrize("backend", BACKENDS)
def test_service_task_crash_after_startup(max_threads: Any, backend: str) -> None:
    recorder = Recorder()
    exc = run(recorder, Tree, backend, max_threads=max_threads, service="crash")
    assert isinstance(exc, LookupError)
    assert str(exc) == "service task crashed"
    recorder.check(ALL_STARTED)


@pytest.mark.parametrize("backend", BACKENDS)
def test_service_task_crash_during_startup(max_threads: Any, backend: str) -> None:
    class CrashEarly(Component):
        def __init__(self, recorder: Recorder):
            self.recorder = recorder

        async def crash(self) -> None:
            raise LookupError("early crash")

        async def start(self) -> None:
            self.recorder.register("one", "sync")
            self.recorder.register("two", "exc")
            await start_service_task(self.crash, "crasher")
            self.recorder.register("three", "async")
            await sleep(3)
            self.recorder.register("never", "sync")

    recorder = Recorder()
    exc = run(recorder, CrashEarly, backend, max_threads=max_threads)
    assert exc is not None
    assert isinstance(exc, (LookupError, SystemExit))
    if isinstance(exc, SystemExit):
        assert exc.code == 1

    recorder.check({"one", "two", "three"})


def test_sanity_anyio_available() -> None:
    assert anyio.run(sleep, 0) is None


@pytest.mark.parametrize("backend", BACKENDS)
@pytest.mark.parametrize(
    "bad_value, exc_class", [(-1, ValueError), (-100, ValueError), ("4", TypeError)]
)
def test_invalid_max_threads_never_starts_anything(
    backend: str, bad_value: Any, exc_class: type[Exception]
) -> None:
    """
    Values that the backends' capacity limiters reject make run_application() raise that
    exception type; no component is ever created, so nothing is left to tear down.
    """
    recorder = Recorder()
    created: list[Any] = []

    class Never(Tree):
        def __init__(self, **kwargs: Any):
            created.append(self)
            super().__init__(**kwargs)

    exc = run(recorder, Never, backend, max_threads=bad_value)
    assert isinstance(exc, exc_class)
    assert not created
    assert recorder.registered == []
    assert recorder.called == []
