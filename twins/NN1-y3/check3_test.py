"""
Behaviour checks for refactoring 3 (state check helper and its callers, the exit path
of the context with its "stack corruption" check, the exit stack built on entry).
Everything goes through the public API.
"""

from __future__ import annotations

import re
import sys
from collections.abc import AsyncGenerator
from typing import Any

import pytest
from anyio import (
    CancelScope,
    create_task_group,
    get_cancelled_exc_class,
    sleep,
    wait_all_tasks_blocked,
)
from anyio.lowlevel import checkpoint

from asphalt.core import (
    Context,
    NoCurrentContext,
    add_resource_factory,
    add_teardown_callback,
    context_teardown,
    current_context,
    get_resource,
    get_resources,
)

if sys.version_info < (3, 11):
    from exceptiongroup import BaseExceptionGroup, ExceptionGroup

pytestmark = pytest.mark.anyio()

NOT_ENTERED = "this context has not been entered yet"
ALREADY_ENTERED = "this context has already been entered"
ALREADY_CLOSED = "this context has already been closed"
TEARING_DOWN = "this context is being torn down"


def corruption_message(ctx: Context, count: int) -> str:
    return (
        f"Context stack corruption detected: context {id(ctx):x} still has {count} "
        f"active child context(s)"
    )


def collect_leaves(exc: BaseException) -> list[BaseException]:
    if isinstance(exc, BaseExceptionGroup):
        return [leaf for sub in exc.exceptions for leaf in collect_leaves(sub)]

    return [exc]


async def test_exact_state_errors_for_every_checked_operation() -> None:
    def factory() -> int:
        return 3

    async def call_all(ctx: Context) -> dict[str, str | None]:
        outcomes: dict[str, str | None] = {}
        operations: dict[str, Any] = {
            "add_resource": lambda: ctx.add_resource(object(), f"n{len(log)}"),
            "add_resource_factory": lambda: ctx.add_resource_factory(
                factory, f"n{len(log)}"
            ),
            "add_teardown_callback": lambda: ctx.add_teardown_callback(lambda: None),
            "get_resource_nowait": lambda: ctx.get_resource_nowait(
                bytes, optional=True
            ),
            "get_resource": lambda: ctx.get_resource(bytes, optional=True),
        }
        for name, operation in operations.items():
            try:
                retval = operation()
                if name == "get_resource":
                    await retval
            except RuntimeError as exc:
                assert type(exc) is RuntimeError
                assert exc.args == (str(exc),)
                outcomes[name] = str(exc)
            else:
                outcomes[name] = None

        log.append(outcomes)
        return outcomes

    log: list[Any] = []
    ctx = Context()
    assert await call_all(ctx) == dict.fromkeys(
        [
            "add_resource",
            "add_resource_factory",
            "add_teardown_callback",
            "get_resource_nowait",
            "get_resource",
        ],
        NOT_ENTERED,
    )
    in_teardown: list[Any] = []
    async with Context() as root:
        async with ctx:

            async def callback() -> None:
                in_teardown.append(await call_all(ctx))

            ctx.add_teardown_callback(callback)
            outcomes = await call_all(ctx)
            assert set(outcomes.values()) == {None}
            with pytest.raises(RuntimeError) as exc:
                await ctx.__aenter__()

            assert str(exc.value) == ALREADY_ENTERED

        assert root.closed is False

    assert in_teardown == [
        {
            "add_resource": None,
            "add_resource_factory": TEARING_DOWN,
            "add_teardown_callback": None,
            "get_resource_nowait": None,
            "get_resource": None,
        }
    ]
    assert await call_all(ctx) == dict.fromkeys(outcomes, ALREADY_CLOSED)
    with pytest.raises(RuntimeError) as exc:
        await ctx.__aenter__()

    assert str(exc.value) == ALREADY_CLOSED


async def test_callback_added_during_teardown_is_run() -> None:
    events: list[str] = []
    async with Context() as ctx:

        def first() -> None:
            events.append("first")
            ctx.add_teardown_callback(lambda: events.append("added during teardown"))

        ctx.add_teardown_callback(lambda: events.append("last"))
        ctx.add_teardown_callback(first)

    assert events == ["first", "added during teardown", "last"]


async def test_module_level_functions_use_the_entered_context() -> None:
    events: list[str] = []
    with pytest.raises(NoCurrentContext):
        add_teardown_callback(lambda: None)

    async with Context() as root:
        add_resource_factory(lambda: 2.5, types=[float])
        async with Context() as child:
            add_teardown_callback(lambda: events.append("child"))
            assert await get_resource(float) == 2.5
            assert get_resources(float) == {"default": 2.5}

        assert events == ["child"]
        assert get_resources(float) == {}
        add_teardown_callback(lambda: events.append("root"))

    assert events == ["child", "root"]
    assert root.closed and child.closed


async def test_aexit_return_value_and_no_suppression() -> None:
    async with Context():
        ctx = Context()
        await ctx.__aenter__()
        assert await ctx.__aexit__(None, None, None) is False
        assert ctx.closed

        ctx2 = Context()
        await ctx2.__aenter__()
        error = ValueError("x")
        seen: list[Any] = []
        ctx2.add_teardown_callback(seen.append, pass_exception=True)
        assert await ctx2.__aexit__(ValueError, error, None) is False
        assert seen == [error]
        assert ctx2.closed

    root = Context()
    assert await root.__aenter__() is root
    assert await root.__aexit__(None, None, None) is False


async def test_corruption_check_counts_children() -> None:
    root = Context()
    children: list[Context] = []
    with pytest.raises(RuntimeError) as exc:
        async with root:
            for _ in range(3):
                child = Context(root)
                await child.__aenter__()
                children.append(child)

            await children[1].__aexit__(None, None, None)

    assert str(exc.value) == corruption_message(root, 2)
    assert type(exc.value) is RuntimeError
    assert exc.value.__cause__ is None
    assert root.closed
    assert [c.closed for c in children] == [False, True, False]
    for child in (children[2], children[0]):
        await child.__aexit__(None, None, None)

    assert all(c.closed for c in children)


async def test_corruption_check_on_nested_child() -> None:
    async with Context() as root:
        child = Context()
        with pytest.raises(RuntimeError) as exc:
            async with child:
                grandchild = Context()
                await grandchild.__aenter__()

        assert str(exc.value) == corruption_message(child, 1)
        assert re.fullmatch(
            r"Context stack corruption detected: context [0-9a-f]+ still has 1 "
            r"active child context\(s\)",
            str(exc.value),
        )
        assert child.closed and not grandchild.closed
        # The child did unregister itself from the root
        await grandchild.__aexit__(None, None, None)
        assert current_context() is child

    assert root.closed


async def test_corruption_check_skipped_when_teardown_fails() -> None:
    def failing() -> None:
        raise LookupError("teardown failure")

    async with Context():
        parent = Context()
        with pytest.raises(BaseExceptionGroup) as exc:
            async with parent:
                parent.add_teardown_callback(failing)
                child = Context()
                await child.__aenter__()

        # The teardown error wins over the corruption error
        assert isinstance(exc.value, ExceptionGroup)
        assert exc.value.message == "Exceptions were raised during context teardown"
        assert [type(e) for e in exc.value.exceptions] == [LookupError]
        assert parent.closed
        await child.__aexit__(None, None, None)


async def test_corruption_error_replaces_body_exception() -> None:
    async with Context():
        parent = Context()
        body_error = KeyError("body")
        with pytest.raises(RuntimeError) as exc:
            async with parent:
                child = Context()
                await child.__aenter__()
                raise body_error

        assert str(exc.value) == corruption_message(parent, 1)
        assert exc.value.__context__ is body_error
        await child.__aexit__(None, None, None)


async def test_teardown_errors_are_chained_to_body_exception() -> None:
    def failing_1() -> None:
        raise LookupError("one")

    async def failing_2() -> None:
        await checkpoint()
        raise OSError("two")

    body_error = ValueError("body")
    async with Context():
        ctx = Context()
        with pytest.raises(BaseExceptionGroup) as exc:
            async with ctx:
                ctx.add_teardown_callback(failing_1)
                ctx.add_teardown_callback(failing_2)
                raise body_error

        assert [type(e) for e in exc.value.exceptions] == [OSError, LookupError]
        assert exc.value.__cause__ is body_error
        assert ctx.closed
        with pytest.raises(RuntimeError, match=ALREADY_CLOSED):
            ctx.add_teardown_callback(failing_1)


async def test_state_is_closing_while_exit_stack_unwinds() -> None:
    snapshots: list[tuple[str, bool, str | None]] = []

    def probe(label: str, ctx: Context) -> None:
        try:
            ctx.add_resource_factory(lambda: 1, f"probe{len(snapshots)}", types=[int])
        except RuntimeError as exc:
            snapshots.append((label, ctx.closed, str(exc)))
        else:
            snapshots.append((label, ctx.closed, None))

    async with Context() as root:
        child = Context()
        probe("before enter", child)
        async with child:
            probe("open", child)
            child.add_teardown_callback(lambda: probe("teardown", child))

        probe("after exit", child)
        probe("parent", root)

    assert snapshots == [
        ("before enter", False, NOT_ENTERED),
        ("open", False, None),
        ("teardown", True, TEARING_DOWN),
        ("after exit", True, ALREADY_CLOSED),
        ("parent", False, None),
    ]


async def test_cancelled_teardown_marks_context_closed() -> None:
    events: list[str] = []
    holder: dict[str, Context] = {}
    scope = CancelScope()

    async def task() -> None:
        with scope:
            async with Context() as ctx:
                holder["ctx"] = ctx

                async def slow() -> None:
                    events.append("slow started")
                    try:
                        await sleep(10)
                    except get_cancelled_exc_class():
                        events.append("slow cancelled")
                        raise

                ctx.add_teardown_callback(lambda: events.append("outer callback"))
                ctx.add_teardown_callback(slow)

        events.append(f"cancelled_caught={scope.cancelled_caught}")

    async with Context() as root:
        async with create_task_group() as tg:
            tg.start_soon(task)
            await wait_all_tasks_blocked()
            assert holder["ctx"].closed is True
            with pytest.raises(RuntimeError, match=TEARING_DOWN):
                holder["ctx"].add_resource_factory(lambda: 1, types=[int])

            scope.cancel()

        assert holder["ctx"].closed is True
        assert holder["ctx"].parent is root
        with pytest.raises(RuntimeError, match=ALREADY_CLOSED):
            holder["ctx"].add_resource(1)

    assert events == [
        "slow started",
        "slow cancelled",
        "outer callback",
        "cancelled_caught=True",
    ]


async def test_context_teardown_decorator_round_trip() -> None:
    events: list[Any] = []

    @context_teardown
    async def start(label: str) -> AsyncGenerator[None, BaseException | None]:
        events.append(f"{label} started in {current_context() is holder[label]}")
        exception = yield
        events.append((label, exception))

    holder: dict[str, Context] = {}
    error = ValueError("fail")
    with pytest.raises(ValueError) as exc:
        async with Context() as root:
            holder["root"] = root
            await start("root")
            async with Context() as child:
                holder["child"] = child
                await start("child")

            raise error

    assert exc.value is error
    assert events == [
        "root started in True",
        "child started in True",
        ("child", None),
        ("root", error),
    ]

    with pytest.raises(NoCurrentContext):
        await start("nowhere")
