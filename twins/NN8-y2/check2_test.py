"""
Behaviour checks for refactoring 2 (``_init_component()`` split into phases:
instantiation helper, child spec helper + NamedTuple).

Everything is exercised through the public API only.
"""

from __future__ import annotations

import logging
import sys
from collections import OrderedDict, UserDict
from typing import Any
from unittest.mock import Mock

import pytest
from anyio import sleep
from pytest import LogCaptureFixture, MonkeyPatch

from asphalt.core import (
    Component,
    ComponentStartError,
    Context,
    add_resource,
    get_resource_nowait,
    start_component,
)
from asphalt.core._component import component_types

if sys.version_info >= (3, 10):
    from importlib.metadata import EntryPoint
else:
    from importlib_metadata import EntryPoint

pytestmark = pytest.mark.anyio()

events: list[Any] = []


class Leaf(Component):
    def __init__(self, tag: str = "leaf", fail: BaseException | None = None, **kw: Any):
        events.append(("init", tag, kw))
        if fail is not None:
            raise fail

        self.tag = tag

    async def start(self) -> None:
        add_resource(self.tag)


class Branch(Component):
    def __init__(self, tag: str = "branch", twigs: int = 0) -> None:
        events.append(("init", tag, {"twigs": twigs}))
        self.tag = tag
        for index in range(twigs):
            self.add_component(f"leaf/{tag}_t{index}", tag=f"{tag}-twig{index}")


class Hanging(Component):
    async def start(self) -> None:
        await sleep(10)


@pytest.fixture(autouse=True)
def setup(monkeypatch: MonkeyPatch) -> None:
    events.clear()
    entrypoints = {}
    for name, cls in {"leaf": Leaf, "branch": Branch}.items():
        entrypoint = Mock(EntryPoint)
        entrypoint.load.configure_mock(return_value=cls)
        entrypoints[name] = entrypoint

    monkeypatch.setattr(component_types, "_entrypoints", entrypoints)
    monkeypatch.setattr(component_types, "_resolved", {})


async def test_depth_first_creation_order_and_logging(caplog: LogCaptureFixture) -> None:
    config = {
        "tag": "root",
        "twigs": 1,
        "components": {
            "branch/x": {
                "tag": "bx",
                "twigs": 2,
                "components": {
                    "leaf/bx_t1": {"tag": "overridden"},
                    "leaf/extra": None,
                },
            },
            "leaf/root_t0": {"more": 1},
            "last": {"type": "leaf/whatever", "tag": "last"},
        },
    }
    caplog.set_level(logging.DEBUG, "asphalt.core")
    async with Context():
        root = await start_component(Branch, config)
        assert type(root) is Branch
        assert get_resource_nowait(str, "root_t0") == "root-twig0"
        assert get_resource_nowait(str, "bx_t0") == "bx-twig0"
        assert get_resource_nowait(str, "bx_t1") == "overridden"
        assert get_resource_nowait(str, "extra") == "leaf"
        assert get_resource_nowait(str) == "last"

    # Hardcoded children first (in add_component() order), then new ones from the config
    assert events == [
        ("init", "root", {"twigs": 1}),
        ("init", "root-twig0", {"more": 1}),
        ("init", "bx", {"twigs": 2}),
        ("init", "bx-twig0", {}),
        ("init", "overridden", {}),
        ("init", "leaf", {}),
        ("init", "last", {}),
    ]
    lf, br = f"{__name__}.Leaf", f"{__name__}.Branch"
    assert [m for m in caplog.messages if m.startswith(("Creating", "Created"))] == [
        f"Creating the root component ({br})",
        f"Created the root component ({br})",
        f"Creating component 'leaf/root_t0' ({lf})",
        f"Created component 'leaf/root_t0' ({lf})",
        f"Creating component 'branch/x' ({br})",
        f"Created component 'branch/x' ({br})",
        f"Creating component 'branch/x.leaf/bx_t0' ({lf})",
        f"Created component 'branch/x.leaf/bx_t0' ({lf})",
        f"Creating component 'branch/x.leaf/bx_t1' ({lf})",
        f"Created component 'branch/x.leaf/bx_t1' ({lf})",
        f"Creating component 'branch/x.leaf/extra' ({lf})",
        f"Created component 'branch/x.leaf/extra' ({lf})",
        f"Creating component 'last' ({lf})",
        f"Created component 'last' ({lf})",
    ]
    # Nothing is started before the whole tree has been created
    first_start = next(
        i for i, m in enumerate(caplog.messages) if m.startswith("Starting the child")
    )
    assert all(not m.startswith("Creat") for m in caplog.messages[first_start:])
    # The caller's configuration is left alone
    assert config["components"]["last"] == {"type": "leaf/whatever", "tag": "last"}  # type: ignore[index]
    assert "components" in config["components"]["branch/x"]  # type: ignore[index]


async def test_constructor_error_is_wrapped(caplog: LogCaptureFixture) -> None:
    error = ValueError("boom")
    config = {
        "components": {
            "leaf/ok": {"tag": "ok"},
            "branch": {"components": {"leaf/bad": {"fail": error}, "leaf/no": None}},
            "leaf/never": None,
        }
    }
    caplog.set_level(logging.DEBUG, "asphalt.core")
    async with Context():
        with pytest.raises(ComponentStartError) as exc:
            await start_component(Component, config)

    assert exc.value.phase == "creating"
    assert exc.value.path == "branch.leaf/bad"
    assert exc.value.component_type is Leaf
    assert exc.value.args == ("creating", "branch.leaf/bad", Leaf)
    assert exc.value.__cause__ is error
    assert str(exc.value) == (
        f"error creating component 'branch.leaf/bad' ({__name__}.Leaf): "
        f"ValueError: boom"
    )
    assert [event[1] for event in events] == ["ok", "branch", "leaf"]
    # "Creating" was logged for the failing component, "Created" was not
    assert caplog.messages[-1] == (
        f"Creating component 'branch.leaf/bad' ({__name__}.Leaf)"
    )


async def test_bad_constructor_arguments_and_root_failure() -> None:
    async with Context():
        with pytest.raises(ComponentStartError) as exc:
            await start_component(Branch, {"nonexistent": 1})

        assert exc.value.phase == "creating"
        assert exc.value.path == ""
        assert exc.value.component_type is Branch
        assert type(exc.value.__cause__) is TypeError
        assert "nonexistent" in str(exc.value.__cause__)
        assert str(exc.value).startswith(
            f"error creating the root component ({__name__}.Branch): TypeError: "
        )
        assert events == []


async def test_base_exception_from_constructor_is_not_wrapped() -> None:
    class Stop(BaseException):
        pass

    error = Stop("stop")
    async with Context():
        with pytest.raises(Stop) as exc:
            await start_component(
                Component, {"components": {"leaf": {"fail": error}, "leaf/2": None}}
            )

    assert exc.value is error
    assert exc.value.__cause__ is None
    assert len(events) == 1


async def test_type_resolution_errors() -> None:
    async with Context():
        with pytest.raises(TypeError) as exc:
            await start_component(int)  # type: ignore[type-var]

        assert str(exc.value) == (
            "(root): the declared component type (<class 'int'>) resolved to "
            "<class 'int'> which is not a subclass of Component"
        )

        with pytest.raises(TypeError) as exc:
            await start_component(
                "branch",
                {"components": {"sub": {"type": Leaf(tag="instance")}}},
            )

        assert str(exc.value).startswith("sub: the declared component type (<")
        assert str(exc.value).endswith("which is not a subclass of Component")

        with pytest.raises(LookupError) as exc2:
            await start_component(
                Branch, {"components": {"branch/a": {"components": {"oops/b": {}}}}}
            )

        assert str(exc2.value) == "no such entry point in asphalt.components: oops"

    assert [event[1] for event in events] == ["instance", "branch", "branch", "branch"]


@pytest.mark.parametrize(
    "bad_config, type_name",
    [
        pytest.param("text", "str", id="str"),
        pytest.param(["type", "leaf"], "list", id="list"),
        pytest.param(0, "int", id="zero"),
        pytest.param((), "tuple", id="emptytuple"),
    ],
)
async def test_bad_child_config(bad_config: object, type_name: str) -> None:
    config = {
        "components": {
            "leaf/first": None,
            "branch": {"components": {"leaf": {}, "leaf/bad": bad_config}},
        }
    }
    async with Context():
        with pytest.raises(TypeError) as exc:
            await start_component(Component, config)

    assert str(exc.value) == (
        f"branch.leaf/bad: component configuration must be either None or a dict (or "
        f"any other mutable mapping type), not {type_name}"
    )
    # The siblings before the bad one had already been created
    assert [event[1] for event in events] == ["leaf", "branch", "leaf"]


async def test_exotic_mutable_mappings_are_copied() -> None:
    user_dict = UserDict({"tag": "userdict", "type": "leaf/zzz"})
    ordered = OrderedDict(tag="ordered")
    empty: dict[str, Any] = {}
    config = UserDict(
        {"components": {"first": user_dict, "leaf/second": ordered, "leaf/third": empty}}
    )
    async with Context():
        await start_component(Component, config)
        assert get_resource_nowait(str) == "userdict"
        assert get_resource_nowait(str, "second") == "ordered"
        assert get_resource_nowait(str, "third") == "leaf"

    assert dict(user_dict) == {"tag": "userdict", "type": "leaf/zzz"}
    assert ordered == {"tag": "ordered"}
    assert empty == {}
    assert list(config) == ["components"]


async def test_bad_components_section() -> None:
    async with Context():
        with pytest.raises(AttributeError):
            await start_component(Leaf, {"components": ["leaf"]})

    # The component was created before its children were looked at
    assert len(events) == 1

    # A falsy "components" value means no children
    for falsy in (None, {}, [], 0, ""):
        async with Context():
            root = await start_component(Leaf, {"components": falsy, "tag": "f"})
            assert type(root) is Leaf
            assert get_resource_nowait(str) == "f"


async def test_timeout_report_reflects_the_component_tree(
    caplog: LogCaptureFixture,
) -> None:
    config = {
        "components": {
            "branch/a": {
                "components": {
                    "hang": {"type": Hanging},
                    "leaf/done": None,
                }
            },
            "leaf/b": None,
        }
    }
    caplog.set_level(logging.ERROR, "asphalt.core")
    async with Context():
        with pytest.raises(TimeoutError, match="timeout starting component tree"):
            await start_component(Component, config, timeout=0.2)

    report = caplog.messages[-1]
    status = report.split("\n\n")[2].splitlines()
    assert status == [
        "(root): starting children",
        "  branch/a: starting children",
        "    hang: starting",
    ]
    assert f"branch/a.hang ({__name__}.Hanging):" in report
