#!/usr/bin/env python3
"""Regenerate the tables of DESIGN.md section 10 (between the BEGIN/END markers) from
/verif/seeded/*/meta.json, /verif/twins/*/meta.json and the self-test catalogue."""
import glob, json, os, re, sys
VERIF = os.path.dirname(os.path.dirname(os.path.abspath(__file__)))
sys.path.insert(0, VERIF)

def first_line(path, n=1):
    try:
        return open(path).read().strip().splitlines()[:n]
    except OSError:
        return []

def seeded_table():
    rows = ["| id | breaks | what the change does (from the diff) | needs to manifest | own check fires (rules) | other checks that fire |", "|---|---|---|---|---|---|"]
    for mp in sorted(glob.glob(os.path.join(VERIF, "seeded", "*", "meta.json"))):
        m = json.load(open(mp))
        d = os.path.dirname(mp)
        fired = m.get("static_checks_fired", {})
        prop = m["breaks_property"]
        own = fired.get(prop, {})
        own_rules = sorted({l.split()[0] for l in own.get("lines", []) if re.match(r"^C\d\d\.R\d", l)})
        others = sorted(k for k, v in fired.items() if k != prop and v.get("exit") == 1)
        summ = m.get("summary", "")
        needs = m.get("needs") or m.get("what_it_needs_to_manifest", "")
        summ = (summ[:300] + " ...") if len(summ) > 300 else summ
        needs = (needs[:300] + " ...") if len(needs) > 300 else needs
        summ, needs = summ.replace("|", "/"), needs.replace("|", "/")
        rows.append(f"| {m['id']} | {prop} | {summ} | {needs} | {'yes: ' + ', '.join(own_rules) if m.get('detected_by_own_property_check') else '**no**'} | {', '.join(others) or '-'} |")
    return "\n".join(rows)

def twins_table():
    rows = ["| id | kind | about | suite | agent's behaviour check | verdict of all 19 checks |", "|---|---|---|---|---|---|"]
    for mp in sorted(glob.glob(os.path.join(VERIF, "twins", "*", "meta.json"))):
        m = json.load(open(mp))
        before = m.get("first_verdicts_before_hardening") or {}
        note = "silent" + (f" (before hardening: {', '.join(f'{k}:{v['verdict']}' for k, v in before.items())})" if before else "")
        kind = "evolution" if "-e" in m["id"] else "refactoring"
        rows.append(f"| {m['id']} | {kind} | {m['about_property']} | {m['suite_with']['passed']} passed | with/without: {'pass' if (m.get('check_with') or {}).get('exit') == 0 else '?'}/{'pass' if (m.get('check_without') or {}).get('exit') == 0 else '?'} | {note} |")
    return "\n".join(rows)

def catalogue_table():
    from selftest import ops
    by = {}
    for m in ops.MUTANTS:
        by.setdefault(m["prop"], {"break": 0, "twin": 0})[m["kind"]] += 1
    rows = ["| property | hand-written breaking variants | hand-written twins |", "|---|---|---|"]
    for p in sorted(by):
        rows.append(f"| {p} | {by[p]['break']} | {by[p]['twin']} |")
    return "\n".join(rows)

def main():
    path = os.path.join(VERIF, "DESIGN.md")
    s = open(path).read()
    for name, fn in (("SEEDED", seeded_table), ("TWINS", twins_table), ("CATALOGUE", catalogue_table)):
        b, e = f"<!-- BEGIN {name} -->", f"<!-- END {name} -->"
        if b in s and e in s:
            s = s[: s.index(b) + len(b)] + "\n" + fn() + "\n" + s[s.index(e):]
    open(path, "w").write(s)

if __name__ == "__main__":
    main()
