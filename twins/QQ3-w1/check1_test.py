"""
Behaviour checks for refactoring 1 (default resource name helper, local alias in
add_component(), renamed locals in the ComponentContext wrappers).
"""

from __future__ import annotations

from typing import Any

import anyio
import pytest
from anyio import fail_after
from anyio.abc import TaskStatus

from asphalt.core import (
    Component,
    ComponentStartError,
    Context,
    ResourceConflict,
    TaskFactory,
    add_resource,
    add_resource_factory,
    get_resource,
    get_resource_nowait,
    get_resources,
    start_background_task_factory,
    start_component,
    start_service_task,
)

pytestmark = pytest.mark.anyio()


@pytest.fixture
def anyio_backend() -> str:
    return "asyncio"


class Leaf(Component):
    def __init__(self, **kwargs: Any) -> None:
        self.kwargs = kwargs


class TestAddComponent:
    def test_stores_type_and_config(self) -> None:
        component = Leaf()
        assert component._child_components is None
        component.add_component("first", Leaf, a=1)
        component.add_component("second")
        component.add_component("third/alt", "third", b=2)
        component.add_component("fourth", None, type2=3)
        assert component._child_components == {
            "first": {"type": Leaf, "a": 1},
            "second": {"type": "second"},
            "third/alt": {"type": "third", "b": 2},
            "fourth": {"type": "fourth", "type2": 3},
        }
        assert list(component._child_components) == [
            "first",
            "second",
            "third/alt",
            "fourth",
        ]
        # The class level default is left alone
        assert Component._child_components is None
        assert Leaf()._child_components is None

    def test_duplicate_alias(self) -> None:
        component = Leaf()
        component.add_component("dup", Leaf, a=1)
        with pytest.raises(
            ValueError, match='^there is already a child component named "dup"$'
        ):
            component.add_component("dup", Leaf, a=2)

        assert component._child_components == {"dup": {"type": Leaf, "a": 1}}

    @pytest.mark.parametrize("alias", ["", None, 5, b"x"])
    def test_bad_alias(self, alias: Any) -> None:
        component = Leaf()
        with pytest.raises(TypeError, match="^alias must be a nonempty string$"):
            component.add_component(alias, Leaf)

        # A rejected alias must not have created the container
        assert component._child_components is None

    async def test_after_start(self) -> None:
        async with Context():
            component = await start_component(Leaf)

        # The "started" check comes before the alias check
        with pytest.raises(RuntimeError, match="child components cannot be added"):
            component.add_component("")

        assert component._child_components is None

    def test_failing_truth_value_of_type(self) -> None:
        class Weird:
            def __bool__(self) -> bool:
                raise ZeroDivisionError

        component = Leaf()
        with pytest.raises(ZeroDivisionError):
            component.add_component("x", Weird())  # type: ignore[arg-type]

        # The container had been created by then, but nothing was stored
        assert component._child_components == {}


class Provider(Component):
    """Adds resources in prepare() and start() with default and explicit names."""

    def __init__(self, suffix: str = "") -> None:
        self.suffix = suffix

    async def prepare(self) -> None:
        add_resource(f"prep{self.suffix}", types=[str])
        add_resource_factory(self.make_float, types=[float])

    async def start(self) -> None:
        add_resource(7 + len(self.suffix))
        add_resource(b"explicit", f"explicit{self.suffix}")
        add_resource_factory(self.make_list)
        add_resource_factory(self.make_tuple, f"named{self.suffix}")

    def make_float(self) -> float:
        return 1.5

    def make_list(self) -> list:  # type: ignore[type-arg]
        return [self.suffix]

    def make_tuple(self) -> tuple:  # type: ignore[type-arg]
        return (self.suffix,)


async def test_default_resource_names() -> None:
    async with Context():
        await start_component(Provider, {"suffix": "_root"})
        assert get_resources(int) == {"default": 12}
        assert get_resources(str) == {"default": "prep_root"}
        assert get_resources(bytes) == {"explicit_root": b"explicit"}
        assert get_resource_nowait(float) == 1.5
        assert get_resource_nowait(list) == ["_root"]
        assert get_resource_nowait(tuple, "named_root") == ("_root",)


async def test_default_resource_name_from_alias_valid() -> None:
    class OnlyStart(Provider):
        async def prepare(self) -> None:
            # In prepare(), "default" stays "default"
            add_resource(self, "default" if self.suffix == "_s" else "other")

    class Root(Component):
        def __init__(self) -> None:
            self.add_component("provider/special", OnlyStart, suffix="_s")
            self.add_component("plain", OnlyStart, suffix="_p")

        async def prepare(self) -> None:
            add_resource(2.5)

        async def start(self) -> None:
            add_resource(3.25, "late", description="root float")
            add_resource_factory(self.factory)

        def factory(self) -> bytearray:
            return bytearray(b"x")

    async with Context():
        await start_component(Root)
        assert get_resources(int) == {"special": 9, "default": 9}
        assert get_resources(bytes) == {"explicit_s": b"explicit", "explicit_p": b"explicit"}
        assert get_resources(float) == {"default": 2.5, "late": 3.25}
        assert sorted(get_resources(OnlyStart)) == ["default", "other"]
        assert get_resource_nowait(list, "special") == ["_s"]
        assert get_resource_nowait(list) == ["_p"]
        assert get_resource_nowait(tuple, "named_s") == ("_s",)
        assert get_resource_nowait(tuple, "named_p") == ("_p",)
        assert get_resource_nowait(bytearray) == bytearray(b"x")
        assert get_resource_nowait(list, "default_s", optional=True) is None


async def test_conflict_on_translated_name() -> None:
    class Child(Component):
        async def start(self) -> None:
            add_resource(1)

    class Root(Component):
        def __init__(self) -> None:
            self.add_component("a/same", Child)
            self.add_component("b/same", Child)

    async with Context():
        with pytest.raises(ComponentStartError) as exc_info:
            await start_component(Root)

        assert isinstance(exc_info.value.__cause__, ResourceConflict)
        assert "'same'" in str(exc_info.value.__cause__)
        assert get_resources(int) == {"same": 1}


async def test_waited_resource_and_task_return_values() -> None:
    results: dict[str, Any] = {}

    class Consumer(Component):
        async def start(self) -> None:
            results["waited"] = await get_resource(str, "late")
            results["optional"] = await get_resource(int, "missing", optional=True)

    class Producer(Component):
        async def start(self) -> None:
            async def service(*, task_status: TaskStatus[str]) -> None:
                task_status.started("service value")
                await anyio.sleep_forever()

            results["service"] = await start_service_task(service, "svc")
            factory = await start_background_task_factory()
            results["factory"] = factory
            handle = factory.start_task_soon(lambda: anyio.sleep(0), "napper")
            await handle.wait_finished()
            await anyio.sleep(0.05)
            add_resource("finally", "late")

    class Root(Component):
        def __init__(self) -> None:
            self.add_component("consumer", Consumer)
            self.add_component("producer", Producer)

    with fail_after(5):
        async with Context():
            await start_component(Root)

    assert results["waited"] == "finally"
    assert results["optional"] is None
    assert results["service"] == "service value"
    assert isinstance(results["factory"], TaskFactory)
