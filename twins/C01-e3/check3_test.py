"""
Property C01 checks, focused on the @context_teardown route: the rest of the generator
runs exactly once at teardown, in LIFO position relative to every other callback,
serially, receives the exception that ended the block, and exceptions it raises are
aggregated without stopping the other callbacks.

Must pass on the unchanged source and with refactor3.diff applied.
"""

from __future__ import annotations

import logging
import sys
from collections.abc import AsyncGenerator
from functools import partial
from typing import Any

import anyio
import pytest
from anyio import CancelScope, get_cancelled_exc_class
from anyio.lowlevel import checkpoint

from asphalt.core import Context, add_resource, context_teardown

if sys.version_info < (3, 11):
    from exceptiongroup import BaseExceptionGroup

pytestmark = pytest.mark.anyio


@pytest.fixture(params=["asyncio", "trio"])
def anyio_backend(request: pytest.FixtureRequest) -> str:
    return request.param


@pytest.fixture(autouse=True)
def capture_everything(caplog: pytest.LogCaptureFixture) -> None:
    caplog.set_level(logging.DEBUG, logger="asphalt.core")


class Fatal(BaseException):
    pass


class Trace:
    def __init__(self) -> None:
        self.events: list[str] = []
        self.sent: dict[str, BaseException | None] = {}
        self.active = 0
        self.closed_generators: list[str] = []

    def start(self, key: str) -> None:
        self.active += 1
        assert self.active == 1, "teardown callbacks overlap"
        self.events.append(f"{key}>")

    def end(self, key: str) -> None:
        self.events.append(f"<{key}")
        self.active -= 1

    def plain(self, key: str, raises: BaseException | None = None) -> Any:
        async def callback() -> None:
            self.start(key)
            with CancelScope(shield=True):
                await checkpoint()

            self.end(key)
            if raises:
                raise raises

        return callback

    def expect(self, *keys: str) -> None:
        expected: list[str] = []
        for key in keys:
            expected += [f"{key}>", f"<{key}"]

        assert self.events == expected
        assert self.active == 0


def make_start(trace: Trace) -> Any:
    @context_teardown
    async def start(
        key: str, raises: BaseException | None = None, *, extra_yields: int = 0
    ) -> AsyncGenerator[None, BaseException | None]:
        trace.events.append(f"setup:{key}")
        try:
            exc = yield
            trace.sent[key] = exc
            trace.start(key)
            with CancelScope(shield=True):
                await checkpoint()
                await anyio.sleep(0.001)

            trace.end(key)
            if raises:
                raise raises

            for _ in range(extra_yields):
                yield
        finally:
            trace.closed_generators.append(key)

    return start


class Service:
    """@context_teardown on a method, as components use it."""

    def __init__(self, trace: Trace, key: str) -> None:
        self.trace = trace
        self.key = key

    @context_teardown
    async def start(self) -> AsyncGenerator[None, BaseException | None]:
        exc = yield
        self.trace.sent[self.key] = exc
        self.trace.start(self.key)
        self.trace.end(self.key)


@pytest.mark.parametrize("block_error", [None, ValueError("x")], ids=["ok", "exc"])
async def test_generators_interleaved_with_other_routes(
    block_error: Exception | None,
) -> None:
    trace = Trace()
    start = make_start(trace)
    ctx = Context()
    try:
        async with ctx:
            await start("g1")
            ctx.add_teardown_callback(trace.plain("cb1"))
            await Service(trace, "method").start()
            await partial(start, "g2")()
            add_resource("res", teardown_callback=trace.plain("res"))
            await start("g3")
            assert trace.events == ["setup:g1", "setup:g2", "setup:g3"]
            del trace.events[:]
            if block_error:
                raise block_error
    except ValueError as exc:
        assert exc is block_error
    else:
        assert block_error is None

    assert ctx.closed
    trace.expect("g3", "res", "g2", "method", "cb1", "g1")
    assert trace.sent == dict.fromkeys(["g3", "g2", "method", "g1"], block_error)
    assert trace.closed_generators == ["g3", "g2", "g1"]


async def test_generator_registered_during_teardown() -> None:
    trace = Trace()
    start = make_start(trace)
    error = RuntimeError("bye")
    with pytest.raises(RuntimeError) as exc_info:
        async with Context() as ctx:

            async def registrar() -> None:
                trace.start("registrar")
                await start("late")
                ctx.add_teardown_callback(trace.plain("later"))
                trace.end("registrar")

            await start("early")
            ctx.add_teardown_callback(registrar)
            raise error

    assert exc_info.value is error
    assert ctx.closed
    assert trace.events == [
        "setup:early",
        "registrar>",
        "setup:late",
        "<registrar",
        "later>",
        "<later",
        "late>",
        "<late",
        "early>",
        "<early",
    ]
    assert trace.sent == {"late": error, "early": error}


async def test_generators_that_raise_at_teardown() -> None:
    trace = Trace()
    start = make_start(trace)
    errors = [ValueError("g1"), Fatal("g3"), KeyError("cb")]
    async with Context():
        ctx = Context()
        with pytest.raises(BaseExceptionGroup) as exc_info:
            async with ctx:
                await start("g1", errors[0])
                await start("g2")
                ctx.add_teardown_callback(trace.plain("cb", errors[2]))
                await start("g3", errors[1])
                del trace.events[:]

        assert ctx.closed

    trace.expect("g3", "cb", "g2", "g1")
    assert list(exc_info.value.exceptions) == [errors[1], errors[2], errors[0]]
    assert trace.sent == {"g3": None, "g2": None, "g1": None}
    assert trace.closed_generators == ["g3", "g2", "g1"]


async def test_generators_with_extra_yields_and_early_returns() -> None:
    """Corner cases of the generator protocol must not disturb the other callbacks."""
    trace = Trace()
    start = make_start(trace)

    @context_teardown
    async def returns_before_yield(flag: bool) -> AsyncGenerator[None, Any]:
        trace.events.append("setup:noyield")
        if flag:
            return

        yield

    error = OSError("block")
    with pytest.raises(OSError) as exc_info:
        async with Context() as ctx:
            await start("g1", extra_yields=1)
            await returns_before_yield(True)
            ctx.add_teardown_callback(trace.plain("cb"))
            await start("g2", extra_yields=3)
            await start("g3")
            del trace.events[:]
            raise error

    assert exc_info.value is error
    assert ctx.closed
    trace.expect("g3", "g2", "cb", "g1")
    assert trace.sent == {"g3": error, "g2": error, "g1": error}
    assert trace.closed_generators == ["g3", "g2", "g1"]


async def test_generator_failing_before_yield_registers_nothing() -> None:
    trace = Trace()

    @context_teardown
    async def broken() -> AsyncGenerator[None, Any]:
        trace.events.append("setup")
        raise LookupError("startup failed")
        yield

    async with Context() as ctx:
        ctx.add_teardown_callback(trace.plain("cb"))
        with pytest.raises(LookupError, match="startup failed"):
            await broken()

        del trace.events[:]

    assert ctx.closed
    trace.expect("cb")


async def test_generators_on_cancellation() -> None:
    trace = Trace()
    start = make_start(trace)
    ctx = Context()
    async with anyio.create_task_group() as tg:
        with CancelScope() as scope:
            async with ctx:
                await start("g1")
                ctx.add_teardown_callback(trace.plain("cb"))
                await start("g2", extra_yields=1)
                del trace.events[:]

                async def cancel_soon() -> None:
                    await anyio.sleep(0.01)
                    scope.cancel()

                tg.start_soon(cancel_soon)
                await anyio.sleep_forever()

    assert scope.cancelled_caught
    assert ctx.closed
    trace.expect("g2", "cb", "g1")
    assert set(trace.sent) == {"g1", "g2"}
    for value in trace.sent.values():
        assert isinstance(value, get_cancelled_exc_class())

    assert trace.closed_generators == ["g2", "g1"]
