"""
Behaviour checks for refactoring 1 (state checks, ``closed`` property, reset of the
current context).  Everything goes through the public API.
"""

from __future__ import annotations

import sys
from itertools import count
from typing import Any

import pytest
from anyio import create_task_group, sleep
from anyio.lowlevel import checkpoint

from asphalt.core import (
    Context,
    NoCurrentContext,
    add_resource,
    current_context,
    get_resource_nowait,
)

if sys.version_info < (3, 11):
    from exceptiongroup import BaseExceptionGroup, ExceptionGroup

pytestmark = pytest.mark.anyio()


_names = (f"extra{i}" for i in count())


def _factory() -> int:
    return 1


#: every public operation that checks the state of the context, together with the
#: states (by name) in which it is permitted
OPERATIONS: dict[str, tuple[Any, set[str]]] = {
    "add_resource": (
        lambda ctx: ctx.add_resource(1, next(_names)),
        {"open", "closing"},
    ),
    "add_resource_factory": (
        lambda ctx: ctx.add_resource_factory(_factory, next(_names), types=[float]),
        {"open"},
    ),
    "add_teardown_callback": (
        lambda ctx: ctx.add_teardown_callback(lambda: None),
        {"open", "closing"},
    ),
    "get_resource_nowait": (
        lambda ctx: ctx.get_resource_nowait(str, "missing", optional=True),
        {"open", "closing"},
    ),
}

MESSAGES = {
    "inactive": "this context has not been entered yet",
    "open": "this context has already been entered",
    "closing": "this context is being torn down",
    "closed": "this context has already been closed",
}


def attempt(ctx: Context, opname: str) -> str:
    func = OPERATIONS[opname][0]
    try:
        func(ctx)
    except RuntimeError as exc:
        assert type(exc) is RuntimeError
        assert exc.__cause__ is None
        return str(exc)

    return "ok"


@pytest.mark.parametrize("opname", sorted(OPERATIONS))
async def test_state_matrix(opname: str) -> None:
    allowed = OPERATIONS[opname][1]
    observed: dict[str, str] = {}
    ctx = Context()
    observed["inactive"] = attempt(ctx, opname)
    async with ctx:

        def in_teardown() -> None:
            observed["closing"] = attempt(ctx, opname)

        ctx.add_teardown_callback(in_teardown)
        observed["open"] = attempt(ctx, opname)

    observed["closed"] = attempt(ctx, opname)
    for state, outcome in observed.items():
        if state in allowed:
            assert outcome == "ok", (state, outcome)
        else:
            assert outcome == MESSAGES[state], (state, outcome)


async def test_get_resource_async_state_messages() -> None:
    ctx = Context()
    with pytest.raises(RuntimeError) as exc:
        await ctx.get_resource(int)

    assert str(exc.value) == MESSAGES["inactive"]
    async with ctx:
        ctx.add_resource(5)
        assert await ctx.get_resource(int) == 5

    with pytest.raises(RuntimeError) as exc:
        await ctx.get_resource(int)

    assert str(exc.value) == MESSAGES["closed"]


async def test_closed_property_through_lifecycle() -> None:
    seen: list[tuple[str, bool]] = []
    ctx = Context()
    seen.append(("new", ctx.closed))
    assert ctx.closed is False
    async with ctx:
        seen.append(("open", ctx.closed))

        async def async_cb() -> None:
            seen.append(("async-teardown-before", ctx.closed))
            await checkpoint()
            seen.append(("async-teardown-after", ctx.closed))

        def sync_cb(exc: BaseException | None) -> None:
            seen.append(("sync-teardown", ctx.closed))
            assert exc is None

        ctx.add_teardown_callback(async_cb)
        ctx.add_teardown_callback(sync_cb, pass_exception=True)

    seen.append(("closed", ctx.closed))
    assert ctx.closed is True
    assert seen == [
        ("new", False),
        ("open", False),
        ("sync-teardown", True),
        ("async-teardown-before", True),
        ("async-teardown-after", True),
        ("closed", True),
    ]


async def test_enter_twice_and_reenter_after_close() -> None:
    ctx = Context()
    async with ctx:
        with pytest.raises(RuntimeError) as exc:
            await ctx.__aenter__()

        assert str(exc.value) == MESSAGES["open"]
        # The failed attempt must not have disturbed the open context
        assert ctx.closed is False
        assert current_context() is ctx
        ctx.add_resource("still works")
        assert get_resource_nowait(str) == "still works"

    with pytest.raises(RuntimeError) as exc:
        async with ctx:
            pytest.fail("should not get here")

    assert str(exc.value) == MESSAGES["closed"]
    assert ctx.closed is True


async def test_enter_during_teardown() -> None:
    ctx = Context()
    errors: list[BaseException] = []

    async def reenter() -> None:
        try:
            await ctx.__aenter__()
        except RuntimeError as e:
            errors.append(e)

    async with ctx:
        ctx.add_teardown_callback(reenter)

    assert [str(e) for e in errors] == [MESSAGES["closing"]]
    assert ctx.closed is True


async def test_current_context_is_set_and_reset() -> None:
    with pytest.raises(NoCurrentContext):
        current_context()

    async with Context() as outer:
        assert current_context() is outer
        async with Context() as inner:
            assert current_context() is inner
            assert inner.parent is outer
            add_resource("inner-only")
            assert inner.get_resource_nowait(str) == "inner-only"
            assert outer.get_resource_nowait(str, optional=True) is None

        assert current_context() is outer
        with pytest.raises(KeyError):
            async with Context() as failing:
                assert current_context() is failing
                raise KeyError("boom")

        assert failing.closed
        assert current_context() is outer

    with pytest.raises(NoCurrentContext):
        current_context()


async def test_current_context_during_teardown_callbacks() -> None:
    seen: list[Any] = []
    async with Context() as outer:
        async with Context() as inner:
            inner.add_teardown_callback(lambda: seen.append(current_context()))

        assert seen == [inner]
        outer.add_teardown_callback(lambda: seen.append(current_context()))

    assert seen == [inner, outer]


async def test_current_context_isolated_between_tasks() -> None:
    results: dict[str, Any] = {}

    async def worker(name: str) -> None:
        async with Context() as ctx:
            await sleep(0.01)
            results[name] = (current_context() is ctx, ctx.parent)

    async with Context() as root:
        async with create_task_group() as tg:
            tg.start_soon(worker, "a")
            tg.start_soon(worker, "b")

        assert current_context() is root

    assert results == {"a": (True, root), "b": (True, root)}


async def test_teardown_errors_leave_context_closed() -> None:
    def failing() -> None:
        raise ValueError("teardown failed")

    async with Context() as root:
        ctx = Context()
        with pytest.raises(BaseExceptionGroup) as exc:
            async with ctx:
                ctx.add_teardown_callback(failing)

        assert isinstance(exc.value, ExceptionGroup)
        assert exc.value.message == "Exceptions were raised during context teardown"
        assert len(exc.value.exceptions) == 1
        assert isinstance(exc.value.exceptions[0], ValueError)
        assert exc.value.__cause__ is None
        assert ctx.closed is True
        assert attempt(ctx, "add_resource") == MESSAGES["closed"]
        assert current_context() is root
        assert root.closed is False

    with pytest.raises(NoCurrentContext):
        current_context()


async def test_root_teardown_error_leaves_context_closed() -> None:
    ctx = Context()

    def failing() -> None:
        raise ValueError("teardown failed")

    with pytest.raises(BaseExceptionGroup) as exc:
        async with ctx:
            ctx.add_teardown_callback(failing)

    leaves: list[BaseException] = []

    def collect(e: BaseException) -> None:
        if isinstance(e, BaseExceptionGroup):
            for sub in e.exceptions:
                collect(sub)
        else:
            leaves.append(e)

    collect(exc.value)
    assert [type(e) for e in leaves] == [ValueError]
    assert ctx.closed is True
    with pytest.raises(NoCurrentContext):
        current_context()
