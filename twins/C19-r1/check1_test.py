"""
Behaviour check for refactoring 1 (guard-clause restructuring of the annotation
unwrapping in ``inject.<locals>.resolve_forward_refs``).

Exercises how the annotated type of an injected parameter is turned into the
(type, optional) pair used for the lookup: plain types, typing.Optional,
typing.Union[None, T], PEP 604 in both orders, string forward references,
generic aliases, invalid unions (error raised on every call, before the body).
"""

import sys
from typing import Any, Dict, List, Optional, Union

import pytest

from asphalt.core import (
    Context,
    ResourceNotFound,
    add_resource,
    add_resource_factory,
    get_resource,
    get_resource_nowait,
    inject,
    resource,
)

pytestmark = pytest.mark.anyio()


class Late:
    """Referred to by string annotations below."""

    def __init__(self, tag: str) -> None:
        self.tag = tag


OPTIONAL_INT_ANNOTATIONS = [
    pytest.param(Optional[int], id="Optional"),
    pytest.param(Union[int, None], id="Union-T-None"),
    pytest.param(Union[None, int], id="Union-None-T"),
    pytest.param(int | None, id="pep604-T-None"),
    pytest.param(None | int, id="pep604-None-T"),
    pytest.param("Optional[int]", id="str-Optional"),
    pytest.param("int | None", id="str-pep604"),
    pytest.param("Union[None, int]", id="str-Union"),
]


@pytest.mark.parametrize("annotation", OPTIONAL_INT_ANNOTATIONS)
async def test_optional_sync(annotation: Any) -> None:
    calls: list[Any] = []

    @inject
    def func(a: str, res: annotation = resource("num"), *, kw: int = 3) -> Any:
        calls.append(res)
        return a, res, kw

    async with Context():
        # nothing matches -> None, same as the explicit lookup
        assert get_resource_nowait(int, "num", optional=True) is None
        assert func("x") == ("x", None, 3)
        # a resource with a different name does not match
        add_resource(7)
        assert func("x", kw=4) == ("x", None, 4)
        add_resource(11, "num")
        assert func("y") == ("y", get_resource_nowait(int, "num"), 3)
        assert func(a="z") == ("z", 11, 3)

    assert calls == [None, None, 11, 11]


@pytest.mark.parametrize("annotation", OPTIONAL_INT_ANNOTATIONS)
async def test_optional_async(annotation: Any) -> None:
    @inject
    async def func(a: str, *, res: annotation = resource()) -> Any:
        return a, res

    async with Context():
        assert await func("x") == ("x", None)
        async with Context():
            assert await func("x") == ("x", None)

        add_resource_factory(lambda: 99, types=[int])
        async with Context():
            expected = await get_resource(int)
            assert await func("q") == ("q", expected) == ("q", 99)


@pytest.mark.parametrize(
    "annotation",
    [
        pytest.param(int, id="plain"),
        pytest.param("int", id="string"),
    ],
)
async def test_non_optional_missing_raises_before_body(annotation: Any) -> None:
    ran: list[str] = []

    @inject
    def sync_func(res: annotation = resource("n")) -> Any:
        ran.append("sync")
        return res

    @inject
    async def async_func(res: annotation = resource("n")) -> Any:
        ran.append("async")
        return res

    async with Context():
        add_resource(5)  # wrong name
        with pytest.raises(ResourceNotFound) as exc1:
            sync_func()

        with pytest.raises(ResourceNotFound) as exc2:
            await async_func()

        assert exc1.value.type is int and exc1.value.name == "n"
        assert exc2.value.type is int and exc2.value.name == "n"
        assert ran == []
        add_resource(6, "n")
        assert sync_func() == 6
        assert await async_func() == 6
        assert ran == ["sync", "async"]


async def test_string_forward_reference_to_module_class() -> None:
    @inject
    async def afunc(
        x: "Late" = resource(), y: "Optional[Late]" = resource("other")
    ) -> Any:
        return x, y

    @inject
    def sfunc(*, x: "Late | None" = resource(), y: "Late" = resource("other")) -> Any:
        return x, y

    first, second = Late("first"), Late("second")
    async with Context():
        with pytest.raises(ResourceNotFound):
            await afunc()

        with pytest.raises(ResourceNotFound):
            sfunc()

        add_resource(first)
        assert await afunc() == (first, None)
        with pytest.raises(ResourceNotFound):
            sfunc()

        add_resource(second, "other")
        assert await afunc() == (first, second)
        assert sfunc() == (first, second)


async def test_forward_reference_to_enclosing_function_local() -> None:
    class Local:
        pass

    @inject
    def func(x: "Local" = resource(), y: "Optional[Local]" = resource("b")) -> Any:
        return x, y

    obj = Local()
    async with Context():
        add_resource(obj)
        assert func() == (obj, None)
        assert func() == (obj, None)


async def test_generic_alias_is_not_treated_as_union() -> None:
    # typing generics have an origin that is not a union; the annotation itself
    # is used as the resource type
    @inject
    def func(x: List[int] = resource(), y: Optional[Dict[str, int]] = resource()) -> Any:
        return x, y

    value = [1, 2]
    async with Context():
        with pytest.raises(ResourceNotFound) as exc:
            func()

        assert exc.value.type == List[int]
        add_resource(value, types=[List[int]])
        assert func() == (value, None)
        mapping = {"a": 1}
        add_resource(mapping, types=[Dict[str, int]])
        assert func() == (value, mapping)
        assert func()[0] is get_resource_nowait(List[int])  # type: ignore[arg-type]


@pytest.mark.parametrize(
    "annotation",
    [
        pytest.param(Union[int, str], id="Union-two-types"),
        pytest.param(Optional[Union[int, str]], id="Optional-Union"),
        pytest.param(int | str, id="pep604-two-types"),
        pytest.param(int | str | None, id="pep604-three"),
        pytest.param("int | str | None", id="str-pep604-three"),
    ],
)
async def test_invalid_union_raises_on_every_call(annotation: Any) -> None:
    ran: list[int] = []

    @inject
    def sync_func(first: str = resource(), res: annotation = resource()) -> None:
        ran.append(1)

    @inject
    async def async_func(first: str = resource(), res: annotation = resource()) -> None:
        ran.append(2)

    async with Context():
        add_resource(1)
        add_resource("s")
        for _ in range(2):
            with pytest.raises(TypeError, match="Unions are only valid") as exc:
                sync_func()

            assert str(exc.value) == (
                "Unions are only valid with dependency injection when there are "
                "exactly two items and other item is None"
            )
            with pytest.raises(TypeError, match="Unions are only valid"):
                await async_func()

    assert ran == []


async def test_unresolvable_forward_reference_is_retried() -> None:
    @inject
    def func(x: "DefinedLater" = resource()) -> Any:  # type: ignore[name-defined]  # noqa: F821
        return x

    async with Context():
        add_resource(13)
        with pytest.raises(NameError):
            func()

        try:
            globals()["DefinedLater"] = int
            assert func() == 13
        finally:
            del globals()["DefinedLater"]

        # resolved already; no longer needs the name
        assert func() == 13


async def test_mixed_signature_matches_explicit_lookups() -> None:
    @inject
    async def func(
        a: int,
        b: str = "b",
        r1: str = resource(),
        *args: Any,
        k: float = 1.5,
        r2: Optional[bytes] = resource("raw"),
        r3: "int | None" = resource("count"),
        **kwargs: Any,
    ) -> Any:
        return a, b, r1, args, k, r2, r3, kwargs

    async with Context():
        add_resource("text")
        add_resource(b"bytes", "raw")
        async with Context():
            result = await func(1, k=2.5, extra=True)
            assert result == (
                1,
                "b",
                await get_resource(str),
                (),
                2.5,
                await get_resource(bytes, "raw", optional=True),
                await get_resource(int, "count", optional=True),
                {"extra": True},
            )
            assert result[2] == "text" and result[5] == b"bytes" and result[6] is None


def test_python_version_assumption() -> None:
    assert sys.version_info >= (3, 10)
