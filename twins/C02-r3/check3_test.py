"""
Behaviour check for refactoring 3 (lookup paths: guard clause in
get_resource_nowait(), plain assignment in get_resource(), loop in get_resources()).

Exercises property C02 through the public API with the focus on all lookup paths
agreeing on the visible set, including the "not found" and "optional" outcomes.
"""

from __future__ import annotations

from typing import Any, Optional

import pytest

from asphalt.core import (
    AsyncResourceError,
    Context,
    ResourceNotFound,
    get_resource,
    get_resource_nowait,
    get_resources,
    inject,
    resource,
)

pytestmark = pytest.mark.anyio()


class Animal:
    def __init__(self, label: str) -> None:
        self.label = label

    def __repr__(self) -> str:
        return f"{type(self).__name__}({self.label!r})"


class Dog(Animal):
    pass


async def assert_all_paths_agree(
    ctx: Context, type_: type, expected: dict[str, Any], absent: list[str]
) -> None:
    """``expected`` are static resources only, so get_resources() must match it."""
    assert dict(ctx.get_resources(type_)) == expected
    assert list(ctx.get_resources(type_)) == list(expected)
    for name, value in expected.items():
        assert ctx.get_resource_nowait(type_, name) is value
        assert ctx.get_resource_nowait(type_, name, optional=True) is value
        assert await ctx.get_resource(type_, name) is value
        assert await ctx.get_resource(type_, name, optional=True) is value

    for name in absent:
        assert ctx.get_resource_nowait(type_, name, optional=True) is None
        assert await ctx.get_resource(type_, name, optional=True) is None
        with pytest.raises(ResourceNotFound) as exc1:
            ctx.get_resource_nowait(type_, name)

        with pytest.raises(ResourceNotFound) as exc2:
            await ctx.get_resource(type_, name, optional=False)

        assert exc1.value.type is type_ and exc1.value.name == name
        assert exc2.value.type is type_ and exc2.value.name == name
        assert str(exc1.value) == str(exc2.value)


async def test_lookup_paths_agree_over_a_tree() -> None:
    rex, fido, cat, late = Dog("rex"), Dog("fido"), Animal("cat"), Dog("late")
    async with Context() as root:
        await assert_all_paths_agree(root, Dog, {}, ["default", "rex"])
        root.add_resource(rex, "rex", types=[Animal, Dog])
        root.add_resource(cat, "cat")
        async with Context() as left:
            root.add_resource(late, "late")
            left.add_resource(fido)
            async with Context(root) as right:
                right.add_resource(fido, "fido", types=Animal)

                await assert_all_paths_agree(
                    root, Dog, {"rex": rex, "late": late}, ["default", "fido", "cat"]
                )
                await assert_all_paths_agree(
                    root, Animal, {"rex": rex, "cat": cat}, ["default", "fido", "late"]
                )
                await assert_all_paths_agree(
                    left, Dog, {"rex": rex, "default": fido}, ["late", "fido", "cat"]
                )
                await assert_all_paths_agree(
                    left, Animal, {"rex": rex, "cat": cat}, ["default", "fido", "late"]
                )
                await assert_all_paths_agree(
                    right, Dog, {"rex": rex, "late": late}, ["default", "fido", "cat"]
                )
                await assert_all_paths_agree(
                    right,
                    Animal,
                    {"rex": rex, "cat": cat, "fido": fido},
                    ["default", "late"],
                )
                # a type nothing was registered under, even though values are
                # instances of it
                await assert_all_paths_agree(right, object, {}, ["rex", "default"])

                # module level shortcuts use the current (innermost) context
                assert get_resources(Animal) == {"rex": rex, "cat": cat, "fido": fido}
                assert get_resource_nowait(Animal, "fido") is fido
                assert await get_resource(Dog, "fido", optional=True) is None

            assert get_resources(Dog) == {"rex": rex, "default": fido}
            assert get_resource_nowait(Dog) is fido
            assert await get_resource(Dog, "late", optional=True) is None


async def test_factory_backed_lookups_and_fallthrough() -> None:
    counter = 0

    def make_dog() -> Dog:
        nonlocal counter
        counter += 1
        return Dog(f"gen{counter}")

    async def make_animal() -> Animal:
        return Animal("async")

    async with Context() as root:
        root.add_resource_factory(make_dog, "d")
        root.add_resource_factory(make_animal, "a")
        async with Context() as child:
            # factories are keyed on the exact type and name
            assert child.get_resource_nowait(Animal, "d", optional=True) is None
            assert child.get_resource_nowait(Dog, "a", optional=True) is None
            with pytest.raises(ResourceNotFound):
                child.get_resource_nowait(Dog, "default")

            with pytest.raises(ResourceNotFound):
                await child.get_resource(Animal, "d")

            assert counter == 0
            assert child.get_resources(Dog) == {}

            # optional=True still triggers the factory
            dog = child.get_resource_nowait(Dog, "d", optional=True)
            assert dog is not None and dog.label == "gen1"
            assert await child.get_resource(Dog, "d") is dog
            assert child.get_resources(Dog) == {"d": dog}

            # async factory: error from the nowait path, even with optional=True
            with pytest.raises(AsyncResourceError):
                child.get_resource_nowait(Animal, "a", optional=True)

            assert child.get_resources(Animal) == {}
            animal = await child.get_resource(Animal, "a", optional=True)
            assert animal is not None and animal.label == "async"
            assert child.get_resource_nowait(Animal, "a") is animal
            assert child.get_resources(Animal) == {"a": animal}

            # a static resource takes precedence over an inherited factory
            async with Context() as grandchild:
                static = Dog("static")
                grandchild.add_resource(static, "d")
                assert grandchild.get_resource_nowait(Dog, "d") is static
                assert await grandchild.get_resource(Dog, "d") is static
                assert grandchild.get_resources(Dog) == {"d": static}
                assert counter == 1

        # nothing went up
        assert root.get_resources(Dog) == {}
        assert root.get_resources(Animal) == {}
        assert root.get_resource_nowait(Dog, "d").label == "gen2"


async def test_lookups_while_closing_and_after_close() -> None:
    seen: dict[str, Any] = {}

    async with Context() as root:
        root.add_resource("value", "v")
        child = Context()
        async with child:
            child.add_resource("child-value", "c")

            def teardown() -> None:
                # lookups still work while the context is being torn down
                seen["nowait"] = child.get_resource_nowait(str, "c")
                seen["inherited"] = child.get_resource_nowait(str, "v")
                seen["missing"] = child.get_resource_nowait(str, "x", optional=True)
                seen["all"] = dict(child.get_resources(str))
                try:
                    child.get_resource_nowait(str, "x")
                except ResourceNotFound as exc:
                    seen["exc"] = (exc.type, exc.name)

            child.add_teardown_callback(teardown)

        assert seen == {
            "nowait": "child-value",
            "inherited": "value",
            "missing": None,
            "all": {"v": "value", "c": "child-value"},
            "exc": (str, "x"),
        }
        with pytest.raises(RuntimeError, match="already been closed"):
            child.get_resource_nowait(str, "c")

        with pytest.raises(RuntimeError, match="already been closed"):
            await child.get_resource(str, "c", optional=True)

        # get_resources() does not check the state
        assert child.get_resources(str) == {"v": "value", "c": "child-value"}
        assert root.get_resources(str) == {"v": "value"}

    not_entered = Context()
    assert not_entered.get_resources(str) == {}
    with pytest.raises(RuntimeError, match="has not been entered yet"):
        not_entered.get_resource_nowait(str, "v", optional=True)


async def test_injection_follows_the_same_rules() -> None:
    @inject
    def sync_func(
        dog: Dog = resource(), other: Optional[Dog] = resource("other")
    ) -> tuple[Dog, Optional[Dog]]:
        return dog, other

    @inject
    async def async_func(
        dog: Dog = resource(), other: Optional[Dog] = resource("other")
    ) -> tuple[Dog, Optional[Dog]]:
        return dog, other

    rex, fido = Dog("rex"), Dog("fido")
    async with Context() as root:
        with pytest.raises(ResourceNotFound):
            sync_func()

        with pytest.raises(ResourceNotFound):
            await async_func()

        root.add_resource(rex)
        async with Context() as child:
            child.add_resource(fido, "other")
            assert sync_func() == (rex, fido)
            assert await async_func() == (rex, fido)
            async with Context(root):
                assert sync_func() == (rex, None)
                assert await async_func() == (rex, None)

        assert sync_func() == (rex, None)
        assert await async_func() == (rex, None)
