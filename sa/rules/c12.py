"""C12 - current_context() follows strict per-task stack discipline."""
from __future__ import annotations

import ast

from ..cfg import iter_own
from ..loader import AnalysisError, FuncInfo, dotted, walk_own
from .c01 import exit_stack_registrations, runner_of
from .c08 import TaskAnchors, runner_rules
from .common import Anchors, call_name, include_rules, names_in, self_attr


def context_var(ctx, an: Anchors) -> str:
    cc = ctx.p.public("current_context")
    if not isinstance(cc, FuncInfo):
        raise AnalysisError("anchor-missing current_context()")
    mod = cc.module
    for n in walk_own(cc.node):
        if isinstance(n, ast.Call) and call_name(n) == "get" and isinstance(n.func.value, ast.Name):
            name = n.func.value.id
            val = mod.assigns.get(name)
            if val is not None and "ContextVar" in ast.unparse(val):
                return name
    raise AnalysisError("anchor-missing module-level ContextVar read by current_context()")


def run(ctx) -> None:
    rep = ctx.rep
    a = ctx.a
    an = Anchors(a)
    var = context_var(ctx, an)
    cc = ctx.p.public("current_context")
    aenter, aexit = an.ctx_method("__aenter__"), an.ctx_method("__aexit__")
    ecfg = a.cfg(aenter)

    # ------------------------------------------------------------------ R1 state lives only in the ContextVar
    uses = {"get": [], "set": [], "reset": [], "other": []}
    for f in ctx.p.all_functions():
        for n in walk_own(f.node):
            if isinstance(n, ast.Attribute) and isinstance(n.value, ast.Name) and n.value.id == var:
                uses[n.attr if n.attr in uses else "other"].append((f, n))
            elif isinstance(n, ast.Name) and n.id == var and isinstance(n.ctx, ast.Store):
                uses["other"].append((f, n))
    for f, n in uses["set"] + uses["reset"]:
        rep.check("C12.R1", f is aenter or (f is aexit and n.attr == "reset"), f, n, f"{var}.{n.attr} used inside Context.__aenter__/__aexit__", f"`{var}.{n.attr}` is used in {f.qualname}: the current context is changed outside the enter/exit bracket")
    for f, n in uses["other"]:
        rep.violate("C12.R1", f, n, f"the context variable is used in an unexpected way (`{ast.unparse(n)}`)")
    rep.check("C12.R1", len(uses["set"]) == 1, aenter, uses["set"][0][1] if uses["set"] else aenter.node, "exactly one site sets the current context", f"{len(uses['set'])} sites set the current context")
    rep.floor("C12.R1", len(uses["set"]) + len(uses["reset"]), 2)
    ccalls = [n for n in walk_own(cc.node) if isinstance(n, ast.Call)]
    rep.check("C12.R1", all(call_name(c) in ("get",) or "NoCurrentContext" in ast.unparse(c) for c in ccalls), cc, cc.node, "current_context() only reads the variable", "current_context() does more than read the variable")
    raises = [n for n in walk_own(cc.node) if isinstance(n, ast.Raise)]
    # ... and returns exactly what it read: no walking up, no skipping, no substitution
    rets_cc = [r for r in walk_own(cc.node) if isinstance(r, ast.Return) and r.value is not None]
    got_vars = {t.id for n in walk_own(cc.node) if isinstance(n, ast.Assign) and isinstance(n.value, ast.Call) and call_name(n.value) == "get" for t in n.targets if isinstance(t, ast.Name)}
    got_vars |= {n.target.id for n in walk_own(cc.node) if isinstance(n, ast.NamedExpr) and isinstance(n.value, ast.Call) and call_name(n.value) == "get" and isinstance(n.target, ast.Name)}
    got_vars |= {n.target.id for n in walk_own(cc.node) if isinstance(n, ast.AnnAssign) and isinstance(n.value, ast.Call) and call_name(n.value) == "get" and isinstance(n.target, ast.Name)}
    redefs = [n for n in walk_own(cc.node) if isinstance(n, (ast.Assign, ast.AugAssign, ast.AnnAssign)) and not (isinstance(getattr(n, "value", None), ast.Call) and call_name(n.value) == "get") and any(isinstance(t, ast.Name) and t.id in got_vars for t in (n.targets if isinstance(n, ast.Assign) else [n.target]))]
    loops_cc = [n for n in walk_own(cc.node) if isinstance(n, (ast.While, ast.For))]
    direct = all((isinstance(r.value, ast.Name) and r.value.id in got_vars) or (isinstance(r.value, ast.Call) and call_name(r.value) == "get") or (isinstance(r.value, ast.Call) and call_name(r.value) == "cast" and len(r.value.args) == 2 and isinstance(r.value.args[1], ast.Name) and r.value.args[1].id in got_vars) for r in rets_cc)
    rep.check("C12.R1", bool(rets_cc) and direct and not redefs and not loops_cc, cc, (redefs or loops_cc or rets_cc or [cc.node])[0], "current_context() returns exactly the value it read from the variable", "current_context() post-processes what it read (walks to another context / skips some): a task no longer sees the context it inherited or entered, and what it sees depends on what OTHER tasks did to that context")
    # NoCurrentContext means "there is none": the raise depends on nothing but the value being None
    from .discharge import controlling_tests as _ct12

    cccfg = a.cfg(cc)
    deep = []
    for rn_ in cccfg.live_nodes():
        if rn_.kind == "stmt" and isinstance(rn_.ast, ast.Raise):
            for t_, _lab in _ct12(cccfg, rn_):
                if isinstance(t_.ast, ast.AST) and any(isinstance(x, ast.Attribute) and isinstance(x.value, ast.Name) and x.value.id in got_vars for x in ast.walk(t_.ast)):
                    deep.append(t_)
    rep.check("C12.R1", not deep, cc, deep[0].ast if deep else cc.node, "current_context() raises only when the variable holds no context", f"`{ast.unparse(deep[0].ast) if deep else ''}`: current_context() also refuses a context that IS current, depending on that context's own state - which other tasks change (a task that inherited the context stops seeing it when the spawner leaves the block)")
    rep.check("C12.R1", bool(raises) and "NoCurrentContext" in ast.unparse(raises[0]), cc, cc.node, "no current context -> NoCurrentContext", "current_context() does not raise NoCurrentContext when there is none")
    # no second cache of "the current context"
    globals_ = [k for k, v in an.Context.module.assigns.items() if k != var and ("ContextVar" in ast.unparse(v) or "local(" in ast.unparse(v))]
    rep.check("C12.R1", not globals_, cc, None, "no other task-local / global holds a current context", f"other context-like globals exist: {globals_}")

    # ------------------------------------------------------------------ R2 set / reset pairing
    set_sites = [n for n in ecfg.live_nodes() if ecfg.own_ast(n) is not None and any(isinstance(e, ast.Call) and call_name(e) == "set" and isinstance(e.func.value, ast.Name) and e.func.value.id == var for e in iter_own(ecfg.own_ast(n)))]
    if not set_sites:
        rep.violate("C12.R2", aenter, aenter.node, "entering a context never makes it the current context")
        return
    sn = set_sites[0]
    set_call = [e for e in iter_own(ecfg.own_ast(sn)) if isinstance(e, ast.Call) and call_name(e) == "set" and isinstance(e.func.value, ast.Name) and e.func.value.id == var][0]
    rep.check("C12.R2", len(set_call.args) == 1 and isinstance(set_call.args[0], ast.Name) and set_call.args[0].id == "self", aenter, set_call, "the entered context itself becomes current", f"`{ast.unparse(set_call)}` does not install the entered context")
    token = None
    if isinstance(sn.ast, ast.Assign):
        t = sn.ast.targets[0]
        token = t.id if isinstance(t, ast.Name) else ("self." + self_attr(t) if self_attr(t) else None)
    regs = exit_stack_registrations(ctx, aenter)
    reset_regs = [(n, c) for n, c, nm in regs if nm == "callback" and c.args and isinstance(c.args[0], ast.Attribute) and isinstance(c.args[0].value, ast.Name) and c.args[0].value.id == var]
    (runner, reg_node, reg_call, reg_kind), _ = runner_of(ctx, an)
    restore_in_exit = [(f, n) for f, n in uses["reset"] if f is aexit]
    if reset_regs:
        rn, rc = reset_regs[0]
        meth = rc.args[0].attr
        if meth != "reset":
            rep.violate("C12.R2", aenter, rc, f"on exit the variable is `{meth}` to `{ast.unparse(rc.args[1]) if len(rc.args) > 1 else ''}` instead of being reset with the token from entry: whatever was current BEFORE entry (which need not be the parent) is not restored")
        else:
            arg = rc.args[1] if len(rc.args) > 1 else None
            ok = arg is not None and token is not None and ast.unparse(arg) == token
            rep.check("C12.R2", ok, aenter, rc, "the reset registered on the exit stack uses exactly the token returned by set(self)", f"the registered reset uses `{ast.unparse(arg) if arg is not None else '?'}`, not the token of this entry")
        rep.check("C12.R2", ecfg.dominates(sn.id, rn.id), aenter, rc, "the restore is registered right after the set", "the restore is registered before the variable is set")
        btw = ecfg.between([sn.id], [rn.id])
        cps = [r for i in btw | {sn.id} for r in a.node_checkpoints(aenter, ecfg, ecfg.nodes[i])]
        rep.check("C12.R2", not cps, aenter, rc, "no checkpoint (hence no cancellation point) between set and registering the restore", "a checkpoint between set and the registration of its restore: a cancellation there leaves the variable set")
        # failure during entry unwinds the local exit stack
        withs = [w for w in walk_own(aenter.node) if isinstance(w, ast.AsyncWith) and any("ExitStack" in ast.unparse(i.context_expr) for i in w.items)]
        inside = bool(withs) and any(x is rc for x in ast.walk(withs[0])) and any(x is set_call for x in ast.walk(withs[0]))
        rep.check("C12.R2", inside, aenter, rc, "set and restore live inside `async with AsyncExitStack()`: a failing entry unwinds and restores", "a failing entry does not restore the variable")
        popall = [n for n in walk_own(aenter.node) if isinstance(n, ast.Call) and call_name(n) == "pop_all"]
        if withs and popall:
            last = withs[0].body[-1]
            rep.check("C12.R2", any(x is popall[0] for x in ast.walk(last)), aenter, popall[0], "pop_all() is the last statement of the block (nothing can fail after the callbacks were moved out)", "statements after pop_all() can fail without the callbacks being unwound")

        # ------------------------------------------------------------------ R3 restored after teardown, on every exit
        ok = rn.id not in ecfg.reach([reg_node.id], include_start=False) and reg_node.id in ecfg.reach([rn.id])
        rep.check("C12.R3", ok, aenter, rc, "the restore is registered before the teardown runner: LIFO runs it after teardown, so callbacks still see this context as current", "the restore is registered after the teardown runner: teardown callbacks run with the previous context current")
        tg = [(n, c) for n, c, nm in regs if "create_task_group" in ast.unparse(c)]
        if tg:
            rep.check("C12.R3", tg[0][0].id in ecfg.reach([rn.id]) and rn.id not in ecfg.reach([tg[0][0].id], include_start=False), aenter, tg[0][1], "the restore is registered before the root task group is entered (it runs after the group has been joined)", "the restore runs before the root task group is joined")
    elif restore_in_exit:
        f, n = restore_in_exit[0]
        call = [c for c in walk_own(aexit.node) if isinstance(c, ast.Call) and c.func is n]
        fin = [t for t in walk_own(aexit.node) if isinstance(t, ast.Try) and any(any(x is n for x in ast.walk(fb)) for fb in t.finalbody)]
        aw = [x for x in walk_own(aexit.node) if isinstance(x, ast.Await)]
        covers = bool(fin) and bool(aw) and any(x is aw[0] for b in fin[0].body for x in ast.walk(b))
        rep.check("C12.R3", covers, aexit, n, "the variable is reset in a `finally` around the teardown await", "the reset in __aexit__ is straight-line code after the teardown await: when teardown raises or is cancelled the closed context stays current in that task")
        if call:
            arg = call[0].args[0] if call[0].args else None
            rep.check("C12.R2", arg is not None and token is not None and ast.unparse(arg) == token, aexit, call[0], "the reset uses the token stored at entry", "the reset does not use the token of this entry")
    else:
        rep.violate("C12.R2", aenter, set_call, "the previous current context is never restored")
    include_rules(ctx, "c01", "C12.R3", only=("C01.R6", "C01.R9"))

    # ------------------------------------------------------------------ R4 parent at creation
    include_rules(ctx, "c02", "C12.R4", only=("C02.R5",))

    # ------------------------------------------------------------------ R5 explicit parent for task contexts
    ta = TaskAnchors(ctx, an)
    runner_rules(ctx, ta, "C12.R5", handler_rule="C12.R5h")
    rep.instances = [i for i in rep.instances if i.rule != "C12.R5h"]
    include_rules(ctx, "c09", "C12.R5", only=("C09.R1",))

    # ------------------------------------------------------------------ R6 component phases run under the component context
    starter = an.starter
    cp = starter.params[0]
    withs = [w for w in walk_own(starter.node) if isinstance(w, ast.AsyncWith) and any(isinstance(i.context_expr, ast.Name) and i.context_expr.id == cp for i in w.items)]
    if not withs:
        rep.violate("C12.R6", starter, starter.node, "the component context is never entered around prepare()/start(): components do not run under their own component context")
    else:
        w = withs[0]
        # the component's own prepare() / start() take no arguments (a task group's start() does)
        phase_calls = [c for c in walk_own(starter.node) if isinstance(c, ast.Call) and isinstance(c.func, ast.Attribute) and c.func.attr in ("prepare", "start") and not c.args and not c.keywords]
        awaits = [x for x in walk_own(starter.node) if isinstance(x, ast.Await)]
        inside_all = all(any(x is aw for x in ast.walk(w)) for aw in awaits)
        rep.check("C12.R6", inside_all and bool(phase_calls), starter, w, "prepare(), the children and start() all run inside `async with <component context>`", "a phase of the component runs outside its component context")
    cinit = an.ComponentContext.methods["__init__"]
    captured = [n for n in walk_own(cinit.node) if isinstance(n, ast.Assign) and isinstance(n.value, ast.Call) and call_name(n.value) == "current_context"]
    if not captured:
        # ... or it is looked up once by whoever builds the tree and handed down: follow the
        # constructor parameter through the call sites back to a current_context() call
        from .common import def_use_closure

        def actual_for(call: ast.Call, callee, pname: str, is_ctor: bool):
            params = [x.arg for x in callee.node.args.args] + [x.arg for x in callee.node.args.kwonlyargs]
            pos = params[1:] if (is_ctor or (callee.cls is not None and "staticmethod" not in callee.decorators)) else params
            for k in call.keywords:
                if k.arg == pname:
                    return k.value
            if pname in pos and pos.index(pname) < len(call.args) and pname in [x.arg for x in callee.node.args.args]:
                arg = call.args[pos.index(pname)]
                return None if isinstance(arg, ast.Starred) else arg
            return None

        def traces(func, expr, depth: int = 0, is_ctor: bool = False) -> bool:
            if depth > 4 or expr is None:
                return False
            clo = def_use_closure(func, expr)
            if "current_context" in clo:
                return True
            pnames = [x for x in func.params if x in clo]
            if not pnames:
                return False
            for pname in pnames:
                sites = []
                for g in ctx.p.all_functions():
                    for call, c in a.func_calls(g):
                        hit = (c.kind == "func" and c.func is func) or (func.name == "__init__" and c.kind == "class" and c.cls is func.cls)
                        if hit:
                            sites.append((g, call, c.kind == "class"))
                ok_sites = 0
                for g, call, ctor in sites:
                    arg = actual_for(call, func, pname, ctor)
                    if g is func and isinstance(arg, ast.Name) and arg.id == pname:
                        continue  # passed through unchanged by the recursion
                    if arg is None or not traces(g, arg, depth + 1):
                        return False
                    ok_sites += 1
                if not ok_sites:
                    return False
            return True

        handed = [n for n in walk_own(cinit.node) if isinstance(n, (ast.Assign, ast.AnnAssign)) and n.value is not None and any(self_attr(t) == an.wrapped_attr for t in (n.targets if isinstance(n, ast.Assign) else [n.target]))]
        captured = [n for n in handed if traces(cinit, n.value)]
    rep.check("C12.R6", bool(captured), cinit, captured[0] if captured else cinit.node, "the context wrapped by a component context is the one current when the tree was built (start_component's caller)", "the wrapped context is not captured from current_context() at construction")
    sup = [c for c in walk_own(cinit.node) if isinstance(c, ast.Call) and isinstance(c.func, ast.Attribute) and c.func.attr == "__init__" and "super" in ast.unparse(c.func.value)]
    rep.check("C12.R6", bool(sup) and not sup[0].args and not sup[0].keywords, cinit, sup[0] if sup else cinit.node, "the component context's own parent is chosen like any context's (current at creation)", "the component context passes an explicit parent")
    rep.assume("contextvars: a ContextVar is task-local and a new task starts with a copy of its spawner's context (asyncio and trio); this is what makes concurrent tasks non-interfering given R1")
