"""
Property C10 checks (events reach exactly the active subscribers, exactly once, in
dispatch order) - written to pass on the unchanged source and with refactor3 applied.

Emphasis of this file: ``wait_event`` / ``Signal.wait_event`` - first matching event
after the call began, behaviour of the default queue (50) under bursts, concurrent
waiters, cancelled waiters - next to streams on the same signals.
"""

from __future__ import annotations

import math
import random
import time
import warnings
from collections import deque
from typing import Any, Callable

import anyio
import pytest
from anyio import create_task_group, fail_after, move_on_after, sleep
from anyio.abc import TaskStatus
from anyio.lowlevel import checkpoint

from asphalt.core import Event, Signal, SignalQueueFull, stream_events, wait_event
from asphalt.core._exceptions import UnboundSignal

pytestmark = pytest.mark.anyio()


@pytest.fixture(params=["asyncio", "trio"])
def anyio_backend(request: pytest.FixtureRequest) -> str:
    return request.param


class NumEvent(Event):
    def __init__(self, num: int):
        self.num = num


class Source:
    alpha = Signal(NumEvent)
    beta = Signal(NumEvent)

    def __init__(self, name: str):
        self.name = name


FILTERS: dict[str, Callable[[NumEvent], bool] | None] = {
    "all": None,
    "even": lambda e: e.num % 2 == 0,
    "mod3": lambda e: e.num % 3 == 0,
    "none": lambda e: False,
}


class ModelSubscriber:
    def __init__(self, signals: list[Any], filter_name: str, cap: float):
        self.signals = signals
        self.filter = FILTERS[filter_name]
        self.cap = cap
        self.queue: deque[NumEvent] = deque()
        self.cm: Any = None
        self.stream: Any = None

    def passes(self, event: NumEvent) -> bool:
        return self.filter is None or bool(self.filter(event))

    def has_match(self) -> bool:
        return any(self.passes(e) for e in self.queue)

    def pop_match(self) -> NumEvent:
        while True:
            event = self.queue.popleft()
            if self.passes(event):
                return event


async def assert_nothing_more(sub: ModelSubscriber) -> None:
    """The stream must not hold any further matching event."""
    while sub.has_match():
        with fail_after(2):
            got = await sub.stream.__anext__()
        assert got is sub.pop_match()

    with move_on_after(0.01) as scope:
        extra = await sub.stream.__anext__()
        pytest.fail(f"unexpected extra event {extra!r}")

    assert scope.cancelled_caught
    sub.queue.clear()


@pytest.mark.parametrize("seed", range(12))
async def test_random_histories_against_model(seed: int) -> None:
    rng = random.Random(seed)
    sources = [Source("s1"), Source("s2")]
    signals = [(src, name) for src in sources for name in ("alpha", "beta")]
    subscribers: list[ModelSubscriber] = []
    counter = 0

    for _step in range(120):
        op = rng.choice(["sub", "dispatch", "dispatch", "dispatch", "consume", "unsub"])
        if op == "sub" and len(subscribers) < 5:
            chosen = rng.sample(signals, rng.randint(1, len(signals)))
            sub = ModelSubscriber(
                chosen,
                rng.choice(list(FILTERS)),
                rng.choice([1, 2, 3, 5, math.inf]),
            )
            bound = [getattr(src, name) for src, name in chosen]
            if len(bound) == 1 and rng.random() < 0.5:
                sub.cm = bound[0].stream_events(sub.filter, max_queue_size=sub.cap)
            else:
                sub.cm = stream_events(bound, sub.filter, max_queue_size=sub.cap)

            sub.stream = await sub.cm.__aenter__()
            subscribers.append(sub)
        elif op == "dispatch":
            src, name = rng.choice(signals)
            counter += 1
            event = NumEvent(counter)
            expected_overflows = 0
            for sub in subscribers:
                if (src, name) in sub.signals:
                    if len(sub.queue) < sub.cap:
                        sub.queue.append(event)
                    else:
                        expected_overflows += 1

            before = time.time()
            with warnings.catch_warnings(record=True) as caught:
                warnings.simplefilter("always")
                getattr(src, name).dispatch(event)

            after = time.time()
            assert [w.category for w in caught] == [SignalQueueFull] * expected_overflows
            assert event.source is src
            assert event.topic == name
            assert isinstance(event.time, float)
            assert before <= event.time <= after
        elif op == "consume":
            ready = [sub for sub in subscribers if sub.has_match()]
            if ready:
                sub = rng.choice(ready)
                with fail_after(2):
                    got = await sub.stream.__anext__()

                assert got is sub.pop_match()
        elif op == "unsub" and subscribers:
            sub = subscribers.pop(rng.randrange(len(subscribers)))
            if rng.random() < 0.5:
                await assert_nothing_more(sub)

            await sub.cm.__aexit__(None, None, None)

    for sub in subscribers:
        await assert_nothing_more(sub)
        await sub.cm.__aexit__(None, None, None)

    # Nobody is subscribed any more: dispatching is silent and harmless
    with warnings.catch_warnings(record=True) as caught:
        warnings.simplefilter("always")
        for src, name in signals:
            getattr(src, name).dispatch(NumEvent(-1))

    assert not caught



async def start_waiter(
    tg: Any, results: list[Any], signals: Any, flt: Any = None, method: bool = False
) -> None:
    async def waiter(task_status: TaskStatus[None]) -> None:
        task_status.started()
        if method:
            results.append(await signals.wait_event(flt))
        elif flt is None:
            results.append(await wait_event(signals))
        else:
            results.append(await wait_event(signals, flt))

    await tg.start(waiter)
    await sleep(0.02)  # let the waiter begin listening


@pytest.mark.parametrize("method", [False, True], ids=["function", "method"])
async def test_first_matching_event_after_the_call(method: bool) -> None:
    src = Source("s")
    results: list[NumEvent] = []
    src.alpha.dispatch(NumEvent(100))  # dispatched before the call
    async with src.alpha.stream_events() as witness:
        async with create_task_group() as tg:
            await start_waiter(
                tg,
                results,
                src.alpha if method else [src.alpha],
                lambda e: e.num >= 10,
                method,
            )
            before = time.time()
            for num in (1, 2, 10, 11, 12):
                src.alpha.dispatch(NumEvent(num))

            after = time.time()

        assert [e.num for e in results] == [10]
        assert results[0].source is src and results[0].topic == "alpha"
        assert before <= results[0].time <= after
        # A stream on the same signal is unaffected by the waiter coming and going
        src.alpha.dispatch(NumEvent(13))
        with fail_after(2):
            seen = [(await witness.__anext__()).num for _ in range(6)]

        assert seen == [1, 2, 10, 11, 12, 13]

    # The waiter is gone: further dispatches are silent
    with warnings.catch_warnings():
        warnings.simplefilter("error")
        for i in range(120):
            src.alpha.dispatch(NumEvent(i))


async def test_no_filter_returns_the_very_next_event() -> None:
    s1, s2 = Source("s1"), Source("s2")
    results: list[NumEvent] = []
    async with create_task_group() as tg:
        await start_waiter(tg, results, [s1.alpha, s2.beta])
        s1.beta.dispatch(NumEvent(1))  # other signal of the same instance
        s2.alpha.dispatch(NumEvent(2))  # same signal of another instance
        s2.beta.dispatch(NumEvent(3))
        s1.alpha.dispatch(NumEvent(4))

    assert [(e.num, e.source, e.topic) for e in results] == [(3, s2, "beta")]


async def test_default_queue_holds_fifty_events() -> None:
    """
    50 rejected events followed by the awaited one fit: the first is handed directly
    to the waiting task, the rest fill the default queue of 50.
    """
    src = Source("s")
    results: list[NumEvent] = []
    with warnings.catch_warnings():
        warnings.simplefilter("error")
        async with create_task_group() as tg:
            await start_waiter(tg, results, [src.alpha], lambda e: e.num < 0)
            for i in range(50):
                src.alpha.dispatch(NumEvent(i))

            src.alpha.dispatch(NumEvent(-1))

    assert [e.num for e in results] == [-1]


async def test_default_queue_overflow_loses_only_the_overflowing_events() -> None:
    """
    A burst of more than 51 events without a checkpoint overflows the waiter's queue:
    each lost delivery is warned about, a stream with a larger queue still gets
    everything, and the waiter returns the first matching event that did reach it.
    """
    src = Source("s")
    results: list[NumEvent] = []
    async with src.alpha.stream_events(max_queue_size=1000) as witness:
        async with create_task_group() as tg:
            await start_waiter(tg, results, [src.alpha], lambda e: e.num < 0)
            with warnings.catch_warnings(record=True) as caught:
                warnings.simplefilter("always")
                for i in range(51):  # one handed over directly, fifty queued
                    src.alpha.dispatch(NumEvent(i))

                src.alpha.dispatch(NumEvent(-1))  # overflows the waiter's queue
                src.alpha.dispatch(NumEvent(-2))  # this one too

            assert [w.category for w in caught] == [SignalQueueFull] * 2
            await sleep(0.02)  # the waiter discards the 51 rejected events
            assert results == []
            src.alpha.dispatch(NumEvent(-3))

        assert [e.num for e in results] == [-3]
        with fail_after(2):
            seen = [(await witness.__anext__()).num for _ in range(54)]

        assert seen == list(range(51)) + [-1, -2, -3]


async def test_concurrent_waiters_with_different_filters() -> None:
    src = Source("s")
    results: dict[str, NumEvent] = {}

    async def waiter(key: str, flt: Any, task_status: TaskStatus[None]) -> None:
        task_status.started()
        results[key] = await wait_event([src.alpha, src.beta], flt)

    async with create_task_group() as tg:
        await tg.start(waiter, "any", None)
        await tg.start(waiter, "even", lambda e: e.num % 2 == 0)
        await tg.start(waiter, "big", lambda e: e.num > 6)
        await tg.start(waiter, "beta", lambda e: e.topic == "beta")
        await sleep(0.02)
        for num in (1, 3, 4, 5):
            src.alpha.dispatch(NumEvent(num))
            await checkpoint()

        src.beta.dispatch(NumEvent(7))
        src.beta.dispatch(NumEvent(8))

    assert {key: e.num for key, e in results.items()} == {
        "any": 1,
        "even": 4,
        "big": 7,
        "beta": 7,
    }


async def test_cancelled_waiter_leaves_nothing_behind() -> None:
    src = Source("s")
    results: list[NumEvent] = []
    async with create_task_group() as tg:
        await start_waiter(tg, results, [src.alpha, src.beta], lambda e: False)
        src.alpha.dispatch(NumEvent(1))
        await sleep(0.01)
        tg.cancel_scope.cancel()

    assert results == []
    with warnings.catch_warnings():
        warnings.simplefilter("error")
        for i in range(120):
            src.alpha.dispatch(NumEvent(i))
            src.beta.dispatch(NumEvent(i))


async def test_timed_out_waiter_and_sequential_waits() -> None:
    src = Source("s")
    with move_on_after(0.02) as scope:
        await src.alpha.wait_event()

    assert scope.cancelled_caught

    async def dispatcher() -> None:
        for i in range(5):
            await sleep(0.005)
            src.alpha.dispatch(NumEvent(i))

    got = []
    async with create_task_group() as tg:
        tg.start_soon(dispatcher)
        with fail_after(2):
            got.append((await src.alpha.wait_event()).num)
            got.append((await src.alpha.wait_event(lambda e: e.num >= 3)).num)

    assert got[0] == 0 and got[1] == 3


async def test_unbound_signal_is_rejected() -> None:
    with pytest.raises(UnboundSignal):
        await Source.alpha.wait_event()

    with pytest.raises(UnboundSignal):
        await wait_event([Source("s").alpha, Source.beta])
