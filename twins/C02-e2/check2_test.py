"""
Property C02 checks (resources are scoped to the context tree: snapshot down, nothing
up or sideways), with emphasis on add_resource() / add_resource_factory(): valid but
unusual names, several types per registration, and rejected registrations that must
leave no trace anywhere in the tree (the area touched by evolution 2).

Passes on the unchanged source and with refactor2.diff applied.
"""

import random
from contextlib import AsyncExitStack
from typing import Any, Optional

import pytest
from anyio import Event, create_task_group
from anyio.lowlevel import checkpoint

from asphalt.core import (
    Context,
    ResourceConflict,
    ResourceNotFound,
    current_context,
    get_resource,
    get_resource_nowait,
    get_resources,
    inject,
    resource,
)

pytestmark = pytest.mark.anyio()


class TA:
    pass


class TB:
    pass


class TC:
    pass


TYPES = [TA, TB, TC, int, str]
STATIC_NAMES = ["default", "_", "s\u00e9_2", "7"]
FACTORY_NAMES = ["f1", "\u0444_2", "__F3__"]
MISSING = object()


class Value:
    def __init__(self, label: str) -> None:
        self.label = label

    def __repr__(self) -> str:
        return f"Value({self.label})"


_injected_sync: dict = {}
_injected_async: dict = {}


def injected_sync(tp: type, name: str) -> Any:
    try:
        return _injected_sync[tp, name]
    except KeyError:

        @inject
        def func(*, res: Optional[tp] = resource(name)) -> Any:  # type: ignore[valid-type]
            return res

        _injected_sync[tp, name] = func
        return func


def injected_async(tp: type, name: str) -> Any:
    try:
        return _injected_async[tp, name]
    except KeyError:

        @inject
        async def func(*, res: Optional[tp] = resource(name)) -> Any:  # type: ignore[valid-type]
            return res

        _injected_async[tp, name] = func
        return func


class Model:
    """Reference model of what a context is supposed to see."""

    counter = 0

    def __init__(self, parent: Optional["Model"] = None) -> None:
        self.parent = parent
        self.static: dict = dict(parent.static) if parent else {}
        self.factories: dict = dict(parent.factories) if parent else {}
        self.generated: dict = {}
        self.ctx: Context = None  # type: ignore[assignment]

    def visible(self, key: tuple) -> Any:
        if key in self.static:
            return self.static[key]

        return self.generated.get(key, MISSING)

    def expected_of_type(self, tp: type) -> dict:
        result = {}
        for source in (self.static, self.generated):
            for (type_, name), value in source.items():
                if type_ is tp:
                    result[name] = value

        return result


async def check_lookup(model: Model, tp: type, name: str, how: int) -> None:
    """Look a resource up through one of the lookup paths; compare with the model."""
    ctx = model.ctx
    key = (tp, name)
    expected = model.visible(key)
    will_generate = expected is MISSING and key in model.factories
    is_current = current_context() is ctx
    if how >= 3 and not is_current:
        how %= 3

    if how == 0:
        actual = ctx.get_resource_nowait(tp, name, optional=True)
    elif how == 1:
        actual = await ctx.get_resource(tp, name, optional=True)
    elif how == 2:
        try:
            actual = ctx.get_resource_nowait(tp, name)
        except ResourceNotFound:
            actual = None
    elif how == 3:
        actual = injected_sync(tp, name)()
    elif how == 4:
        actual = await injected_async(tp, name)()
    elif how == 5:
        actual = get_resource_nowait(tp, name, optional=True)
    else:
        actual = await get_resource(tp, name, optional=True)

    if will_generate:
        factory_id, types, _ = model.factories[key]
        assert isinstance(actual, Value)
        assert actual.label.startswith(f"gen:{factory_id}:")
        for type_ in types:
            model.generated.setdefault((type_, name), actual)
    elif expected is MISSING:
        assert actual is None
    else:
        assert actual is expected


def check_all_visible(model: Model) -> None:
    """Compare get_resources() and non-generating lookups against the model."""
    ctx = model.ctx
    for tp in TYPES:
        assert dict(ctx.get_resources(tp)) == model.expected_of_type(tp)
        if current_context() is ctx:
            assert dict(get_resources(tp)) == model.expected_of_type(tp)

        for name in STATIC_NAMES:
            expected = model.visible((tp, name))
            actual = ctx.get_resource_nowait(tp, name, optional=True)
            if expected is MISSING:
                assert actual is None
            else:
                assert actual is expected

        for name in FACTORY_NAMES:
            # Only look at keys where no new resource would be generated
            key = (tp, name)
            if key in model.generated:
                assert ctx.get_resource_nowait(tp, name) is model.generated[key]
            elif key not in model.factories:
                assert ctx.get_resource_nowait(tp, name, optional=True) is None


def do_add_static(model: Model, rng: random.Random) -> None:
    types = tuple(rng.sample(TYPES, rng.choice([1, 1, 2, 3])))
    name = rng.choice(STATIC_NAMES)
    Model.counter += 1
    value = Value(f"static:{Model.counter}")
    conflict = any((tp, name) in model.static for tp in types)
    if conflict:
        with pytest.raises(ResourceConflict):
            model.ctx.add_resource(value, name, types)
    else:
        model.ctx.add_resource(value, name, types if len(types) > 1 else types[0])
        for tp in types:
            model.static[tp, name] = value


def do_add_factory(model: Model, rng: random.Random) -> None:
    types = tuple(rng.sample(TYPES, rng.choice([1, 1, 2, 3])))
    name = rng.choice(FACTORY_NAMES)
    Model.counter += 1
    factory_id = Model.counter
    calls = [0]

    if rng.random() < 0.5:

        def factory() -> Any:
            calls[0] += 1
            return Value(f"gen:{factory_id}:{calls[0]}")

    else:

        async def factory() -> Any:  # type: ignore[misc]
            await checkpoint()
            calls[0] += 1
            return Value(f"gen:{factory_id}:{calls[0]}")

    is_async = factory.__code__.co_flags & 0x80
    conflict = any((tp, name) in model.factories for tp in types)
    if conflict:
        with pytest.raises(ResourceConflict):
            model.ctx.add_resource_factory(factory, name, types=types)
    else:
        model.ctx.add_resource_factory(factory, name, types=types)
        for tp in types:
            model.factories[tp, name] = (factory_id, types, bool(is_async))


async def run_random_ops(
    open_models: list, current: Model, rng: random.Random, count: int
) -> None:
    for _ in range(count):
        model = rng.choice(open_models) if rng.random() < 0.4 else current
        op = rng.random()
        if op < 0.25:
            do_add_static(model, rng)
        elif op < 0.4:
            do_add_factory(model, rng)
        elif op < 0.8:
            tp = rng.choice(TYPES)
            name = rng.choice(STATIC_NAMES + FACTORY_NAMES)
            how = rng.randrange(7)
            key = (tp, name)
            if (
                model.visible(key) is MISSING
                and key in model.factories
                and model.factories[key][2]
            ):
                # async factory: must go through an async lookup path
                how = rng.choice([1, 4, 6])
                if current_context() is not model.ctx:
                    how = 1

            await check_lookup(model, tp, name, how)
        else:
            for each in open_models:
                check_all_visible(each)


async def visit(
    parent: Optional[Model], open_models: list, rng: random.Random, depth: int
) -> None:
    model = Model(parent)
    if parent is None:
        ctx = Context()
    elif rng.random() < 0.5:
        ctx = Context()  # implicit parent: the current context
    else:
        ctx = Context(parent.ctx)

    async with ctx:
        assert ctx.parent is (parent.ctx if parent else None)
        model.ctx = ctx
        open_models.append(model)
        check_all_visible(model)
        await run_random_ops(open_models, model, rng, rng.randrange(3, 9))
        if depth < 3:
            for _ in range(rng.randrange(0, 3)):
                await visit(model, open_models, rng, depth + 1)
                await run_random_ops(open_models, model, rng, rng.randrange(1, 5))

        for each in open_models:
            check_all_visible(each)

        open_models.remove(model)

    # Leaving a context must not have changed what the others see
    for each in open_models:
        check_all_visible(each)


@pytest.mark.parametrize("seed", range(25))
async def test_random_histories_against_model(seed: int) -> None:
    rng = random.Random(2000 + seed)
    await visit(None, [], rng, 0)


class StrName(str):
    """A str subclass is a perfectly valid resource name."""


def snapshot(ctx: Context) -> dict:
    return {tp: dict(ctx.get_resources(tp)) for tp in [*TYPES, float, bytes, Value]}


async def test_rejected_registrations_leave_no_trace_in_the_tree() -> None:
    def factory() -> Value:
        return Value("gen:x:1")

    async with Context() as root:
        root.add_resource(1, "taken", [int, float])
        root.add_resource_factory(factory, "ftaken", types=[Value, TA])
        async with Context() as child:
            child.add_resource("c", "child_only")
            async with Context() as grandchild:
                before = [snapshot(ctx) for ctx in (root, child, grandchild)]
                for ctx in (root, child, grandchild):
                    # name conflicts under one of several types
                    with pytest.raises(ResourceConflict, match="already contains"):
                        ctx.add_resource(2.5, "taken", [bytes, float])

                    with pytest.raises(
                        ResourceConflict, match="already contains a resource factory"
                    ):
                        ctx.add_resource_factory(factory, "ftaken", types=[TB, TA])

                    # invalid names
                    for bad in ("", "a b", "a-b", "x.y", " x", "x\n"):
                        with pytest.raises(ValueError, match="nonempty string"):
                            ctx.add_resource(3, bad)

                        with pytest.raises(ValueError, match="nonempty string"):
                            ctx.add_resource_factory(factory, bad)

                    for bad in (None, 5, b"bytes", ("a",)):
                        with pytest.raises(TypeError):
                            ctx.add_resource(3, bad)  # type: ignore[arg-type]

                        with pytest.raises(TypeError):
                            ctx.add_resource_factory(factory, bad)  # type: ignore[arg-type]

                    # other invalid arguments
                    with pytest.raises(ValueError, match="must not be None"):
                        ctx.add_resource(None, "nothing", int)

                    with pytest.raises(TypeError, match="types must be a type"):
                        ctx.add_resource(3, "badtypes", [int, "str"])  # type: ignore[list-item]

                    with pytest.raises(TypeError, match="None is not a valid"):
                        ctx.add_resource_factory(factory, "fnone", types=[TB, None])  # type: ignore[list-item]

                    with pytest.raises(ValueError, match="no resource types specified"):
                        ctx.add_resource_factory(lambda: 1, "fnohint")

                after = [snapshot(ctx) for ctx in (root, child, grandchild)]
                assert after == before
                for ctx in (root, child, grandchild):
                    # none of the rejected keys resolve anywhere
                    for tp, name in [
                        (bytes, "taken"),
                        (TB, "ftaken"),
                        (int, "nothing"),
                        (int, "badtypes"),
                        (TB, "fnone"),
                        (int, "fnohint"),
                    ]:
                        assert ctx.get_resource_nowait(tp, name, optional=True) is None
                        assert await ctx.get_resource(tp, name, optional=True) is None
                        with pytest.raises(ResourceNotFound):
                            ctx.get_resource_nowait(tp, name)

                    # ...while the original registrations are intact in all of them
                    assert ctx.get_resource_nowait(int, "taken") == 1
                    assert ctx.get_resource_nowait(float, "taken") == 1
                    assert isinstance(ctx.get_resource_nowait(TA, "ftaken"), Value)

                # a partially conflicting multi-type add did not register the free type
                assert grandchild.get_resources(bytes) == {}


async def test_same_name_under_different_types_and_contexts() -> None:
    async with Context() as root:
        root.add_resource("root-str", "x")
        root.add_resource(10, "x")
        async with Context() as left:
            # the same (type, name) is taken through inheritance...
            with pytest.raises(ResourceConflict):
                left.add_resource(11, "x")

            # ...but other types and other names are free, and stay local
            left.add_resource(1.5, "x")
            left.add_resource(12, StrName("y"))
            left.add_resource_factory(lambda: Value("gen:l:1"), "x", types=[Value])
            async with Context(root) as right:
                assert current_context() is right
                assert right.parent is root
                right.add_resource(2.5, "x")
                right.add_resource(13, "y", [int, TA])
                right.add_resource_factory(lambda: Value("gen:r:1"), "x", types=[Value])

                assert left.get_resources(int) == {"x": 10, "y": 12}
                assert right.get_resources(int) == {"x": 10, "y": 13}
                assert root.get_resources(int) == {"x": 10}
                assert left.get_resources(float) == {"x": 1.5}
                assert right.get_resources(float) == {"x": 2.5}
                assert root.get_resources(float) == {}
                assert right.get_resources(TA) == {"y": 13}
                assert left.get_resources(TA) == root.get_resources(TA) == {}
                assert (await left.get_resource(Value, "x")).label == "gen:l:1"
                assert (await right.get_resource(Value, "x")).label == "gen:r:1"
                assert await root.get_resource(Value, "x", optional=True) is None
                assert injected_sync(int, "y")() == 13
                assert await injected_async(float, "x")() == 2.5
                assert injected_sync(str, "x")() == "root-str"

            assert injected_sync(int, "y")() == 12
            assert await injected_async(float, "x")() == 1.5

        assert injected_sync(int, "y")() is None
        assert await injected_async(float, "x")() is None
        assert root.get_resources(Value) == {}


async def test_factory_conflicts_follow_the_snapshot() -> None:
    async with Context() as root:
        early_child = Context()
        root.add_resource_factory(lambda: Value("gen:root:1"), "f", types=[Value, TA])
        late_child = Context()
        async with early_child:
            # created before the factory was added to the root: the key is free here
            early_child.add_resource_factory(lambda: Value("gen:early:1"), "f", types=[TA])
            assert early_child.get_resource_nowait(TA, "f").label == "gen:early:1"
            assert early_child.get_resource_nowait(Value, "f", optional=True) is None

        async with late_child:
            with pytest.raises(ResourceConflict):
                late_child.add_resource_factory(lambda: Value("no"), "f", types=[TB, TA])

            assert late_child.get_resource_nowait(TB, "f", optional=True) is None
            generated = late_child.get_resource_nowait(TA, "f")
            assert generated.label == "gen:root:1"
            assert late_child.get_resource_nowait(Value, "f") is generated
            # a static resource may be added next to an inherited factory of that key
            late_child.add_resource(Value("static"), "f2", [Value])
            assert set(late_child.get_resources(Value)) == {"f", "f2"}

        assert root.get_resources(Value) == {}
        assert root.get_resources(TA) == {}
