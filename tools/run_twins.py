#!/usr/bin/env python3
"""Run every property's rules on every kept twin (in memory); print non-holding verdicts."""
import glob, json, os, sys
from concurrent.futures import ProcessPoolExecutor
VERIF = os.path.dirname(os.path.dirname(os.path.abspath(__file__)))
sys.path.insert(0, VERIF)
from sa.driver import PROPS, analyse_variant, repo_root
from sa.loader import Project
from selftest.udiff import apply_unified

def job(args):
    tid, diff, prop, sources = args
    ov = apply_unified(sources, diff)
    if ov is None:
        return tid, prop, "n/a", []
    v, rep = analyse_variant(prop, ov, inherited_known=True)
    if v == "holds":
        return tid, prop, v, []
    detail = [rep] if isinstance(rep, str) else [f"{i.verdict} {i.rule} {i.site} {i.function}: {i.why[:170]}" for i in rep.instances if i.verdict not in ("HOLDS", "KNOWN")][:4]
    if not isinstance(rep, str):
        detail += [f"floor {r}: {f} < {m}" for r, f, m in rep.floors if f < m]
    return tid, prop, v, detail

def main():
    only = sys.argv[1:]
    project = Project(repo_root(), inline=False)
    sources = {m.relpath: m.src for m in project.modules.values()}
    jobs = []
    for d in sorted(glob.glob(os.path.join(VERIF, "twins", "*", "patch.diff"))):
        tid = os.path.basename(os.path.dirname(d))
        if only and not any(tid.startswith(o) for o in only):
            continue
        diff = open(d).read()
        for p in PROPS:
            jobs.append((tid, diff, p, sources))
    bad = {}
    with ProcessPoolExecutor(max_workers=16) as ex:
        for tid, prop, v, detail in ex.map(job, jobs, chunksize=4):
            if v not in ("holds",):
                bad.setdefault(tid, []).append((prop, v, detail))
    n_twins = len({j[0] for j in jobs})
    print(f"{n_twins} twins x {len(PROPS)} properties; twins with a non-holding verdict: {len(bad)}")
    for tid in sorted(bad):
        for prop, v, detail in bad[tid]:
            print(f"  {tid} {prop} {v}")
            for d in detail[:3]:
                print(f"      {d}")
    return 1 if bad else 0

if __name__ == "__main__":
    sys.exit(main())
