#!/usr/bin/env python3
"""Dev helper: run one property's rules on the package sources of a given /repo revision
(in memory, nothing is checked out).  usage: tools/run_on_rev.py <rev> <ID> [...]"""
import os
import subprocess
import sys

sys.path.insert(0, os.path.dirname(os.path.dirname(os.path.abspath(__file__))))
from sa.driver import analyse_variant, repo_root  # noqa: E402
from sa.loader import Project  # noqa: E402

rev = sys.argv[1]
root = repo_root()
files = subprocess.run(["git", "-C", root, "ls-tree", "--name-only", rev, Project.PKG_DIR + "/"], capture_output=True, text=True, check=True).stdout.split()
ov = {f: subprocess.run(["git", "-C", root, "show", f"{rev}:{f}"], capture_output=True, text=True, check=True).stdout for f in files if f.endswith(".py")}
for prop in sys.argv[2:]:
    verdict, rep = analyse_variant(prop.upper(), ov)
    print(prop, verdict)
    if isinstance(rep, str):
        print("   ", rep)
    else:
        for i in rep.instances:
            if i.verdict != "HOLDS":
                print("   ", i.verdict, i.rule, i.site, i.function, "::", i.why[:160])
