"""
Property C11 (every (instance, signal attribute) pair is an independent channel),
checked through the public API.  Must pass on the unchanged source and with
refactor2.diff applied (clearer TypeError for instances that cannot be bound, warning
when one Signal object is assigned to two attribute names).  Emphasis: the binding step
itself - first access in all orders, inheritance, overriding, __slots__ classes, custom
__hash__, many short lived instances - with warnings turned into errors, so the new
diagnostics must stay silent for every legitimate declaration.
"""

from __future__ import annotations

import gc
import itertools
import random
import warnings
import weakref
from collections.abc import Iterator
from contextlib import AsyncExitStack
from typing import Any

import pytest

from asphalt.core import Event, Signal, UnboundSignal, stream_events, wait_event

pytestmark = pytest.mark.anyio()


@pytest.fixture(autouse=True)
def warnings_are_errors() -> Iterator[None]:
    with warnings.catch_warnings():
        warnings.simplefilter("error")
        yield


class NumberEvent(Event):
    def __init__(self, number: int = 0) -> None:
        self.number = number


class TextEvent(Event):
    def __init__(self, text: str = "") -> None:
        self.text = text


def declare_classes() -> tuple[type, type, type]:
    """Declare a small hierarchy from scratch (so __set_name__ runs under the filter)."""

    class Root:
        opened = Signal(NumberEvent)
        closed = Signal(TextEvent)

    class Child(Root):
        renamed = Signal(TextEvent)
        # re-exporting the inherited declaration under the SAME name is legitimate
        opened = Root.opened

    class Override(Root):
        # a new declaration that shadows the inherited one
        closed = Signal(NumberEvent)

    return Root, Child, Override


@pytest.mark.parametrize(
    "order", list(itertools.permutations(["opened", "closed", "renamed"]))
)
def test_first_access_order_does_not_matter(order: tuple[str, ...]) -> None:
    Root, Child, Override = declare_classes()
    children = [Child() for _ in range(4)]
    seen: dict[tuple[int, str], Signal[Any]] = {}
    # interleave instances and attributes differently per order
    pairs = [(index, name) for name in order for index in range(len(children))]
    random.Random("-".join(order)).shuffle(pairs)
    for index, name in pairs:
        seen[index, name] = getattr(children[index], name)

    for index, name in reversed(pairs):
        assert getattr(children[index], name) is seen[index, name]

    assert len({id(signal) for signal in seen.values()}) == len(pairs)
    expected_class = {"opened": NumberEvent, "closed": TextEvent, "renamed": TextEvent}
    for (index, name), signal in seen.items():
        assert signal.event_class is expected_class[name]
        assert signal is not getattr(Child, name)


async def test_topic_and_source_follow_the_channel() -> None:
    Root, Child, Override = declare_classes()
    root, child, override = Root(), Child(), Override()
    async with AsyncExitStack() as stack:
        everything = await stack.enter_async_context(
            stream_events(
                [
                    root.opened,
                    root.closed,
                    child.opened,
                    child.closed,
                    child.renamed,
                    override.opened,
                    override.closed,
                ]
            )
        )
        only_child_opened = await stack.enter_async_context(
            child.opened.stream_events()
        )
        plan = [
            (root, "opened", NumberEvent(1)),
            (child, "renamed", TextEvent("r")),
            (override, "closed", NumberEvent(2)),
            (child, "opened", NumberEvent(3)),
            (root, "closed", TextEvent("c")),
            (override, "opened", NumberEvent(4)),
            (child, "closed", TextEvent("cc")),
            (child, "opened", NumberEvent(5)),
        ]
        for owner, name, event in plan:
            getattr(owner, name).dispatch(event)

        for owner, name, event in plan:
            received = await everything.__anext__()
            assert received is event
            assert received.source is owner
            assert received.topic == name

        assert (await only_child_opened.__anext__()).number == 3
        assert (await only_child_opened.__anext__()).number == 5

    # the overriding declaration has its own event class; the inherited one is intact
    with pytest.raises(TypeError):
        override.closed.dispatch(TextEvent("wrong"))
    with pytest.raises(TypeError):
        root.closed.dispatch(NumberEvent(0))
    assert Override.closed is not Root.closed
    assert Child.opened is Root.opened
    assert child.opened is not root.opened


async def test_no_cross_delivery_between_instances_or_attributes() -> None:
    Root, Child, Override = declare_classes()
    owners = [Child() for _ in range(3)]
    names = ["opened", "closed", "renamed"]
    make = {"opened": NumberEvent, "closed": TextEvent, "renamed": TextEvent}
    rng = random.Random(11)
    async with AsyncExitStack() as stack:
        streams = {
            (index, name): await stack.enter_async_context(
                getattr(owner, name).stream_events()
            )
            for index, owner in enumerate(owners)
            for name in names
        }
        expected: dict[tuple[int, str], list[Event]] = {key: [] for key in streams}
        for _ in range(40):
            key = (rng.randrange(3), rng.choice(names))
            event = make[key[1]]()
            getattr(owners[key[0]], key[1]).dispatch(event)
            expected[key].append(event)

        # terminate each stream with a marker so that we know it holds nothing else
        markers = {}
        for (index, name), stream in streams.items():
            markers[index, name] = make[name]()
            getattr(owners[index], name).dispatch(markers[index, name])

        for key, stream in streams.items():
            for event in expected[key]:
                assert await stream.__anext__() is event
            assert await stream.__anext__() is markers[key]


async def test_slots_and_custom_hash_owners() -> None:
    class Slotted:
        __slots__ = ("name", "__weakref__")
        ping = Signal(NumberEvent)
        pong = Signal(NumberEvent)

        def __init__(self, name: str) -> None:
            self.name = name

    class Hashed:
        tick = Signal(NumberEvent)

        def __init__(self, key: int) -> None:
            self.key = key

        def __hash__(self) -> int:
            return 7  # everything collides; equality is still identity

    a, b = Slotted("a"), Slotted("b")
    assert a.ping is a.ping and a.pong is a.pong
    assert len({id(a.ping), id(a.pong), id(b.ping), id(b.pong)}) == 4

    hashed = [Hashed(key) for key in range(5)]
    bound = [owner.tick for owner in hashed]
    assert len({id(signal) for signal in bound}) == 5
    assert all(owner.tick is signal for owner, signal in zip(hashed, bound))

    async with AsyncExitStack() as stack:
        a_ping = await stack.enter_async_context(a.ping.stream_events())
        b_ping = await stack.enter_async_context(b.ping.stream_events())
        tick_3 = await stack.enter_async_context(hashed[3].tick.stream_events())
        for owner in hashed:
            owner.tick.dispatch(NumberEvent(owner.key))
        b.pong.dispatch(NumberEvent(-1))
        a.pong.dispatch(NumberEvent(-2))
        b.ping.dispatch(NumberEvent(20))
        a.ping.dispatch(NumberEvent(10))
        hashed[3].tick.dispatch(NumberEvent(33))
        event = await a_ping.__anext__()
        assert (event.number, event.source) == (10, a)
        event = await b_ping.__anext__()
        assert (event.number, event.source) == (20, b)
        assert (await tick_3.__anext__()).number == 3
        assert (await tick_3.__anext__()).number == 33


async def test_unbound_use_and_wrong_class() -> None:
    Root, Child, Override = declare_classes()
    for declaration in (Root.opened, Child.opened, Child.renamed, Override.closed):
        with pytest.raises(UnboundSignal):
            declaration.dispatch(NumberEvent())
        with pytest.raises(UnboundSignal):
            await wait_event([declaration])
        with pytest.raises(UnboundSignal):
            async with declaration.stream_events():
                pytest.fail("should not get here")

    child = Child()
    async with child.opened.stream_events() as stream:
        for bad in (TextEvent("x"), Event(), object(), None):
            with pytest.raises(TypeError):
                child.opened.dispatch(bad)  # type: ignore[arg-type]

        good = NumberEvent(1)
        child.opened.dispatch(good)
        assert await stream.__anext__() is good


def test_short_lived_owners_are_collected_and_never_share() -> None:
    Root, Child, Override = declare_classes()
    kept_signals = []
    refs = []
    for round_ in range(50):
        owner = Child()
        kept_signals.append((owner.opened, owner.closed, owner.renamed))
        assert owner.opened is kept_signals[-1][0]
        refs.append(weakref.ref(owner))
        del owner
        if round_ % 10 == 9:
            gc.collect()

    gc.collect()
    assert all(ref() is None for ref in refs)
    flat = [signal for group in kept_signals for signal in group]
    assert len({id(signal) for signal in flat}) == len(flat)

    # a new owner (possibly at a recycled address) starts with fresh channels
    newcomer = Child()
    assert all(newcomer.opened is not signal for signal in flat)
    assert newcomer.opened is newcomer.opened
