"""
Behaviour check for refactoring 3 (service selection of ``asphalt run``).

Exercises all service layouts (none / one / several / with or without ``default`` /
implicit default from a top-level ``component``) against all combinations of
``--service`` and ``ASPHALT_SERVICE``, including the error paths.
"""

from __future__ import annotations

from pathlib import Path
from typing import Any
from unittest.mock import patch

import pytest
from click.testing import CliRunner

from asphalt.core import _cli

MULTI_MSG = (
    "Error: Multiple services present in configuration file but no default service "
    "has been defined and no service was explicitly selected with -s / --service\n"
)
NONE_MSG = "Error: No services have been defined\n"

LAYOUTS = {
    "none": "max_threads: 1\n",
    "empty": "max_threads: 1\nservices: {}\n",
    "component_only": "max_threads: 1\ncomponent: {type: 'proj:Top', top: 1}\n",
    "one": "max_threads: 1\nservices:\n  a: {component: {type: 'proj:A'}}\n",
    "one_default": (
        "max_threads: 1\nservices:\n  default: {component: {type: 'proj:Default'}}\n"
    ),
    "several": (
        "max_threads: 1\n"
        "services:\n"
        "  a: {max_threads: 11, component: {type: 'proj:A'}}\n"
        "  b: {component: {type: 'proj:B'}}\n"
    ),
    "several_default": (
        "max_threads: 1\n"
        "services:\n"
        "  a: {max_threads: 11, component: {type: 'proj:A'}}\n"
        "  default: {max_threads: 12, component: {type: 'proj:Default'}}\n"
        "  b: {component: {type: 'proj:B'}}\n"
    ),
    "component_and_services": (
        "max_threads: 1\n"
        "component: {type: 'proj:Top', top: 1}\n"
        "services:\n"
        "  a: {max_threads: 11, component: {type: 'proj:A'}}\n"
    ),
    "component_and_default": (
        "max_threads: 1\n"
        "component: {type: 'proj:Top', top: 1}\n"
        "services:\n"
        "  default: {component: {type: 'proj:Default'}}\n"
        "  a: {component: {type: 'proj:A'}}\n"
    ),
}

# expected outcome: component type that was started, or the error message
A, B, DEFAULT, TOP = "proj:A", "proj:B", "proj:Default", "proj:Top"


def missing(name: str) -> str:
    return f"Error: Service {name!r} has not been defined\n"


# (layout, --service, ASPHALT_SERVICE) -> expected
CASES: list[tuple[str, str | None, str | None, str]] = [
    # no services at all: always an error, whatever was asked for
    ("none", None, None, NONE_MSG),
    ("none", "a", None, NONE_MSG),
    ("none", None, "a", NONE_MSG),
    ("empty", None, None, NONE_MSG),
    ("empty", "default", "default", NONE_MSG),
    # a top-level component becomes the "default" service
    ("component_only", None, None, TOP),
    ("component_only", "default", None, TOP),
    ("component_only", None, "default", TOP),
    ("component_only", "a", None, missing("a")),
    ("component_only", None, "a", missing("a")),
    # exactly one service
    ("one", None, None, A),
    ("one", "a", None, A),
    ("one", None, "a", A),
    ("one", "default", None, missing("default")),
    ("one", None, "nope", missing("nope")),
    ("one", "a", "nope", A),
    ("one", "nope", "a", missing("nope")),
    ("one", "", "", A),
    ("one_default", None, None, DEFAULT),
    ("one_default", "a", None, missing("a")),
    # several services, no default
    ("several", None, None, MULTI_MSG),
    ("several", "", None, MULTI_MSG),
    ("several", None, "", MULTI_MSG),
    ("several", "a", None, A),
    ("several", "b", None, B),
    ("several", None, "b", B),
    ("several", "a", "b", A),
    ("several", "", "b", B),
    ("several", "default", None, missing("default")),
    ("several", None, "c", missing("c")),
    ("several", "c", "a", missing("c")),
    # several services with a default
    ("several_default", None, None, DEFAULT),
    ("several_default", "", "", DEFAULT),
    ("several_default", "b", None, B),
    ("several_default", None, "a", A),
    ("several_default", "default", "a", DEFAULT),
    ("several_default", "c", None, missing("c")),
    ("several_default", None, "c", missing("c")),
    # top-level component next to explicit services
    ("component_and_services", None, None, TOP),
    ("component_and_services", "a", None, A),
    ("component_and_services", None, "a", A),
    ("component_and_services", "default", "a", TOP),
    ("component_and_services", "b", None, missing("b")),
    ("component_and_default", None, None, DEFAULT),
    ("component_and_default", "default", None, DEFAULT),
    ("component_and_default", None, "a", A),
    ("component_and_default", "b", "a", missing("b")),
]


def invoke(
    tmp_path: Path, config: str, service: str | None, env_service: str | None
) -> tuple[Any, Any]:
    path = tmp_path / "config.yml"
    path.write_text(config)
    args = [str(path)]
    if service is not None:
        args = ["--service", service, *args]

    with patch("asphalt.core._cli.run_application") as run_app:
        result = CliRunner().invoke(
            _cli.run, args, env={"ASPHALT_SERVICE": env_service}
        )

    return result, run_app


@pytest.mark.parametrize("layout, service, env_service, expected", CASES)
def test_service_selection(
    tmp_path: Path,
    layout: str,
    service: str | None,
    env_service: str | None,
    expected: str,
) -> None:
    result, run_app = invoke(tmp_path, LAYOUTS[layout], service, env_service)
    if expected.startswith("Error:"):
        assert result.exit_code == 1
        assert result.output == expected
        assert run_app.call_count == 0
        return

    assert result.exit_code == 0, result.output
    assert result.output == ""
    assert run_app.call_count == 1
    args, kwargs = run_app.call_args
    assert args == (expected, {"top": 1} if expected == TOP else {})
    max_threads = 1
    if expected == A and layout != "one":
        max_threads = 11 if layout != "component_and_default" else 1
    elif expected == DEFAULT and layout == "several_default":
        max_threads = 12

    assert kwargs == {
        "max_threads": max_threads,
        "backend": "asyncio",
        "backend_options": {},
    }


@pytest.mark.parametrize(
    "config, message",
    [
        pytest.param(
            "services: blah\n",
            'Error: The "services" key must be a dict, not str\n',
            id="services_str",
        ),
        pytest.param(
            "services: null\n",
            'Error: The "services" key must be a dict, not NoneType\n',
            id="services_null",
        ),
        pytest.param(
            "component: {type: 'proj:Top'}\nservices: [a, b]\n",
            'Error: The "services" key must be a dict, not list\n',
            id="services_list",
        ),
        pytest.param(
            "services:\n  a: {max_threads: 3}\n",
            "Error: Service configuration is missing the 'component' key\n",
            id="no_component_in_service",
        ),
        pytest.param(
            "services:\n  a:\n",
            "Error: Service configuration is missing the 'component' key\n",
            id="null_service",
        ),
        pytest.param(
            "component: {type: 'proj:Top'}\nservices:\n  default: {max_threads: 3}\n",
            "Error: Service configuration is missing the 'component' key\n",
            id="top_level_component_discarded_when_default_exists",
        ),
        pytest.param(
            "services:\n  a: {component: {foo: 1}}\n",
            "Error: Root component configuration is missing the 'type' key\n",
            id="no_type",
        ),
    ],
)
def test_bad_layouts_start_nothing(tmp_path: Path, config: str, message: str) -> None:
    result, run_app = invoke(tmp_path, config, None, None)
    assert result.exit_code == 1
    assert result.output == message
    assert run_app.call_count == 0


def test_service_section_overrides_top_level_and_set(tmp_path: Path) -> None:
    config = """\
---
backend: trio
backend_options: {a: 1}
logging: {version: 1, root: {level: INFO}}
services:
  web:
    backend_options: {b: 2}
    logging: {root: {level: DEBUG}}
    component: {type: 'proj:Web', port: 80}
  worker:
    backend: asyncio
    component: {type: 'proj:Worker'}
"""
    path = tmp_path / "config.yml"
    path.write_text(config)
    with patch("asphalt.core._cli.run_application") as run_app:
        result = CliRunner().invoke(
            _cli.run,
            [str(path), "--set", "logging.root.level=ERROR", "--set", "extra=1.5"],
            env={"ASPHALT_SERVICE": "web"},
        )

    assert result.exit_code == 0, result.output
    args, kwargs = run_app.call_args
    assert args == ("proj:Web", {"port": 80})
    assert kwargs == {
        "backend": "trio",
        "backend_options": {"a": 1, "b": 2},
        "logging": {"version": 1, "root": {"level": "DEBUG"}},
        "extra": 1.5,
    }
    assert list(kwargs) == ["logging", "extra", "backend", "backend_options"]

    with patch("asphalt.core._cli.run_application") as run_app:
        result = CliRunner().invoke(
            _cli.run,
            [str(path), "--set", "logging.root.level=ERROR", "-s", "worker"],
            env={"ASPHALT_SERVICE": "web"},
        )

    assert result.exit_code == 0, result.output
    args, kwargs = run_app.call_args
    assert args == ("proj:Worker", {})
    assert kwargs == {
        "backend": "asyncio",
        "backend_options": {"a": 1},
        "logging": {"version": 1, "root": {"level": "ERROR"}},
    }
