"""
Property C08: service tasks are stopped at teardown before anything they may depend on.

These checks only use the public API and must pass both on the unchanged source and
with refactor3.diff (TaskHandle.finished / cancel_requested, finer-grained debug
logging in run_background_task and finalize_service_task) applied. Debug logging is
switched on so that the new logging code paths are actually executed.
"""

from __future__ import annotations

import logging
import random
import sys
from collections.abc import Callable
from typing import Any, NoReturn

import pytest
from anyio import (
    CancelScope,
    Event,
    fail_after,
    get_cancelled_exc_class,
    sleep,
    sleep_forever,
)
from pytest import LogCaptureFixture

from asphalt.core import (
    Context,
    add_resource,
    add_teardown_callback,
    get_resource_nowait,
    get_resources,
    start_background_task_factory,
    start_service_task,
)

if sys.version_info < (3, 11):
    from exceptiongroup import BaseExceptionGroup

pytestmark = pytest.mark.anyio()


@pytest.fixture(params=["asyncio", "trio"])
def anyio_backend(request: pytest.FixtureRequest) -> str:
    return request.param


@pytest.fixture(autouse=True)
def debug_logging(caplog: LogCaptureFixture) -> None:
    caplog.set_level(logging.DEBUG, "asphalt.core")


def flatten(exc: BaseException) -> list[BaseException]:
    if isinstance(exc, BaseExceptionGroup):
        return [leaf for sub in exc.exceptions for leaf in flatten(sub)]

    return [exc]


@pytest.mark.parametrize(
    "kind", ["cancel", "none", "sync", "async", "sync-raising", "async-raising"]
)
async def test_task_that_already_ended_by_itself(kind: str) -> None:
    """
    The teardown action is still carried out (exactly once) for a task that has ended
    by itself long before the teardown, and the teardown goes on in order.
    """
    log: list[str] = []
    calls = 0

    async def short_lived() -> None:
        add_teardown_callback(lambda: log.append("svc:ctx-teardown"))
        await sleep(0.01)
        log.append("svc:finished")

    def sync_action() -> None:
        nonlocal calls
        calls += 1
        log.append("action")
        if "raising" in kind:
            raise RuntimeError("pointless and failing")

    async def async_action() -> None:
        await sleep(0.01)
        sync_action()

    action: Any = {
        "cancel": "cancel",
        "none": None,
        "sync": sync_action,
        "sync-raising": sync_action,
        "async": async_action,
        "async-raising": async_action,
    }[kind]

    with fail_after(5):
        async with Context():
            add_teardown_callback(lambda: log.append("td:before"))
            await start_service_task(short_lived, "short", teardown_action=action)
            add_teardown_callback(lambda: log.append("td:after"))
            await sleep(0.1)
            assert log == ["svc:finished", "svc:ctx-teardown"]

    expected_calls = 0 if kind in ("cancel", "none") else 1
    assert calls == expected_calls
    assert log == [
        "svc:finished",
        "svc:ctx-teardown",
        "td:after",
        *(["action"] * expected_calls),
        "td:before",
    ]


@pytest.mark.parametrize("seed", range(8))
async def test_random_interleavings(seed: int) -> None:
    """
    Random interleavings of resource registrations and service tasks of all kinds, in
    a root and a nested context. Checks the exact teardown order, the resource
    snapshots, the number of teardown action calls and that nothing is left running.
    """
    rng = random.Random(seed)
    log: list[str] = []
    running: set[str] = set()
    action_calls: dict[str, int] = {}

    def make_service(label: str, visible: int, stop: Event) -> Callable[[], Any]:
        async def service() -> None:
            running.add(label)
            try:
                add_teardown_callback(lambda: log.append(f"{label}:ctx-teardown"))
                await stop.wait()
                await sleep(0.02)
                assert len(get_resources(int)) == visible
                log.append(f"{label}:finished")
            except get_cancelled_exc_class():
                with CancelScope(shield=True):
                    await sleep(rng.choice([0, 0.01, 0.03]))
                    assert len(get_resources(int)) == visible
                    log.append(f"{label}:cancelled")

                raise
            finally:
                running.discard(label)

        return service

    async def populate(prefix: str, expected: list[str]) -> None:
        for index in range(8):
            label = f"{prefix}{index}"
            if rng.random() < 0.4:
                add_resource(index, label)
                add_teardown_callback(lambda label=label: log.append(f"td:{label}"))
                expected.insert(0, f"td:{label}")
                continue

            kind = rng.choice(["cancel", "none", "sync", "async", "raising"])
            stop = Event()

            def sync_action(label: str = label, stop: Event = stop) -> None:
                action_calls[label] += 1
                stop.set()

            async def async_action(label: str = label, stop: Event = stop) -> None:
                await sleep(0.01)
                sync_action(label, stop)

            def raising_action(label: str = label) -> NoReturn:
                action_calls[label] += 1
                raise RuntimeError("nope")

            action: Any
            if kind == "cancel":
                action, outcome = "cancel", "cancelled"
            elif kind == "none":
                action, outcome = None, "finished"
            elif kind == "sync":
                action, outcome = sync_action, "finished"
            elif kind == "async":
                action, outcome = async_action, "finished"
            else:
                action, outcome = raising_action, "cancelled"

            if callable(action):
                action_calls[label] = 0

            await start_service_task(
                make_service(label, len(get_resources(int)), stop),
                label,
                teardown_action=action,
            )
            expected[0:0] = [f"{label}:{outcome}", f"{label}:ctx-teardown"]
            if kind == "none":
                # Nobody tells this task to finish; it finishes by itself once the
                # teardown has got as far as the callback registered right after it
                add_teardown_callback(stop.set)

    expected_root: list[str] = []
    expected_nested: list[str] = []
    with fail_after(10):
        async with Context():
            await populate("a", expected_root)
            async with Context():
                await populate("n", expected_nested)
                await sleep(0.01)

            assert log == expected_nested
            assert not any(label.startswith("n") for label in running)
            assert running
            await populate("b", expected_root)
            await sleep(0.01)

        assert not running

    assert log == expected_nested + expected_root
    assert all(count == 1 for count in action_calls.values()), action_calls


async def test_background_tasks_cancelled_through_handle() -> None:
    log: list[str] = []

    async def job() -> None:
        try:
            await sleep_forever()
        except get_cancelled_exc_class():
            with CancelScope(shield=True):
                await sleep(0.02)
                log.append(f"job:cancelled:{get_resource_nowait(str)}")

            raise

    async def quick_job() -> None:
        log.append("quick:finished")

    with fail_after(5):
        async with Context():
            add_resource("dep")
            add_teardown_callback(lambda: log.append("td:dep"))
            factory = await start_background_task_factory()
            handle = await factory.start_task(job, "job")
            quick = await factory.start_task(quick_job, "quick")
            await quick.wait_finished()
            handle.cancel()
            await handle.wait_finished()
            assert log == ["quick:finished", "job:cancelled:dep"]
            assert factory.all_task_handles() == set()
            factory.start_task_soon(quick_job)

    assert log == ["quick:finished", "job:cancelled:dep", "quick:finished", "td:dep"]


async def test_crashing_service_task() -> None:
    log: list[str] = []
    go = Event()

    async def crasher() -> NoReturn:
        add_teardown_callback(lambda: log.append("crasher:ctx-teardown"))
        await go.wait()
        raise LookupError("service crashed")

    async def survivor() -> None:
        try:
            await sleep_forever()
        finally:
            log.append("survivor:ended")

    with fail_after(5):
        with pytest.raises(BaseException) as exc_info:
            async with Context():
                await start_service_task(survivor, "survivor")
                await start_service_task(crasher, "crasher")
                go.set()
                await sleep(3)
                pytest.fail("the body should have been cancelled")

    assert any(
        isinstance(exc, LookupError) and str(exc) == "service crashed"
        for exc in flatten(exc_info.value)
    )
    assert sorted(log) == ["crasher:ctx-teardown", "survivor:ended"]
