"""Shared helpers for the rules about the per-context tables (C02, C03, C04, C06, C18)."""
from __future__ import annotations

import ast
from typing import Optional

from ..cfg import CFG, Node, iter_own
from ..effects import Analysis, Mutation, access_path
from ..loader import FuncInfo, dotted, walk_own
from .common import Anchors, call_name, find_assign_sources, self_attr


def expand_alias(func: FuncInfo, path: tuple, depth: int = 3) -> list:
    """Access paths a local-rooted path may stand for (``tbl = self._resources``)."""
    out = [path]
    if depth <= 0 or not path:
        return out
    root = path[0]
    if root in ("self",) or root.startswith("<"):
        return out
    if not func.is_lambda and root in func.params:
        return out
    for src in find_assign_sources(func, root):
        sp = access_path(src)
        if sp and not sp[0].startswith("<"):
            for e in expand_alias(func, sp + path[1:], depth - 1):
                if e not in out:
                    out.append(e)
    return out


def table_mutations(a: Analysis, attr: str) -> list:
    """All (func, cfgnode, Mutation, receiver_path) package-wide whose mutated container is X.<attr>
    (any receiver X), including through simple local aliases."""
    out = []
    for f in a.p.all_functions():
        for n, m in a.func_mutations(f):
            for path in expand_alias(f, m.path):
                if m.kind == "rebind":
                    if len(path) >= 2 and path[-1] == attr:
                        out.append((f, n, m, path[:-1]))
                        break
                elif len(path) >= 2 and path[-1] == attr:
                    out.append((f, n, m, path[:-1]))
                    break
    return out


def table_reads(a: Analysis, func: FuncInfo, attr: str) -> list:
    """ast nodes in func that read X.<attr> (Attribute loads), with receiver path."""
    out = []
    for n in walk_own(func.node):
        if isinstance(n, ast.Attribute) and n.attr == attr and isinstance(n.ctx, ast.Load):
            out.append((n, access_path(n.value)))
    return out


def membership_tests(func: FuncInfo, attr: str) -> list:
    """Compare nodes ``K in X.<attr>`` / ``K not in X.<attr>`` in func: (compare, key_expr, negated, recv)."""
    out = []
    for n in walk_own(func.node):
        if isinstance(n, ast.Compare) and len(n.ops) == 1 and isinstance(n.ops[0], (ast.In, ast.NotIn)):
            c = n.comparators[0]
            if isinstance(c, ast.Attribute) and c.attr == attr:
                out.append((n, n.left, isinstance(n.ops[0], ast.NotIn), c.value))
    return out


def store_key(m: Mutation) -> Optional[ast.AST]:
    """Key expression of a subscript store / setdefault on a table."""
    node = m.node
    if isinstance(node, ast.Call):
        if node.args:
            return node.args[0]
        return None
    if isinstance(node, (ast.Assign, ast.AugAssign, ast.AnnAssign)):
        targets = node.targets if isinstance(node, ast.Assign) else [node.target]
        for t in Analysis._flatten_targets(targets):
            if isinstance(t, ast.Subscript):
                return t.slice
    return None


def store_value(m: Mutation) -> Optional[ast.AST]:
    node = m.node
    if isinstance(node, ast.Call):
        if len(node.args) >= 2:
            return node.args[1]
        return None
    if isinstance(node, ast.Assign):
        return node.value
    return None


def enclosing_loops(func: FuncInfo, target: ast.AST) -> list:
    """For/AsyncFor statements and comprehension generators (outermost first) enclosing target:
    list of (iter_expr, target_expr, node)."""
    out: list = []

    def visit(n, chain):
        if n is target:
            out.extend(chain)
            return True
        if isinstance(n, (ast.FunctionDef, ast.AsyncFunctionDef, ast.Lambda)) and n is not func.node:
            return False
        if isinstance(n, (ast.For, ast.AsyncFor)):
            for c in n.body + n.orelse:
                if visit(c, chain + [(n.iter, n.target, n)] if c in n.body else chain):
                    return True
            for c in (n.iter, n.target):
                if visit(c, chain):
                    return True
            return False
        if isinstance(n, (ast.ListComp, ast.SetComp, ast.GeneratorExp, ast.DictComp)):
            gens = [(g.iter, g.target, g) for g in n.generators]
            elts = [n.key, n.value] if isinstance(n, ast.DictComp) else [n.elt]
            for e in elts:
                if visit(e, chain + gens):
                    return True
            for i, g in enumerate(n.generators):
                for cond in g.ifs:
                    if visit(cond, chain + gens[: i + 1]):
                        return True
                if visit(g.iter, chain + gens[:i]):
                    return True
            return False
        for c in ast.iter_child_nodes(n):
            if visit(c, chain):
                return True
        return False

    visit(func.node, [])
    return out


def loop_var_source(loops: list, name: str) -> Optional[ast.AST]:
    """iter expression of the innermost loop binding ``name``."""
    for it, tgt, _ in reversed(loops):
        for t in Analysis._flatten_targets([tgt]):
            if isinstance(t, ast.Name) and t.id == name:
                return it
    return None


def norm(expr) -> str:
    return ast.unparse(expr) if expr is not None else ""


def node_reads_table(a, an, f, cfg, n, table: str) -> bool:
    """The node reads X.<table> directly, or calls a Context helper method that does."""
    root = cfg.own_ast(n)
    if root is None:
        return False
    for e in iter_own(root):
        if isinstance(e, ast.Attribute) and e.attr == table and isinstance(e.ctx, ast.Load):
            return True
        if isinstance(e, ast.Call):
            c = a.callee(f, e)
            if c.kind == "func" and c.func.cls is an.Context and c.func is not f and not a.func_mutations(c.func):
                if any(isinstance(x, ast.Attribute) and x.attr == table for x in walk_own(c.func.node)):
                    return True
    return False
