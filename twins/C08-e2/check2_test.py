"""
Property C08: service tasks are stopped at teardown before anything they may depend on.

These checks only use the public API and must pass both on the unchanged source and
with refactor2.diff (optional ``teardown_timeout`` for service tasks) applied. They
never pass ``teardown_timeout``, i.e. they pin down the default behaviour: a task that
is told (or left) to finish is awaited for as long as it takes and never cancelled
behind its back.
"""

from __future__ import annotations

import sys
from typing import NoReturn

import pytest
from anyio import (
    CancelScope,
    Event,
    fail_after,
    get_cancelled_exc_class,
    sleep,
    sleep_forever,
)
from anyio.abc import TaskStatus

from asphalt.core import (
    Component,
    Context,
    add_resource,
    add_teardown_callback,
    get_resource_nowait,
    start_background_task_factory,
    start_component,
    start_service_task,
)

if sys.version_info < (3, 11):
    from exceptiongroup import BaseExceptionGroup

pytestmark = pytest.mark.anyio()


@pytest.fixture(params=["asyncio", "trio"])
def anyio_backend(request: pytest.FixtureRequest) -> str:
    return request.param


def flatten(exc: BaseException) -> list[BaseException]:
    if isinstance(exc, BaseExceptionGroup):
        return [leaf for sub in exc.exceptions for leaf in flatten(sub)]

    return [exc]


@pytest.mark.parametrize("is_async", [False, True], ids=["sync", "async"])
async def test_slow_finisher_is_awaited_not_cancelled(is_async: bool) -> None:
    log: list[str] = []
    stop = Event()
    calls = 0

    async def service(*, task_status: TaskStatus[str]) -> None:
        add_teardown_callback(lambda: log.append("svc:ctx-teardown"))
        task_status.started("start value")
        try:
            await stop.wait()
            # A lengthy, orderly shutdown that uses a resource registered before
            for _ in range(5):
                await sleep(0.05)
                assert get_resource_nowait(str) == "dep"

            log.append("svc:finished")
        except get_cancelled_exc_class():
            log.append("svc:cancelled")
            raise

    def sync_action() -> None:
        nonlocal calls
        calls += 1
        log.append("action")
        stop.set()

    async def async_action() -> None:
        await sleep(0.02)
        sync_action()

    with fail_after(5):
        async with Context():
            add_resource("dep")
            add_teardown_callback(lambda: log.append("td:dep"))
            start_value = await start_service_task(
                service,
                "slow",
                teardown_action=async_action if is_async else sync_action,
            )
            assert start_value == "start value"
            add_resource(1)
            add_teardown_callback(lambda: log.append("td:int"))

    assert calls == 1
    assert log == ["td:int", "action", "svc:finished", "svc:ctx-teardown", "td:dep"]


async def test_unprompted_task_is_awaited_not_cancelled() -> None:
    log: list[str] = []

    async def service() -> None:
        try:
            await sleep(0.3)
            log.append("svc:finished")
        except get_cancelled_exc_class():
            log.append("svc:cancelled")
            raise

    with fail_after(5):
        async with Context():
            add_teardown_callback(lambda: log.append("td:first"))
            await start_service_task(service, "unprompted", teardown_action=None)
            add_teardown_callback(lambda: log.append("td:last"))

    assert log == ["td:last", "svc:finished", "td:first"]


@pytest.mark.parametrize("is_async", [False, True], ids=["sync", "async"])
async def test_raising_action_falls_back_to_cancellation(is_async: bool) -> None:
    log: list[str] = []
    calls = 0

    async def service() -> None:
        try:
            await sleep_forever()
        except get_cancelled_exc_class():
            with CancelScope(shield=True):
                await sleep(0.1)
                assert get_resource_nowait(str) == "dep"
                log.append("svc:cleaned up")

            raise

    def sync_action() -> NoReturn:
        nonlocal calls
        calls += 1
        raise RuntimeError("cannot stop it nicely")

    async def async_action() -> NoReturn:
        await sleep(0.01)
        sync_action()

    with fail_after(5):
        async with Context():
            add_resource("dep")
            add_teardown_callback(lambda: log.append("td:dep"))
            await start_service_task(
                service,
                "stubborn",
                teardown_action=async_action if is_async else sync_action,
            )

    assert calls == 1
    assert log == ["svc:cleaned up", "td:dep"]


async def test_started_from_components() -> None:
    """Tasks started via ComponentContext are owned by the surrounding context."""
    log: list[str] = []
    stop = Event()
    running = 0

    async def polite() -> None:
        nonlocal running
        running += 1
        try:
            await stop.wait()
            await sleep(0.1)
            log.append(f"polite:finished:{get_resource_nowait(str)}")
        finally:
            running -= 1

    async def cancellable() -> None:
        nonlocal running
        running += 1
        try:
            await sleep_forever()
        except get_cancelled_exc_class():
            with CancelScope(shield=True):
                await sleep(0.05)
                log.append(f"cancellable:cancelled:{get_resource_nowait(str)}")

            raise
        finally:
            running -= 1

    def stop_polite() -> None:
        log.append("polite:action")
        stop.set()

    class Child(Component):
        async def start(self) -> None:
            await start_service_task(cancellable, "cancellable")
            add_teardown_callback(lambda: log.append("td:child"))

    class Root(Component):
        def __init__(self) -> None:
            self.add_component("child", Child)

        async def prepare(self) -> None:
            add_resource("dep")
            add_teardown_callback(lambda: log.append("td:dep"))
            await start_service_task(polite, "polite", teardown_action=stop_polite)

    with fail_after(5):
        async with Context():
            await start_component(Root)
            await sleep(0.01)
            assert running == 2

        assert running == 0

    assert log == [
        "td:child",
        "cancellable:cancelled:dep",
        "polite:action",
        "polite:finished:dep",
        "td:dep",
    ]


async def test_background_task_factory_drains_before_dependencies() -> None:
    log: list[str] = []

    async def job() -> None:
        await sleep(0.15)
        log.append(f"job:finished:{get_resource_nowait(str)}")

    with fail_after(5):
        async with Context():
            add_resource("dep")
            add_teardown_callback(lambda: log.append("td:dep"))
            factory = await start_background_task_factory()
            await factory.start_task(job, "job")
            factory.start_task_soon(job, "job2")
            await sleep(0.01)

    assert log == ["job:finished:dep", "job:finished:dep", "td:dep"]


async def test_nested_contexts_own_their_tasks() -> None:
    log: list[str] = []
    inner_stop = Event()

    async def inner_service() -> None:
        await inner_stop.wait()
        await sleep(0.1)
        log.append("inner:finished")

    async def outer_service() -> None:
        try:
            await sleep_forever()
        finally:
            log.append("outer:ended")

    with fail_after(5):
        async with Context():
            add_teardown_callback(lambda: log.append("td:outer"))
            await start_service_task(outer_service, "outer")
            async with Context():
                add_teardown_callback(lambda: log.append("td:inner"))
                await start_service_task(
                    inner_service, "inner", teardown_action=inner_stop.set
                )

            assert log == ["inner:finished", "td:inner"]

    assert log == ["inner:finished", "td:inner", "outer:ended", "td:outer"]


async def test_crash_takes_application_down() -> None:
    go = Event()

    async def crasher() -> NoReturn:
        await go.wait()
        raise LookupError("service crashed")

    def never_called_in_time() -> None:
        pass

    with fail_after(5):
        with pytest.raises(BaseException) as exc_info:
            async with Context():
                await start_service_task(
                    crasher, "crasher", teardown_action=never_called_in_time
                )
                go.set()
                await sleep(3)
                pytest.fail("the body should have been cancelled")

    assert any(
        isinstance(exc, LookupError) and str(exc) == "service crashed"
        for exc in flatten(exc_info.value)
    )
