"""C08 - service tasks are stopped at teardown before anything they may depend on."""
from __future__ import annotations

import ast
from functools import cached_property

from ..cfg import CFG, Node, handler_names, iter_own
from ..loader import exc_expr, AnalysisError, ClassInfo, FuncInfo, dotted, walk_own
from .common import Anchors, call_name, def_use_closure, is_const, names_in, self_attr
from .discharge import controlling_tests


class TaskAnchors:
    def __init__(self, ctx, an: Anchors):
        self.ctx = ctx
        self.a = ctx.a
        self.an = an
        self.finalizer_partial = None

    def finalizer_name_for(self, outer_name: str) -> str:
        """Name under which a variable of start_service_task is known inside the finalizer
        (identical for a closure; the bound parameter for a partial)."""
        F = self.finalizer
        if self.finalizer_partial is None:
            return outer_name
        params = [p for p in F.params]
        for i, arg in enumerate(self.finalizer_partial.args[1:]):
            if isinstance(arg, ast.Name) and arg.id == outer_name and i < len(params):
                return params[i]
        for kw in self.finalizer_partial.keywords:
            if isinstance(kw.value, ast.Name) and kw.value.id == outer_name and kw.arg:
                return kw.arg
        return outer_name

    @cached_property
    def start_service_task(self) -> FuncInfo:
        return self.an.ctx_method("start_service_task")

    @cached_property
    def register(self) -> FuncInfo:
        return self.an.ctx_method("add_teardown_callback")

    @cached_property
    def finalizer(self) -> FuncInfo:
        S = self.start_service_task
        for call, c in self.a.func_calls(S):
            if c.kind == "func" and c.func is self.register and call.args:
                arg = call.args[0]
                if isinstance(arg, ast.Name) and arg.id in S.nested:
                    return S.nested[arg.id]
                # functools.partial(<module-level coroutine>, handle, name, action)
                if isinstance(arg, ast.Call) and call_name(arg) == "partial" and arg.args and isinstance(arg.args[0], ast.Name):
                    r = self.a.r.resolve_name(S, arg.args[0].id)
                    if isinstance(r, FuncInfo):
                        self.finalizer_partial = arg
                        return r
        # not registered through the normal route: the nested coroutine that deals with the task handle
        for nf in S.nested.values():
            if any(isinstance(c, ast.Call) and call_name(c) in ("wait_finished", "cancel") for c in walk_own(nf.node)):
                return nf
        raise AnalysisError("anchor-missing service-task finalizer (nested function registered as teardown callback)")

    @cached_property
    def spawn_call(self) -> ast.Call:
        S = self.start_service_task
        for call, c in self.a.func_calls(S):
            if call_name(call) in ("start", "start_soon") and isinstance(call.func, ast.Attribute) and self_attr(call.func.value):
                return call
        raise AnalysisError("anchor-missing task-group spawn in start_service_task")

    @cached_property
    def tg_attr(self) -> str:
        return self_attr(self.spawn_call.func.value)

    @cached_property
    def runner(self) -> FuncInfo:
        S = self.start_service_task
        arg = self.spawn_call.args[0] if self.spawn_call.args else None
        if isinstance(arg, ast.Name):
            r = self.a.r.resolve_name(S, arg.id)
            if isinstance(r, FuncInfo):
                return r
        raise AnalysisError("anchor-missing background task runner (first argument of the spawn)")

    @cached_property
    def Handle(self) -> ClassInfo:
        S = self.start_service_task
        for call, c in self.a.func_calls(S):
            if c.kind == "class" and "dataclass" in c.cls.decorators:
                return c.cls
        raise AnalysisError("anchor-missing task handle class")

    @cached_property
    def handle_var(self) -> str:
        S = self.start_service_task
        for n in walk_own(S.node):
            if isinstance(n, ast.Assign) and isinstance(n.value, ast.Call):
                c = self.a.callee(S, n.value)
                if c.kind == "class" and c.cls is self.Handle and isinstance(n.targets[0], ast.Name):
                    return n.targets[0].id
        raise AnalysisError("anchor-missing task handle variable")

    def handle_fields(self) -> dict:
        """field -> (annotation text, default_factory name or None)"""
        out = {}
        for st in self.Handle.node.body:
            if isinstance(st, ast.AnnAssign) and isinstance(st.target, ast.Name):
                df = None
                if isinstance(st.value, ast.Call) and call_name(st.value) == "field":
                    for kw in st.value.keywords:
                        if kw.arg == "default_factory":
                            df = ast.unparse(kw.value)
                        if kw.arg == "default":
                            df = "SHARED:" + ast.unparse(kw.value)
                elif st.value is not None:
                    df = "SHARED:" + ast.unparse(st.value)
                out[st.target.id] = (ast.unparse(st.annotation), df)
        return out

    @cached_property
    def scope_field(self) -> str:
        for k, (ann, df) in self.handle_fields().items():
            if "CancelScope" in ann:
                return k
        raise AnalysisError("anchor-missing cancel scope field of the task handle")

    @cached_property
    def event_field(self) -> str:
        for k, (ann, df) in self.handle_fields().items():
            if ann.endswith("Event"):
                return k
        raise AnalysisError("anchor-missing finished event field of the task handle")


def runner_rules(ctx, ta: TaskAnchors, rule: str, handler_rule: str | None = None) -> None:
    """run_background_task brackets the user function (shared by C08.R4 / C09.R5/R6 / C12.R5)."""
    rep = ctx.rep
    a = ctx.a
    R = ta.runner
    cfg = a.cfg(R)
    func_param, ctx_param, handle_param = R.params[0], R.params[1], R.params[2]
    # user function awaits
    user_awaits = [n for n in walk_own(R.node) if isinstance(n, ast.Await) and isinstance(n.value, ast.Call) and isinstance(n.value.func, ast.Name) and n.value.func.id == func_param]
    if not user_awaits:
        rep.violate(rule, R, R.node, "the task runner never awaits the user function")
        return
    scope_with = [w for w in walk_own(R.node) if isinstance(w, ast.With) and any(isinstance(i.context_expr, ast.Attribute) and i.context_expr.attr == ta.scope_field and dotted(i.context_expr.value) == handle_param for i in w.items)]
    ctx_with = [w for w in walk_own(R.node) if isinstance(w, ast.AsyncWith) and any(isinstance(i.context_expr, ast.Call) and a.callee(R, i.context_expr).kind == "class" and a.callee(R, i.context_expr).cls is ta.an.Context for i in w.items)]
    if not scope_with:
        rep.violate(rule, R, R.node, "the task does not run inside its handle's cancel scope: TaskHandle.cancel()/teardown cannot stop it")
    if not ctx_with:
        rep.violate(rule, R, R.node, "the task does not run inside its own child Context")
    if not scope_with or not ctx_with:
        return
    sw, cw = scope_with[0], ctx_with[0]
    inside = lambda outer, inner: any(x is inner for x in ast.walk(outer))  # noqa: E731
    rep.check(rule, all(inside(cw, u) for u in user_awaits), R, cw, "the user function is awaited inside `async with Context(...)`", "the user function runs outside the task's own context")
    rep.check(rule, inside(sw, cw), R, sw, "the task's context lives inside the handle's cancel scope (cancellation also covers the context's teardown start)", "the task context is not inside the handle's cancel scope")
    cargs = [i.context_expr for i in cw.items if isinstance(i.context_expr, ast.Call)][0].args
    rep.check(rule, len(cargs) == 1 and isinstance(cargs[0], ast.Name) and cargs[0].id == ctx_param, R, cw, "the task context's parent is the explicitly passed owner context (not whatever is current where the task was spawned)", "the task context is created without the explicit owner context as parent: it inherits from whoever spawned it")
    # finished event set in a finally that covers both
    sets = [c for c in walk_own(R.node) if isinstance(c, ast.Call) and call_name(c) == "set" and isinstance(c.func.value, ast.Attribute) and c.func.value.attr == ta.event_field and dotted(c.func.value.value) == handle_param]
    if not sets:
        rep.violate(rule, R, R.node, "the finished event is never set: teardown waits forever")
        return
    tries = [t for t in walk_own(R.node) if isinstance(t, ast.Try) and any(any(x is s for x in ast.walk(fb)) for fb in t.finalbody for s in sets)]
    ok_fin = bool(tries) and any(any(x is sw for b in t.body for x in ast.walk(b)) for t in tries)
    early = [s for s in sets if any(x is s for x in ast.walk(sw))]
    for s in early:
        rep.violate(rule, R, s, "the finished event is (also) set inside the task's cancel scope / context block, i.e. before the task's own context has been torn down: teardown of the owner proceeds while the task's context is still tearing down")
    rep.check(rule, ok_fin, R, sets[0], "the finished event is set in a `finally` that covers the cancel scope and the task's context (the task AND its context have completely finished)", "the finished event is set before the task's own context has been torn down (or not on every exit): teardown proceeds while the task is still running")
    # on the CFG: every path from entering the scope to any exit passes a set node
    set_nodes = [n.id for s in sets for n in cfg.nodes_containing(s)]
    enter = [n for n in cfg.live_nodes() if n.kind == "with_enter" and n.ast is sw]
    if enter:
        ok = cfg.all_paths_pass(enter[0].id, [cfg.exit, cfg.raise_exit], set_nodes)
        rep.check(rule, ok, R, sets[0], "every exit of the runner (return, exception, cancellation) sets the finished event", "some exit of the runner does not set the finished event")
    # exception handling: except Exception, handler consulted once, truthiness alone swallows
    hr = handler_rule or rule
    handler_param = R.params[3] if len(R.params) > 3 else None
    hs = [h for t in walk_own(R.node) if isinstance(t, ast.Try) for h in t.handlers if any(x is sw for b in t.body for x in ast.walk(b))]
    exc_handlers = [h for h in hs if h.type is not None and "Exception" in handler_names(h.type)]
    base_handlers = [h for h in hs if h.type is None or "BaseException" in handler_names(h.type)]
    for h in base_handlers:
        rep.violate(hr, R, h, "the runner catches BaseException: cancellation of the task is treated like a crash / swallowed")
    all_hcalls = [c for c in walk_own(R.node) if isinstance(c, ast.Call) and isinstance(c.func, ast.Name) and c.func.id == handler_param] if handler_param else []
    inner = [c for c in all_hcalls if not any(any(x is c for x in ast.walk(h)) for h in exc_handlers)]
    for c in inner:
        rep.violate(hr, R, c, "the exception handler is consulted by a `try` that does not cover the task's cancel scope and context block: an exception raised while the task's own context is torn down (a failing teardown callback of the task) bypasses the handler and always reaches the hosting task group")
    if not exc_handlers and not all_hcalls:
        rep.hold(hr, R, R.node, "no handler around the task: every exception reaches the hosting task group")
    for h in exc_handlers:
        hn = [n for n in cfg.live_nodes() if n.kind == "handler" and n.ast is h]
        if not hn:
            continue
        region = cfg.reach([hn[0].id], edge_ok=lambda s, d, lab: lab not in ("e", "h"))
        hcalls = [c for c in ast.walk(h) if isinstance(c, ast.Call) and isinstance(c.func, ast.Name) and c.func.id == handler_param]
        rep.check(hr, len(hcalls) == 1, R, h, "the exception handler is consulted at exactly one site", f"the exception handler is called at {len(hcalls)} sites")
        for c in hcalls:
            rep.check(hr, len(c.args) == 1 and isinstance(c.args[0], ast.Name) and c.args[0].id == h.name, R, c, "the handler receives the escaping exception", "the handler is not given the escaping exception")
        reraise = [cfg.nodes[i] for i in region if cfg.nodes[i].kind == "stmt" and isinstance(cfg.nodes[i].ast, ast.Raise) and (cfg.nodes[i].ast.exc is None or (isinstance(cfg.nodes[i].ast.exc, ast.Name) and cfg.nodes[i].ast.exc.id == h.name))]
        rep.check(hr, bool(reraise), R, h, "an unhandled exception is re-raised", "the handler never re-raises: exceptions escaping a task vanish")
        # Swallowing = leaving the handler without raising.  Every such path must pass the
        # TRUTHY outcome of the single `handler(exc)` call (whatever the surrounding shape:
        # `if h is not None and h(exc): return`, or guard clauses `if h is None: raise` /
        # `if not h(exc): raise` followed by falling through).
        truthy_edges = []  # (test node id, label taken when handler(exc) was truthy)
        from .common import find_assign_sources as _fas

        def implies_truthy(expr, value: bool, depth: int = 0) -> bool:
            """Does `expr` evaluating to `value` imply that handler(exc) returned a truthy value?"""
            if isinstance(expr, ast.UnaryOp) and isinstance(expr.op, ast.Not):
                return implies_truthy(expr.operand, not value, depth)
            if isinstance(expr, ast.BoolOp) and isinstance(expr.op, ast.And) and value:
                return any(implies_truthy(v, True, depth) for v in expr.values)
            if isinstance(expr, ast.BoolOp) and isinstance(expr.op, ast.Or) and not value:
                return any(implies_truthy(v, False, depth) for v in expr.values)
            if isinstance(expr, ast.Call) and isinstance(expr.func, ast.Name) and expr.func.id == handler_param:
                return value
            if isinstance(expr, ast.Call) and isinstance(expr.func, ast.Name) and expr.func.id == "bool" and len(expr.args) == 1:
                return implies_truthy(expr.args[0], value, depth)
            if isinstance(expr, ast.Name) and depth < 3:
                srcs = _fas(R, expr.id)
                return len(srcs) == 1 and implies_truthy(srcs[0], value, depth + 1)
            return False

        for i in region:
            t = cfg.nodes[i]
            if t.kind != "test":
                continue
            for lab_ in ("t", "f"):
                if implies_truthy(t.ast, lab_ == "t"):
                    truthy_edges.append((t.id, lab_))

        def no_truthy(src, dst, lab):
            if lab in ("e", "h"):
                return False
            return (src.id, lab) not in truthy_edges

        normal_ends = {cfg.exit}
        leak = cfg.reach([hn[0].id], edge_ok=no_truthy)
        rep.check(hr, bool(truthy_edges) and not (leak & normal_ends), R, h, "the exception is swallowed only after the handler returned a truthy value (every other path re-raises)", "the exception can be swallowed without a truthy verdict of the exception handler (or the handler is never asked)")


def handle_isolation(ctx, ta: TaskAnchors, rule: str) -> None:
    rep = ctx.rep
    fields = ta.handle_fields()
    for fld in (ta.scope_field, ta.event_field):
        ann, df = fields[fld]
        rep.check(rule, df is not None and not df.startswith("SHARED:") and df in ("CancelScope", "Event", "anyio.CancelScope", "anyio.Event"), ta.Handle.methods.get("cancel"), None, f"TaskHandle.{fld} comes from default_factory={df}: one per handle", f"TaskHandle.{fld} is not created per handle (default {df}): handles share a cancel scope / event")
    cancel = ta.Handle.methods.get("cancel")
    wait = ta.Handle.methods.get("wait_finished")
    if cancel is None or wait is None:
        rep.violate(rule, None, None, "TaskHandle lacks cancel()/wait_finished()")
        return
    ccalls = [c for c in walk_own(cancel.node) if isinstance(c, ast.Call)]
    ok = len(ccalls) == 1 and call_name(ccalls[0]) == "cancel" and self_attr(ccalls[0].func.value) == ta.scope_field
    rep.check(rule, ok, cancel, cancel.node, "cancel() cancels only the handle's own scope", "cancel() touches something other than the handle's own cancel scope")
    waits = [n for n in walk_own(wait.node) if isinstance(n, ast.Await)]
    ok = len(waits) == 1 and isinstance(waits[0].value, ast.Call) and call_name(waits[0].value) == "wait" and self_attr(waits[0].value.func.value) == ta.event_field
    rep.check(rule, ok, wait, wait.node, "wait_finished() awaits only the handle's own finished event", "wait_finished() does not await the handle's own finished event")


def run(ctx) -> None:
    rep = ctx.rep
    a = ctx.a
    an = Anchors(a)
    ta = TaskAnchors(ctx, an)
    S = ta.start_service_task
    F = ta.finalizer
    outer_hv = ta.handle_var
    scfg = a.cfg(S)
    fcfg = a.cfg(F)
    if "teardown_action" not in S.params:
        raise AnalysisError("anchor-missing teardown_action parameter")
    hv = ta.finalizer_name_for(outer_hv)
    action = ta.finalizer_name_for("teardown_action")

    # ------------------------------------------------------------------ finalizer nodes
    def calls_in(n: Node):
        return a.node_calls(F, fcfg, n)

    cancel_nodes = [n for n in fcfg.live_nodes() if any(call_name(c) == "cancel" and isinstance(c.func, ast.Attribute) and dotted(c.func.value) == hv for c, _ in calls_in(n))]
    action_nodes = [n for n in fcfg.live_nodes() if any(isinstance(c.func, ast.Name) and c.func.id == action for c, _ in calls_in(n))]
    wait_nodes = [n for n in fcfg.live_nodes() if any(call_name(c) == "wait_finished" and isinstance(c.func, ast.Attribute) and dotted(c.func.value) == hv for c, _ in calls_in(n)) and any(isinstance(e, ast.Await) for e in iter_own(fcfg.own_ast(n)))]
    t_cancel = [t for t in fcfg.live_nodes() if t.kind == "test" and isinstance(t.ast, ast.Compare) and isinstance(t.ast.left, ast.Name) and t.ast.left.id == action and isinstance(t.ast.ops[0], ast.Eq) and is_const(t.ast.comparators[0], "cancel")]
    t_none = [t for t in fcfg.live_nodes() if t.kind == "test" and isinstance(t.ast, ast.Compare) and isinstance(t.ast.left, ast.Name) and t.ast.left.id == action and isinstance(t.ast.ops[0], (ast.IsNot, ast.Is)) and is_const(t.ast.comparators[0], None)]
    normal = lambda s, d, lab: lab not in ("e", "h")  # noqa: E731

    # ------------------------------------------------------------------ R2 always waits
    if not wait_nodes:
        rep.violate("C08.R2", F, F.node, "the finalizer never waits for the task to finish: teardown proceeds to earlier callbacks while the task is still running")
    else:
        wids = [w.id for w in wait_nodes]
        ok = fcfg.all_paths_pass(fcfg.entry, [fcfg.exit], wids)
        rep.check("C08.R2", ok, F, wait_nodes[0].ast, "every path through the finalizer that returns ends by awaiting the task's finished event", "some path through the finalizer returns without waiting for the task")
        # no exceptional way out before the wait (a raising teardown action must not skip the wait)
        def raising(src: Node, dst: int, lab: str) -> bool:
            if lab == "e":
                if any(isinstance(c.func, ast.Name) and c.func.id == action for c, _ in calls_in(src)):
                    return True
                root = fcfg.own_ast(src)
                if root is not None and any(isinstance(e, ast.Await) for e in iter_own(root)):
                    return True
                if src.kind == "stmt" and isinstance(src.ast, ast.Raise):
                    return True
                # anything else that may raise according to the effects table (e.g. computing a
                # display name of the callable for a log line)
                return bool(a.node_may_raise(F, fcfg, src))
            return True

        pre = fcfg.reach([fcfg.entry], avoid=wids, edge_ok=raising)
        culprit = None
        if fcfg.raise_exit in pre:
            for i in sorted(pre):
                n_ = fcfg.nodes[i]
                if any(d_ == fcfg.raise_exit or lab_ == "e" for d_, lab_ in n_.succ) and raising(n_, fcfg.raise_exit, "e") and fcfg.raise_exit in fcfg.reach([d_ for d_, lab_ in n_.succ if lab_ == "e"], avoid=wids, edge_ok=raising):
                    culprit = n_
                    break
        why_ = "; ".join(a.node_may_raise(F, fcfg, culprit)[:1]) if culprit is not None else ""
        rep.check("C08.R2", fcfg.raise_exit not in pre, F, culprit.ast if culprit is not None and isinstance(culprit.ast, ast.AST) else wait_nodes[0].ast, "nothing in the finalizer (the teardown action, awaiting its result, or anything around them) can raise past the wait", f"an exception can escape the finalizer before the task was stopped and awaited{' (' + why_ + ')' if why_ else ''}: the teardown callable is not invoked / the task is not cancelled, it keeps running after its owning context was left and the root task group waits for it for ever")

    # ------------------------------------------------------------------ R1 finalizer shape
    if not t_cancel or not t_none:
        rep.violate("C08.R1", F, F.node, "the finalizer does not branch three ways on teardown_action ('cancel' / callable / None)")
    else:
        tc, tn = t_cancel[0], t_none[0]
        wids = [w.id for w in wait_nodes]
        # 'cancel' branch
        side = fcfg.reach([d for d, lab in tc.succ if lab == "t"], avoid=[tc.id] + wids, edge_ok=normal)
        ok = any(c.id in side for c in cancel_nodes) and wait_nodes and fcfg.all_paths_pass([d for d, lab in tc.succ if lab == "t"][0], wids, [c.id for c in cancel_nodes], edge_ok=normal)
        rep.check("C08.R1", bool(ok), F, tc.ast, "teardown_action == 'cancel': the task is cancelled, then awaited", "teardown_action == 'cancel' does not cancel the task on every path")
        rep.check("C08.R1", not any(x.id in side for x in action_nodes), F, tc.ast, "'cancel' branch calls nothing else", "the 'cancel' branch calls the teardown action")
        # None branch (is not None -> false)
        isnot = isinstance(tn.ast.ops[0], ast.IsNot)
        none_side = fcfg.reach([d for d, lab in tn.succ if lab == ("f" if isnot else "t")], avoid=[tn.id] + wids, edge_ok=normal)
        bad_c = [c for c in cancel_nodes if c.id in none_side]
        bad_a = [x for x in action_nodes if x.id in none_side]
        rep.check("C08.R1", not bad_c and not bad_a, F, (bad_c or bad_a or [tn])[0].ast, "teardown_action is None: the task is neither cancelled nor signalled, only awaited", "teardown_action=None cancels the task (or calls something): a task that must finish by itself is interrupted")
        # callable branch
        call_side = fcfg.reach([d for d, lab in tn.succ if lab == ("t" if isnot else "f")], avoid=[tn.id] + wids, edge_ok=lambda s, d, lab: True)
        acts = [x for x in action_nodes if x.id in call_side]
        from .tables import enclosing_loops

        rep.check("C08.R1", len(acts) == 1 and not enclosing_loops(F, acts[0].ast), F, acts[0].ast if acts else tn.ast, "the teardown callable is invoked exactly once", f"the teardown callable is invoked at {len(acts)} sites / inside a loop")
        if acts:
            act = acts[0]
            # normal continuation after the action never cancels
            after_ok = fcfg.reach([d for d, lab in act.succ if lab not in ("e", "h")], avoid=wids, edge_ok=normal)
            bad = [c for c in cancel_nodes if c.id in after_ok]
            rep.check("C08.R1", not bad, F, bad[0].ast if bad else act.ast, "after the teardown callable returned normally the task is not cancelled", "the task is cancelled although the teardown callable succeeded")
            # BaseException handler with cancel covers the call and the await of its result
            call_ast = [c for c, _ in calls_in(act) if isinstance(c.func, ast.Name) and c.func.id == action][0]
            hs = a.covering_handlers(F, call_ast)
            good = [h for h in hs if (h.type is None or "BaseException" in handler_names(h.type)) and any(isinstance(x, ast.Call) and call_name(x) == "cancel" for x in ast.walk(h))]
            rep.check("C08.R1", bool(good), F, call_ast, "if the teardown callable raises (any BaseException) the task is cancelled instead", "a raising teardown callable does not fall back to cancelling the task")
            # the awaitable result
            ret_var = act.ast.targets[0].id if isinstance(act.ast, ast.Assign) and isinstance(act.ast.targets[0], ast.Name) else None
            aws = [n for n in walk_own(F.node) if isinstance(n, ast.Await) and ((isinstance(n.value, ast.Name) and n.value.id == ret_var) or n.value is call_ast)]
            if not aws:
                rep.violate("C08.R1", F, call_ast, "an awaitable returned by the teardown callable is never awaited")
            for aw in aws:
                awn0 = fcfg.nodes_containing(aw)
                if awn0 and awn0[0].id != act.id:
                    rep.check("C08.R1", fcfg.dominates(act.id, awn0[0].id), F, aw, "the callable is invoked before its result is inspected / awaited", "the result is inspected before the teardown callable was invoked (unbound at that point: the failure handler cancels the task and the callable is never called)")
                # ... only if it IS awaitable: `await None` after a plain synchronous callable
                # raises TypeError inside the cancel-on-failure handler and cancels the task
                if isinstance(aw.value, ast.Name):
                    awn = fcfg.nodes_containing(aw)
                    from .discharge import controlling_conditions as _cc

                    guarded_aw = bool(awn) and any(truth and isinstance(e_, ast.Call) and call_name(e_) in ("isawaitable", "iscoroutine", "isfuture") and e_.args and isinstance(e_.args[0], ast.Name) and e_.args[0].id == aw.value.id for e_, truth, _t in _cc(fcfg, awn[0]))
                    rep.check("C08.R1", guarded_aw, F, aw, "the callable's result is awaited only when it is awaitable", "the result of the teardown callable is awaited unconditionally: a synchronous callable (returning None) makes the await raise TypeError, which is taken for a failing callable and cancels the task")
                hs2 = a.covering_handlers(F, aw)
                good2 = [h for h in hs2 if h in good]
                rep.check("C08.R1", bool(good2), F, aw, "awaiting the callable's result is covered by the same cancel-on-failure handler", "an exception raised while awaiting the teardown callable's result is not covered by the cancel-on-failure handler: it escapes the finalizer and the task is neither cancelled nor awaited")
            for h in good:
                hn = [n for n in fcfg.live_nodes() if n.kind == "handler" and n.ast is h]
                if hn and wait_nodes:
                    r = fcfg.reach([hn[0].id], avoid=wids, edge_ok=normal)
                    rep.check("C08.R1", fcfg.exit not in r and fcfg.raise_exit not in fcfg.reach([hn[0].id], avoid=wids, edge_ok=lambda s, d, lab: lab != "e" or (s.kind == "stmt" and isinstance(s.ast, ast.Raise))), F, h, "after the fallback cancel the finalizer still waits for the task", "the failure handler leaves the finalizer without waiting for the task")
    rep.floor("C08.R1", len(cancel_nodes) + len(action_nodes), 3)

    # ------------------------------------------------------------------ R3 registered immediately, through the append-only route
    spawn_nodes = scfg.nodes_containing(ta.spawn_call)
    reg_calls = [(n, call) for n in scfg.live_nodes() for call, c in a.node_calls(S, scfg, n) if c.kind == "func" and c.func is ta.register]
    if not spawn_nodes or not reg_calls:
        rep.violate("C08.R3", S, S.node, "start_service_task does not register a finalizer through add_teardown_callback")
    else:
        sp = spawn_nodes[0]
        rn, rcall = reg_calls[0]
        rep.check("C08.R3", call_name(ta.spawn_call) == "start" and any(isinstance(e, ast.Await) and e.value is ta.spawn_call for e in iter_own(scfg.own_ast(sp))), S, ta.spawn_call, "the task is started with `await tg.start(...)` (registration happens once it is running)", "the task is not started with an awaited tg.start()")
        rep.check("C08.R3", scfg.dominates(sp.id, rn.id), S, rcall, "the finalizer is registered after the task was started", "the finalizer is registered before the task exists (a failed start leaves a finalizer that waits forever)")
        btw = scfg.between([sp.id], [rn.id])
        cps = [r for i in btw for r in a.node_checkpoints(S, scfg, scfg.nodes[i])]
        rep.check("C08.R3", not cps, S, rcall, "no checkpoint between the start of the task and the registration of its finalizer", f"a checkpoint ({cps[0] if cps else ''}) separates starting the task from registering its finalizer: a teardown in between would not stop the task")
        reg_arg_ok = rcall.args and ((isinstance(rcall.args[0], ast.Name) and rcall.args[0].id == F.name) or (rcall.args[0] is ta.finalizer_partial))
        rep.check("C08.R3", bool(reg_arg_ok) and dotted(rcall.func.value) == "self", S, rcall, "the finalizer goes on this context's append-only LIFO stack (C01.R7): it runs before every callback registered earlier", "the finalizer is not registered on the owning context's teardown stack")
        rep.check("C08.R3", scfg.all_paths_pass(sp.id, [scfg.exit], [rn.id], edge_ok=normal), S, rcall, "every successful start registers the finalizer", "a successful start can return without registering the finalizer")
    # the teardown stack itself is append-only / LIFO: shared obligation with C01
    from .common import include_rules

    include_rules(ctx, "c01", "C08.R3", only=("C01.R1", "C01.R2", "C01.R7", "C01.R3"))
    # the ComponentContext wrapper hands every argument (teardown_action!) on unchanged
    include_rules(ctx, "c02", "C08.R1", only=("C02.R4",))

    # ------------------------------------------------------------------ R4 runner brackets the task
    runner_rules(ctx, ta, "C08.R4")
    # for service tasks no exception handler is passed: a crash reaches the task group
    hp = ta.runner.params[3] if len(ta.runner.params) > 3 else None
    passed = len(ta.spawn_call.args) > 4 or any(k.arg == hp for k in ta.spawn_call.keywords)
    rep.check("C08.R4", not passed, S, ta.spawn_call, "service tasks get no exception handler: an escaping exception takes the application down", "service tasks are started with an exception handler that can swallow crashes")
    # the owner context and the handle are passed to the runner
    sargs = [ast.unparse(x) for x in ta.spawn_call.args]
    rep.check("C08.R4", len(sargs) >= 4 and sargs[2] == "self" and sargs[3] == outer_hv, S, ta.spawn_call, "the runner receives the owning context and this task's handle", f"the runner is started with ({', '.join(sargs)})")

    # ------------------------------------------------------------------ R5 hosted by the root task group
    init = an.ctx_method("__init__")
    aenter = an.ctx_method("__aenter__")
    inherit = [n for n in walk_own(init.node) if isinstance(n, ast.Assign) and any(self_attr(t) == ta.tg_attr for t in n.targets)]
    def _is_parent_tg(v, depth: int = 0) -> bool:
        # `<parent>._task_group`, directly or through a local that holds nothing else
        if isinstance(v, ast.Attribute) and v.attr == ta.tg_attr:
            return True
        if isinstance(v, ast.Name) and depth < 3:
            srcs = [x.value for x in walk_own(init.node) if isinstance(x, ast.Assign) and any(isinstance(t, ast.Name) and t.id == v.id for t in x.targets)]
            return bool(srcs) and all(_is_parent_tg(s_, depth + 1) for s_ in srcs)
        return False

    ok = bool(inherit) and all(_is_parent_tg(n.value) for n in inherit)
    rep.check("C08.R5", ok, init, inherit[0] if inherit else init.node, "a child context shares its parent's (= the root's) task group", "child contexts do not inherit the root task group")
    ecfg = a.cfg(aenter)
    creates = [n for n in ecfg.live_nodes() if n.kind == "stmt" and isinstance(n.ast, ast.Assign) and any(self_attr(t) == ta.tg_attr for t in n.ast.targets)]
    if not creates:
        rep.violate("C08.R5", aenter, aenter.node, "no context ever creates the task group")
    else:
        c0 = creates[0]
        from .discharge import controlling_conditions

        root_only = any(("parent" in ast.unparse(e_)) and ((isinstance(e_, ast.Compare) and isinstance(e_.ops[0], ast.Is) and truth) or (isinstance(e_, (ast.Name, ast.Attribute)) and not truth)) for e_, truth, _t in controlling_conditions(ecfg, c0))
        rep.check("C08.R5", root_only, aenter, c0.ast, "only a root context creates a task group", "every context creates its own task group")
        rep.check("C08.R5", "enter_async_context" in ast.unparse(c0.ast.value) and "create_task_group" in ast.unparse(c0.ast.value), aenter, c0.ast, "the task group is entered on the context's exit stack", "the task group is not tied to the context's exit stack")
        from .c01 import runner_of

        (runner, reg_node, reg_call, reg_kind), regs = runner_of(ctx, an)
        rep.check("C08.R5", c0.id not in ecfg.reach([reg_node.id], include_start=False) and reg_node.id in ecfg.reach([c0.id]), aenter, c0.ast, "the task group is entered before the teardown runner is pushed: it outlives the teardown that waits for the tasks", "the task group is closed before teardown callbacks (the finalizers) run")
    all_creates = [f for f in ctx.p.all_functions() for n in walk_own(f.node) if isinstance(n, (ast.Assign, ast.AnnAssign)) and any(isinstance(t, ast.Attribute) and t.attr == ta.tg_attr and dotted(t.value) == "self" for t in (n.targets if isinstance(n, ast.Assign) else [n.target])) and f.owner_class is an.Context]
    rep.check("C08.R5", all(f in (init, aenter) for f in all_creates), S, None, "the task group attribute is assigned only in __init__/__aenter__", "the task group attribute is reassigned elsewhere")

    # ------------------------------------------------------------------ R6 validation first
    # an invalid action is rejected with ValueError before anything is spawned - whatever the
    # shape of the validation (one compound test, guard clauses, nested tests)
    from .discharge import controlling_tests as _ct6

    aparam = "teardown_action"
    vraises = []
    for n_ in scfg.live_nodes():
        if n_.kind == "stmt" and isinstance(n_.ast, ast.Raise) and n_.ast.exc is not None and "ValueError" in ast.unparse(exc_expr(n_.ast)):
            cts = _ct6(scfg, n_)
            if any(isinstance(t_.ast, ast.AST) and (aparam in names_in(t_.ast) or aparam in def_use_closure(S, t_.ast)) for t_, _l in cts):
                vraises.append(n_)
    if not vraises or not any("callable" in ast.unparse(t_.ast) for r_ in vraises for t_, _l in _ct6(scfg, r_) if isinstance(t_.ast, ast.AST)):
        rep.violate("C08.R6", S, S.node, "an invalid teardown_action is not rejected")
    elif spawn_nodes:
        after_spawn = scfg.reach([spawn_nodes[0].id])
        late = [r_ for r_ in vraises if r_.id in after_spawn]
        vt = [t_ for r_ in vraises for t_, _l in _ct6(scfg, r_) if isinstance(t_.ast, ast.AST) and (aparam in names_in(t_.ast) or aparam in def_use_closure(S, t_.ast))]
        before = bool(vt) and all(t_.id not in after_spawn for t_ in vt) and any(scfg.dominates(t_.id, spawn_nodes[0].id) for t_ in vt)
        rep.check("C08.R6", not late and before, S, vraises[0].ast, "an invalid teardown_action is rejected with ValueError before the task is spawned", "an invalid teardown_action is detected only after the task was spawned (or not with ValueError)")

    # ------------------------------------------------------------------ R7 handle isolation
    handle_isolation(ctx, ta, "C08.R7")
    rep.assume("anyio: cancelling a cancel scope cancels exactly the tasks inside it; the teardown itself is not cancelled (excluded by the statement)")
