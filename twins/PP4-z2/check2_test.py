"""
Behaviour check for refactoring 2 (shared private helpers for the sync / async twins
``Context.get_resource_nowait`` / ``Context.get_resource``, guard clause for the miss).

Only the public API is used.  The file must pass on the unchanged source as well as
with the refactoring applied.
"""

from __future__ import annotations

from collections.abc import AsyncGenerator, AsyncIterator
from contextlib import asynccontextmanager
from typing import Any

import pytest
from anyio import (
    CancelScope,
    Event,
    create_task_group,
    fail_after,
    get_cancelled_exc_class,
    wait_all_tasks_blocked,
)

from asphalt.core import (
    AsyncResourceError,
    Context,
    ResourceEvent,
    ResourceNotFound,
    ResourceConflict,
)

pytestmark = pytest.mark.anyio()


class _Sentinel:
    pass


class Recorder:
    """Collects the ``resource_added`` events of a context in dispatch order."""

    def __init__(self, ctx: Context, stream: AsyncIterator[ResourceEvent]) -> None:
        self.ctx = ctx
        self.stream = stream
        self.count = 0

    async def drain(self) -> list[tuple[Any, ...]]:
        self.count += 1
        marker = f"sentinel_{self.count}"
        self.ctx.add_resource(_Sentinel(), marker)
        seen: list[tuple[Any, ...]] = []
        with fail_after(3):
            async for event in self.stream:
                if event.resource_name == marker:
                    break

                assert event.source is self.ctx
                assert event.topic == "resource_added"
                seen.append(
                    (
                        event.resource_types,
                        event.resource_name,
                        event.resource_description,
                        event.is_factory,
                    )
                )

        return seen


@asynccontextmanager
async def recording(ctx: Context) -> AsyncGenerator[Recorder, None]:
    async with ctx.resource_added.stream_events(max_queue_size=200) as stream:
        yield Recorder(ctx, stream)


@pytest.fixture
async def context() -> AsyncGenerator[Context, None]:
    async with Context() as ctx:
        yield ctx


@pytest.mark.parametrize("nowait", [True, False])
async def test_generated_resource_is_stored_under_all_types(
    context: Context, nowait: bool
) -> None:
    calls: list[str] = []

    def factory() -> Any:
        calls.append("called")
        return 5

    context.add_resource_factory(
        factory, "multi", types=[int, float, object], description="three types"
    )
    async with recording(context) as recorder:
        # Requested through the *second* type
        if nowait:
            assert context.get_resource_nowait(float, "multi") == 5
        else:
            assert await context.get_resource(float, "multi") == 5

        assert await recorder.drain() == [
            ((int, float, object), "multi", "three types", False)
        ]
        # The other types are now served from the stored resource
        assert context.get_resource_nowait(int, "multi") == 5
        assert await context.get_resource(object, "multi") == 5
        assert await recorder.drain() == []

    assert calls == ["called"]
    assert context.get_resources(int) == {"multi": 5}
    assert context.get_resources(float) == {"multi": 5}
    assert context.get_resources(object)["multi"] == 5
    # The generated resource occupies the slots like any other resource
    with pytest.raises(ResourceConflict):
        context.add_resource(6, "multi", types=[int])


@pytest.mark.parametrize("nowait", [True, False])
async def test_generated_resource_does_not_replace_existing(
    context: Context, nowait: bool
) -> None:
    def factory() -> Any:
        return "generated"

    context.add_resource_factory(factory, types=[str, bytes])
    context.add_resource("static", types=[bytes])
    async with recording(context) as recorder:
        if nowait:
            assert context.get_resource_nowait(str) == "generated"
        else:
            assert await context.get_resource(str) == "generated"

        assert await recorder.drain() == [((str, bytes), "default", None, False)]

    assert context.get_resource_nowait(bytes) == "static"
    assert await context.get_resource(bytes) == "static"
    assert context.get_resources(bytes) == {"default": "static"}
    assert context.get_resources(str) == {"default": "generated"}


@pytest.mark.parametrize("nowait", [True, False])
async def test_factory_that_fills_its_own_slot(context: Context, nowait: bool) -> None:
    """The factory adds a resource under the requested key while it is running."""

    def factory() -> int:
        context.add_resource(5, description="added by the factory")
        return 7

    context.add_resource_factory(factory, description="generates 7")
    async with recording(context) as recorder:
        if nowait:
            assert context.get_resource_nowait(int) == 7
        else:
            assert await context.get_resource(int) == 7

        # ...but the resource added first keeps the slot
        assert context.get_resource_nowait(int) == 5
        assert await context.get_resource(int) == 5
        assert await recorder.drain() == [
            ((int,), "default", "added by the factory", False),
            ((int,), "default", "generates 7", False),
        ]

    assert context.get_resources(int) == {"default": 5}


@pytest.mark.parametrize("nowait", [True, False])
async def test_nested_factories(context: Context, nowait: bool) -> None:
    order: list[str] = []

    def inner() -> int:
        order.append("inner")
        return 2

    def outer() -> str:
        order.append("outer:start")
        value = context.get_resource_nowait(int, "inner")
        missing = context.get_resource_nowait(float, optional=True)
        order.append("outer:end")
        return f"{value}-{missing}"

    context.add_resource_factory(inner, "inner")
    context.add_resource_factory(outer)
    async with recording(context) as recorder:
        if nowait:
            assert context.get_resource_nowait(str) == "2-None"
        else:
            assert await context.get_resource(str) == "2-None"

        assert await recorder.drain() == [
            ((int,), "inner", None, False),
            ((str,), "default", None, False),
        ]

    assert order == ["outer:start", "inner", "outer:end"]


async def test_factory_raising_resource_not_found(context: Context) -> None:
    """A miss inside a factory propagates, also through an optional lookup."""

    def factory() -> str:
        return str(context.get_resource_nowait(int, "absent"))

    context.add_resource_factory(factory)
    with pytest.raises(ResourceNotFound) as excinfo:
        context.get_resource_nowait(str, optional=True)

    assert (excinfo.value.type, excinfo.value.name) == (int, "absent")
    with pytest.raises(ResourceNotFound) as excinfo:
        await context.get_resource(str, optional=True)

    assert (excinfo.value.type, excinfo.value.name) == (int, "absent")
    assert context.get_resources(str) == {}


async def test_concurrent_async_generation(context: Context) -> None:
    """
    Two tasks request the same resource while the factory is suspended: the factory
    runs twice, each task gets the value it generated, the first to finish keeps the
    slot and both generations are announced.
    """
    release = {1: Event(), 2: Event()}
    calls: list[int] = []
    results: dict[str, int] = {}

    async def factory() -> int:
        number = len(calls) + 1
        calls.append(number)
        await release[number].wait()
        return number * 10

    async def request(label: str) -> None:
        results[label] = await context.get_resource(int)

    context.add_resource_factory(factory, types=[int])
    async with recording(context) as recorder:
        with fail_after(3):
            async with create_task_group() as tg:
                tg.start_soon(request, "first")
                await wait_all_tasks_blocked()
                tg.start_soon(request, "second")
                await wait_all_tasks_blocked()
                assert calls == [1, 2]
                assert context.get_resources(int) == {}
                # Let the second call finish first
                release[2].set()
                await wait_all_tasks_blocked()
                assert results == {"second": 20}
                assert context.get_resource_nowait(int) == 20
                release[1].set()

        assert results == {"second": 20, "first": 10}
        assert await recorder.drain() == [
            ((int,), "default", None, False),
            ((int,), "default", None, False),
        ]

    assert context.get_resource_nowait(int) == 20
    assert await context.get_resource(int) == 20
    assert calls == [1, 2]


async def test_cancelled_async_generation(context: Context) -> None:
    calls: list[str] = []
    cancelled: list[bool] = []

    async def factory() -> int:
        calls.append("called")
        if len(calls) == 1:
            try:
                await Event().wait()
            except get_cancelled_exc_class():
                cancelled.append(True)
                raise

        return 9

    context.add_resource_factory(factory, types=[int])
    async with recording(context) as recorder:
        finished = False
        with fail_after(3):
            async with create_task_group() as tg:

                async def request() -> None:
                    nonlocal finished
                    with CancelScope() as scope:
                        scopes.append(scope)
                        await context.get_resource(int)
                        finished = True

                scopes: list[CancelScope] = []
                tg.start_soon(request)
                await wait_all_tasks_blocked()
                scopes[0].cancel()

        assert not finished
        assert cancelled == [True]
        assert context.get_resources(int) == {}
        assert await recorder.drain() == []
        assert await context.get_resource(int) == 9
        assert await recorder.drain() == [((int,), "default", None, False)]

    assert calls == ["called", "called"]


async def test_awaitable_but_not_coroutine(context: Context) -> None:
    """
    ``get_resource_nowait`` only rejects coroutine objects; ``get_resource`` awaits
    any awaitable.
    """

    class Later:
        def __init__(self, value: str) -> None:
            self.value = value

        def __await__(self) -> Any:
            yield from ()
            return self.value

    def factory() -> Any:
        return Later("done")

    context.add_resource_factory(factory, "a", types=[str])
    context.add_resource_factory(factory, "b", types=[str])
    stored = context.get_resource_nowait(str, "a")
    assert isinstance(stored, Later)
    assert context.get_resource_nowait(str, "a") is stored
    assert await context.get_resource(str, "b") == "done"
    assert context.get_resource_nowait(str, "b") == "done"


async def test_async_factory_via_nowait_leaves_no_trace(context: Context) -> None:
    async def factory() -> int:
        raise AssertionError("must never run")

    context.add_resource_factory(factory, types=[int, float])
    async with recording(context) as recorder:
        for type_ in (int, float):
            with pytest.raises(AsyncResourceError) as excinfo:
                context.get_resource_nowait(type_)

            assert str(excinfo.value) == str(AsyncResourceError())

        assert context.get_resources(int) == {}
        assert context.get_resources(float) == {}
        assert await recorder.drain() == []


async def test_factory_lookup_in_child_context() -> None:
    calls: list[str] = []

    def factory() -> str:
        calls.append("called")
        return f"value{len(calls)}"

    async with Context() as parent:
        parent.add_resource_factory(factory, description="inherited")
        parent.add_resource(1)
        async with Context() as child:
            async with recording(child) as child_recorder, recording(
                parent
            ) as parent_recorder:
                assert child.parent is parent
                assert child.get_resource_nowait(int) == 1
                assert await child.get_resource(str) == "value1"
                assert child.get_resource_nowait(str) == "value1"
                assert await child_recorder.drain() == [
                    ((str,), "default", "inherited", False)
                ]
                assert await parent_recorder.drain() == []

                # The parent generates its own value
                assert parent.get_resources(str) == {}
                assert parent.get_resource_nowait(str) == "value2"
                assert await parent_recorder.drain() == [
                    ((str,), "default", "inherited", False)
                ]
                assert await child_recorder.drain() == []

            assert child.get_resources(str) == {"default": "value1"}
            assert parent.get_resources(str) == {"default": "value2"}

        # Generated resources are not inherited by a new child context, but the
        # factory is
        async with Context() as child2:
            assert child2.get_resources(str) == {}
            assert child2.get_resource_nowait(str) == "value3"
            with pytest.raises(ResourceNotFound):
                child2.get_resource_nowait(str, "other")

            assert await child2.get_resource(bytes, optional=True) is None

    assert calls == ["called"] * 3
