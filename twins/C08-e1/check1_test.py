"""
Property C08: service tasks are stopped at teardown before anything they may depend on.

These checks only use the public API and must pass both on the unchanged source and
with refactor1.diff (early validation in ``Context.start_service_task``) applied.
"""

from __future__ import annotations

import sys
from typing import Any, NoReturn

import anyio
import pytest
from anyio import CancelScope, Event, fail_after, get_cancelled_exc_class, sleep

from asphalt.core import (
    Context,
    add_resource,
    add_teardown_callback,
    current_context,
    get_resource_nowait,
    start_service_task,
)

if sys.version_info < (3, 11):
    from exceptiongroup import BaseExceptionGroup

pytestmark = pytest.mark.anyio()


@pytest.fixture(params=["asyncio", "trio"])
def anyio_backend(request: pytest.FixtureRequest) -> str:
    return request.param


def flatten(exc: BaseException) -> list[BaseException]:
    if isinstance(exc, BaseExceptionGroup):
        return [leaf for sub in exc.exceptions for leaf in flatten(sub)]

    return [exc]


class Service:
    """A service task that records what it sees and how it ended."""

    def __init__(self, log: list[str], label: str, cleanup_delay: float = 0.0):
        self.log = log
        self.label = label
        self.cleanup_delay = cleanup_delay
        self.stop_event = Event()
        self.running = False
        self.seen: dict[str, Any] = {}
        self.ctx: Context | None = None

    def snapshot(self) -> None:
        self.seen = {
            "str": get_resource_nowait(str, optional=True),
            "int": get_resource_nowait(int, optional=True),
            "float": get_resource_nowait(float, optional=True),
        }

    async def __call__(self) -> None:
        self.running = True
        self.ctx = current_context()
        add_teardown_callback(lambda: self.log.append(f"{self.label}:ctx-teardown"))
        try:
            await self.stop_event.wait()
            self.snapshot()
            self.log.append(f"{self.label}:stopped")
        except get_cancelled_exc_class():
            with CancelScope(shield=True):
                if self.cleanup_delay:
                    await sleep(self.cleanup_delay)

                # resources registered before the task must still be usable here
                self.snapshot()
                self.log.append(f"{self.label}:cancelled")

            raise
        finally:
            self.running = False


async def test_interleaved_registrations_root_context() -> None:
    log: list[str] = []
    s1 = Service(log, "s1", cleanup_delay=0.05)
    s2 = Service(log, "s2")
    s3 = Service(log, "s3", cleanup_delay=0.02)
    action_calls: list[str] = []

    def stop_s2() -> None:
        action_calls.append("s2")
        log.append("s2:action")
        s2.stop_event.set()

    with fail_after(5):
        async with Context() as ctx:
            add_resource("one")
            add_teardown_callback(lambda: log.append("td:str"))
            await start_service_task(s1, "s1")
            add_resource(2)
            add_teardown_callback(lambda: log.append("td:int"))
            await start_service_task(s2, "s2", teardown_action=stop_s2)
            add_resource(3.0)
            add_teardown_callback(lambda: log.append("td:float"))
            await start_service_task(s3, "s3", teardown_action="cancel")
            await sleep(0.01)
            assert s1.running and s2.running and s3.running
            assert s1.ctx is not ctx and s1.ctx is not None
            assert s1.ctx.parent is ctx

    assert not (s1.running or s2.running or s3.running)
    assert action_calls == ["s2"]
    assert log == [
        "s3:cancelled",
        "s3:ctx-teardown",
        "td:float",
        "s2:action",
        "s2:stopped",
        "s2:ctx-teardown",
        "td:int",
        "s1:cancelled",
        "s1:ctx-teardown",
        "td:str",
    ]
    # Each task saw exactly the resources that were present when it was started
    assert s1.seen == {"str": "one", "int": None, "float": None}
    assert s2.seen == {"str": "one", "int": 2, "float": None}
    assert s3.seen == {"str": "one", "int": 2, "float": 3.0}


@pytest.mark.parametrize("is_async", [False, True], ids=["sync", "async"])
@pytest.mark.parametrize("raises", [False, True], ids=["ok", "raising"])
async def test_callable_teardown_action(is_async: bool, raises: bool) -> None:
    log: list[str] = []
    service = Service(log, "svc", cleanup_delay=0.03)
    calls = 0

    def sync_action() -> None:
        nonlocal calls
        calls += 1
        log.append("action")
        if raises:
            raise RuntimeError("teardown action failed")

        service.stop_event.set()

    async def async_action() -> None:
        await sleep(0.01)
        sync_action()

    with fail_after(5):
        async with Context():
            add_resource("dep")
            add_teardown_callback(lambda: log.append("td:dep"))
            await start_service_task(
                service,
                "svc",
                teardown_action=async_action if is_async else sync_action,
            )
            add_teardown_callback(lambda: log.append("td:late"))
            await sleep(0.01)

    assert calls == 1
    assert not service.running
    outcome = "svc:cancelled" if raises else "svc:stopped"
    assert log == ["td:late", "action", outcome, "svc:ctx-teardown", "td:dep"]
    assert service.seen["str"] == "dep"


async def test_no_teardown_action_waits_for_task() -> None:
    log: list[str] = []
    finished = False

    async def ends_by_itself() -> None:
        nonlocal finished
        add_teardown_callback(lambda: log.append("task:ctx-teardown"))
        await sleep(0.1)
        assert get_resource_nowait(str) == "dep"
        finished = True
        log.append("task:done")

    with fail_after(5):
        async with Context():
            add_resource("dep")
            add_teardown_callback(lambda: log.append("td:dep"))
            await start_service_task(ends_by_itself, "self-ending", teardown_action=None)

    assert finished
    assert log == ["task:done", "task:ctx-teardown", "td:dep"]


async def test_nested_context_and_body_exception() -> None:
    log: list[str] = []
    outer = Service(log, "outer")
    inner = Service(log, "inner", cleanup_delay=0.03)

    with fail_after(5):
        async with Context():
            add_resource("root")
            add_teardown_callback(lambda: log.append("td:root"))
            await start_service_task(outer, "outer")
            with pytest.raises(KeyError):
                async with Context():
                    add_resource(7)
                    add_teardown_callback(lambda: log.append("td:nested"))
                    await start_service_task(inner, "inner")
                    await sleep(0.01)
                    raise KeyError("boom")

            # The nested context's task is gone, the root one is still there
            assert not inner.running
            assert outer.running
            assert log == ["inner:cancelled", "inner:ctx-teardown", "td:nested"]
            assert inner.seen == {"str": "root", "int": 7, "float": None}

    assert not outer.running
    assert log[3:] == ["outer:cancelled", "outer:ctx-teardown", "td:root"]


async def test_escaping_exception_takes_application_down() -> None:
    log: list[str] = []
    trigger = Event()
    bystander = Service(log, "bystander")

    async def crasher() -> NoReturn:
        await trigger.wait()
        raise LookupError("service crashed")

    with fail_after(5):
        with pytest.raises(BaseException) as exc_info:
            async with Context():
                add_teardown_callback(lambda: log.append("td:first"))
                await start_service_task(bystander, "bystander")
                await start_service_task(crasher, "crasher", teardown_action=None)
                trigger.set()
                await sleep(3)
                pytest.fail("the body should have been cancelled")

    leaves = flatten(exc_info.value)
    assert any(
        isinstance(exc, LookupError) and str(exc) == "service crashed" for exc in leaves
    )
    assert not bystander.running


async def test_start_from_teardown_callback() -> None:
    """A service task started while the context is closing is still reaped."""
    log: list[str] = []
    late = Service(log, "late", cleanup_delay=0.02)

    async def start_late() -> None:
        log.append("td:starter")
        await start_service_task(late, "late")

    with fail_after(5):
        async with Context():
            add_resource("dep")
            add_teardown_callback(lambda: log.append("td:dep"))
            add_teardown_callback(start_late)

    assert not late.running
    assert log == ["td:starter", "late:cancelled", "late:ctx-teardown", "td:dep"]


async def test_rejected_teardown_action_starts_nothing() -> None:
    started = False

    async def service() -> None:
        nonlocal started
        started = True
        await anyio.sleep_forever()

    async with Context():
        with pytest.raises(ValueError, match="teardown_action must be a callable"):
            await start_service_task(
                service,
                "bad",
                teardown_action="stop",  # type: ignore[arg-type]
            )

        await sleep(0.01)

    assert not started
