#!/usr/bin/env python3
"""Rewrite the id-keyed tables of sweep/TRIAGE.md (first operator set) from the current
sweep/survivors.jsonl.  Mutant ids change when the sweep is regenerated on a new HEAD; the
hand-made classification of the silent survivors is carried over by content (file, operator,
description).  Survivors that are new and silent are listed under "not yet classified" so that
they get read.  usage: tools/regen_triage_tables.py"""
import json
import os
import re

VERIF = os.path.dirname(os.path.dirname(os.path.abspath(__file__)))
TRIAGE = os.path.join(VERIF, "sweep", "TRIAGE.md")


def main() -> None:
    text = open(TRIAGE).read()
    head, rest = text.split("## Survivors reported by a check", 1)
    silent_part, tail = rest.split('## Notes on the "other" group', 1)
    _tbl, silent_part = silent_part.split("## Silent survivors, by reason", 1)
    # old classification by content
    cats: dict = {}
    order: list = []
    cur = None
    for line in silent_part.splitlines():
        m = re.match(r"### (.*?) \(\d+\)\s*$", line)
        if m:
            cur = m.group(1)
            order.append(cur)
            continue
        m = re.match(r"- (m\d+) (\S+?):\d+ (.*)$", line)
        if m and cur:
            cats[(m.group(2), m.group(3).strip())] = cur
    surv = [json.loads(l) for l in open(os.path.join(VERIF, "sweep", "survivors.jsonl"))]
    reported, silent = [], {}
    for r in surv:
        ch = r.get("checks") or {}
        rep = sorted(k for k, v in ch.items() if v["verdict"] == "violation")
        fn = r["file"].split("/")[-1]
        desc = f"{r['op']}: {r['desc']}"
        if rep:
            reported.append(f"| {r['id']} | {fn}:{r['line']} | {desc.replace('|', '¦')} | {', '.join(rep)} |")
        else:
            cat = cats.get((fn, desc.strip()), "not yet classified")
            silent.setdefault(cat, []).append(f"- {r['id']} {fn}:{r['line']} {desc}")
    out = [head, "## Survivors reported by a check (all judged genuine violations of the reporting property)\n\n", "| mutant | site | change | reported by |\n|---|---|---|---|\n", "\n".join(reported), "\n\n## Silent survivors, by reason\n"]
    for cat in [c for c in order if c in silent] + [c for c in silent if c not in order]:
        out.append(f"\n### {cat} ({len(silent[cat])})\n\n" + "\n".join(silent[cat]) + "\n")
    out.append('\n## Notes on the "other" group' + tail)
    open(TRIAGE, "w").write("".join(out))
    print(f"reported {len(reported)}; silent {sum(len(v) for v in silent.values())}; unclassified {len(silent.get('not yet classified', []))}")
    for l in silent.get("not yet classified", []):
        print("  ", l)


if __name__ == "__main__":
    main()
