"""
Property C18: resource_added announces every publication exactly once, on the right
context.

Model-based check: random histories of successful and failing add_resource /
add_resource_factory / get_resource / get_resource_nowait operations over a tree of
contexts (children are opened in the middle of the history), with a listener attached
to every context. The expected event log per context is computed from an independent
model and compared field by field.

This file focuses on the events announcing factory-GENERATED resources.
"""

from __future__ import annotations

import random
from collections.abc import AsyncIterator
from contextlib import AsyncExitStack, asynccontextmanager
from typing import Any

import pytest
from anyio import create_task_group, wait_all_tasks_blocked
from anyio.abc import TaskStatus

from asphalt.core import (
    AsyncResourceError,
    Context,
    ResourceConflict,
    ResourceEvent,
    ResourceNotFound,
)

pytestmark = pytest.mark.anyio


class A: ...


class B: ...


class C: ...


class D: ...


TYPES = [A, B, C, D, int, str]
NAMES = ["default", "x", "y"]
BAD_NAMES = ["", "a b", "a.b"]


class FactoryBoom(Exception):
    pass


def fields(event: ResourceEvent) -> tuple[Any, ...]:
    return (
        tuple(event.resource_types),
        event.resource_name,
        event.resource_description,
        event.is_factory,
    )


class Node:
    """A context, its listener log and its model."""

    def __init__(self, label: str, ctx: Context, parent: Node | None) -> None:
        self.label = label
        self.ctx = ctx
        self.received: list[ResourceEvent] = []
        self.expected: list[tuple[Any, ...]] = []
        if parent is None:
            self.resources: dict[tuple[type, str], bool] = {}
            self.factories: dict[tuple[type, str], dict[str, Any]] = {}
        else:
            self.resources = {
                k: gen for k, gen in parent.resources.items() if not gen
            }
            self.factories = dict(parent.factories)


class Harness:
    def __init__(self, tg: Any, stack: AsyncExitStack) -> None:
        self.tg = tg
        self.stack = stack
        self.nodes: list[Node] = []

    async def open(self, label: str, parent: Node | None) -> Node:
        ctx = Context(parent.ctx if parent else None)
        await self.stack.enter_async_context(ctx)
        node = Node(label, ctx, parent)
        await self.tg.start(self._listen, node)
        self.nodes.append(node)
        return node

    @staticmethod
    async def _listen(node: Node, *, task_status: TaskStatus[None]) -> None:
        async with node.ctx.resource_added.stream_events(
            max_queue_size=10000
        ) as stream:
            task_status.started()
            async for event in stream:
                node.received.append(event)

    async def verify(self) -> None:
        await wait_all_tasks_blocked()
        for node in self.nodes:
            got = [fields(e) for e in node.received]
            assert got == node.expected, node.label
            for event in node.received:
                assert type(event) is ResourceEvent
                assert event.source is node.ctx, node.label
                assert event.topic == "resource_added"

    # -- operations, each one updating the model ---------------------------------

    def add_resource(
        self,
        node: Node,
        value: Any,
        name: str,
        types: Any,
        description: str | None,
    ) -> None:
        if types:
            types_ = (types,) if isinstance(types, type) else tuple(types)
        else:
            types_ = (type(value),)

        if value is None or name in BAD_NAMES:
            expected_exc: type[BaseException] | None = ValueError
        elif any((t, name) in node.resources for t in types_):
            expected_exc = ResourceConflict
        else:
            expected_exc = None

        if expected_exc:
            with pytest.raises(expected_exc):
                node.ctx.add_resource(value, name, types, description=description)
        else:
            node.ctx.add_resource(value, name, types, description=description)
            for t in types_:
                node.resources[(t, name)] = False

            node.expected.append((types_, name, description, False))

    def add_factory(
        self,
        node: Node,
        kind: str,
        name: str,
        types: Any,
        description: str | None,
    ) -> None:
        info: dict[str, Any] = {"kind": kind, "calls": 0}

        def sync_factory() -> Any:
            info["calls"] += 1
            return ("generated", name, info["calls"])

        async def async_factory() -> Any:
            info["calls"] += 1
            return ("generated", name, info["calls"])

        def failing_factory() -> Any:
            info["calls"] += 1
            raise FactoryBoom

        callback = {
            "sync": sync_factory,
            "async": async_factory,
            "fail": failing_factory,
        }[kind]
        types_ = (types,) if isinstance(types, type) else tuple(types)
        if name in BAD_NAMES:
            expected_exc: type[BaseException] | None = ValueError
        elif any((t, name) in node.factories for t in types_):
            expected_exc = ResourceConflict
        else:
            expected_exc = None

        if expected_exc:
            with pytest.raises(expected_exc):
                node.ctx.add_resource_factory(
                    callback, name, types=types, description=description
                )
        else:
            node.ctx.add_resource_factory(
                callback, name, types=types, description=description
            )
            info.update(types=types_, name=name, description=description)
            for t in types_:
                node.factories[(t, name)] = info

            node.expected.append((types_, name, description, True))

    async def lookup(
        self, node: Node, type_: type, name: str, nowait: bool, optional: bool
    ) -> None:
        async def call() -> Any:
            if nowait:
                return node.ctx.get_resource_nowait(type_, name, optional=optional)
            else:
                return await node.ctx.get_resource(type_, name, optional=optional)

        key = (type_, name)
        if key in node.resources:
            # Merely returns an existing resource: no event
            assert await call() is not None
        elif key in node.factories:
            info = node.factories[key]
            calls_before = info["calls"]
            if info["kind"] == "fail":
                with pytest.raises(FactoryBoom):
                    await call()
            elif info["kind"] == "async" and nowait:
                with pytest.raises(AsyncResourceError):
                    await call()
            else:
                value = await call()
                assert value == ("generated", name, calls_before + 1)
                for t in info["types"]:
                    node.resources.setdefault((t, name), True)

                node.expected.append(
                    (info["types"], name, info["description"], False)
                )
        elif optional:
            assert await call() is None
        else:
            with pytest.raises(ResourceNotFound):
                await call()


@asynccontextmanager
async def harness() -> AsyncIterator[Harness]:
    async with create_task_group() as tg:
        try:
            async with AsyncExitStack() as stack:
                yield Harness(tg, stack)
        finally:
            # All contexts have been closed; stop the listeners
            tg.cancel_scope.cancel()


async def run_random_history(seed: int, steps: int = 120) -> None:
    rng = random.Random(seed)
    async with harness() as h:
        root = await h.open("root", None)
        open_points = {
            rng.randrange(5, 30): ("child1", "root"),
            rng.randrange(30, 50): ("grandchild", "child1"),
            rng.randrange(50, 80): ("child2", "root"),
        }
        by_label = {"root": root}
        for step in range(steps):
            if step in open_points:
                label, parent_label = open_points[step]
                if parent_label in by_label:
                    by_label[label] = await h.open(label, by_label[parent_label])

            # The most recently entered context is the current one, but resources can
            # be added to any open context in the tree
            node = rng.choice(h.nodes)
            name = rng.choice(NAMES + BAD_NAMES[: rng.randrange(0, 4)])
            description = rng.choice([None, "some description", f"step {step}"])
            op = rng.randrange(10)
            if op < 3:
                value: Any = rng.choice([A(), B(), 5, "text", None])
                types: Any = rng.choice(
                    [(), (), A, [A, B], (C, D), [int], (B, str)]
                )
                h.add_resource(node, value, name, types, description)
            elif op < 5:
                kind = rng.choice(["sync", "sync", "async", "fail"])
                types = rng.choice([A, [A, B], (C,), (C, D), [int, str], (B, D)])
                h.add_factory(node, kind, name, types, description)
            else:
                await h.lookup(
                    node,
                    rng.choice(TYPES),
                    rng.choice(NAMES),
                    nowait=rng.random() < 0.5,
                    optional=rng.random() < 0.5,
                )

            if step % 10 == 0:
                await h.verify()

        await h.verify()
        # Every context must have seen something for the run to be meaningful
        assert sum(len(n.expected) for n in h.nodes) > 10


@pytest.mark.parametrize("seed", range(100, 112))
async def test_random_histories(seed: int) -> None:
    await run_random_history(seed)


async def test_generated_resource_event_only_on_requesting_context() -> None:
    """
    A factory added to the root generates separately in each context: each first
    generation gives exactly one event on the context through which the resource was
    requested, and repeated lookups give none.
    """
    async with harness() as h:
        root = await h.open("root", None)
        h.add_factory(root, "sync", "default", (A, B), "made by factory")
        h.add_factory(root, "async", "x", (C,), None)
        child = await h.open("child", root)
        grandchild = await h.open("grandchild", child)

        await h.lookup(child, B, "default", nowait=True, optional=False)
        await h.lookup(child, A, "default", nowait=False, optional=False)
        await h.lookup(child, B, "default", nowait=True, optional=True)
        await h.verify()
        assert [fields(e) for e in child.received] == [
            ((A, B), "default", "made by factory", False)
        ]
        assert [fields(e) for e in root.received] == [
            ((A, B), "default", "made by factory", True),
            ((C,), "x", None, True),
        ]
        assert grandchild.received == []

        await h.lookup(grandchild, C, "x", nowait=True, optional=False)  # async error
        await h.lookup(grandchild, C, "x", nowait=False, optional=False)
        await h.lookup(grandchild, C, "x", nowait=True, optional=False)  # now present
        await h.lookup(root, A, "default", nowait=False, optional=False)
        await h.lookup(root, A, "default", nowait=False, optional=False)
        await h.verify()
        assert [fields(e) for e in grandchild.received] == [((C,), "x", None, False)]
        assert len(root.received) == 3
        assert len(child.received) == 1


async def test_generated_resource_partially_shadowed() -> None:
    """
    When one of the factory's types is already taken by a regular resource, the
    generation still announces itself once, carrying all the factory's types.
    """
    async with harness() as h:
        root = await h.open("root", None)
        h.add_resource(root, A(), "default", A, "plain")
        h.add_factory(root, "sync", "default", (A, B), "fact")
        await h.lookup(root, A, "default", nowait=True, optional=False)  # existing
        await h.lookup(root, B, "default", nowait=True, optional=False)  # generates
        await h.lookup(root, B, "default", nowait=False, optional=False)  # existing
        await h.verify()
        assert [fields(e) for e in root.received] == [
            ((A,), "default", "plain", False),
            ((A, B), "default", "fact", True),
            ((A, B), "default", "fact", False),
        ]


async def test_failing_calls_dispatch_nothing() -> None:
    async with harness() as h:
        root = await h.open("root", None)
        child = await h.open("child", root)
        h.add_factory(child, "fail", "default", (A,), None)
        h.add_factory(child, "async", "x", (A,), None)
        for _ in range(3):
            await h.lookup(child, A, "default", nowait=True, optional=False)
            await h.lookup(child, A, "default", nowait=False, optional=True)
            await h.lookup(child, A, "x", nowait=True, optional=True)
            await h.lookup(child, B, "x", nowait=False, optional=False)
            await h.lookup(child, B, "x", nowait=True, optional=True)

        h.add_resource(child, None, "default", (), None)
        h.add_resource(child, 1, "a b", (), None)
        h.add_factory(child, "sync", "default", (B, A), None)  # conflict on A
        h.add_factory(child, "sync", "", (B,), None)
        await h.verify()
        assert len(child.received) == 2
        assert root.received == []
