"""'Already validated' idiom: a raise inside a package callee is infeasible at a call site
when the caller has performed the identical check on the identical values before
(dominating the call), e.g.

    if cb is not None and not callable(cb): raise TypeError     # early validation
    ... insert ...
    if cb is not None: self.add_teardown_callback(cb)           # cannot raise TypeError here

and the state guard  self._ensure_state(open, closing)  called first in the caller makes
the callee's own  self._ensure_state(open, closing)  infeasible (synchronous code: the state
cannot change in between).
"""
from __future__ import annotations

import ast
import copy
from typing import Optional

from ..cfg import CFG, Node
from ..loader import FuncInfo


class _Subst(ast.NodeTransformer):
    def __init__(self, mapping: dict):
        self.mapping = mapping

    def visit_Name(self, node: ast.Name):
        if node.id in self.mapping and isinstance(node.ctx, ast.Load):
            return copy.deepcopy(self.mapping[node.id])
        return node


def arg_mapping(callee: FuncInfo, call: ast.Call, has_receiver: bool) -> Optional[dict]:
    a = callee.node.args
    pos = [x.arg for x in a.posonlyargs + a.args]
    mapping: dict = {}
    if has_receiver and pos and pos[0] in ("self", "cls"):
        recv = call.func.value if isinstance(call.func, ast.Attribute) else None
        if recv is not None:
            mapping[pos[0]] = recv
        pos = pos[1:]
    for i, arg in enumerate(call.args):
        if isinstance(arg, ast.Starred):
            return None
        if i < len(pos):
            mapping[pos[i]] = arg
    names = set(pos) | {x.arg for x in a.kwonlyargs}
    for kw in call.keywords:
        if kw.arg is None:
            return None
        if kw.arg in names:
            mapping[kw.arg] = kw.value
    # defaults for the rest
    for p in names:
        if p not in mapping:
            d = callee.param_default(p)
            if d is not None:
                mapping[p] = d
    return mapping


def subst(expr, mapping: dict):
    return _Subst(mapping).visit(copy.deepcopy(expr))


def _strip_not(expr, pol: str):
    while isinstance(expr, ast.UnaryOp) and isinstance(expr.op, ast.Not):
        expr = expr.operand
        pol = "f" if pol == "t" else "t"
    return expr, pol


_AVOID: list = []


def _side_reaches(cfg: CFG, t: Node, lab: str, target: int) -> bool:
    starts = [d for d, l in t.succ if l == lab]
    return bool(starts) and target in cfg.reach(starts, avoid=[t.id] + [x for x in _AVOID if x != target])


def implied_within(cfg: CFG, at: int, expr, pol: str, avoid: list) -> bool:
    """implied_at restricted to paths that do not pass the nodes in ``avoid`` (e.g. a loop head:
    'within one iteration')."""
    global _AVOID
    saved = _AVOID
    _AVOID = list(avoid)
    try:
        return implied_at(cfg, at, expr, pol, _dom_required=False)
    finally:
        _AVOID = saved


def implied_at(cfg: CFG, at: int, expr, pol: str, _dom_required: bool = True) -> bool:
    """Is `expr` known to have truth value `pol` ('t'/'f') whenever control reaches node `at`?
    True when a test of the same expression dominates `at` and only its `pol` side reaches `at`."""
    expr, pol = _strip_not(expr, pol)
    want = ast.unparse(expr)
    for t in cfg.live_nodes():
        if t.kind != "test":
            continue
        if _dom_required and not cfg.dominates(t.id, at):
            continue
        if not _dom_required:
            # within an iteration: the test must lie on every path from the avoided node(s) to `at`
            if not _AVOID or not all(cfg.all_paths_pass(a_, [at], [t.id]) for a_ in _AVOID):
                continue
        texpr, tp = _strip_not(t.ast, "t")
        # tp: the edge label on which `texpr` is true
        if ast.unparse(texpr) == want:
            true_lab = tp
            lab = true_lab if pol == "t" else ("f" if true_lab == "t" else "t")
            other = "f" if lab == "t" else "t"
            if _side_reaches(cfg, t, lab, at) and not _side_reaches(cfg, t, other, at):
                return True
        # conjunction: (A and B and E) false at `at`, all others known true  =>  E false
        if isinstance(texpr, ast.BoolOp) and isinstance(texpr.op, ast.And):
            for i, conj in enumerate(texpr.values):
                cexpr, cp = _strip_not(conj, "t")
                if ast.unparse(cexpr) != want:
                    continue
                # the whole And is known false at `at`?
                false_lab = "f" if tp == "t" else "t"
                if not (_side_reaches(cfg, t, false_lab, at) and not _side_reaches(cfg, t, tp, at)):
                    continue
                others_true = all(implied_at(cfg, at, o, "t") for j, o in enumerate(texpr.values) if j != i)
                if others_true:
                    # conj is false; conj == (cexpr if cp=='t' else not cexpr)
                    val = "f" if cp == "t" else "t"
                    if val == pol:
                        return True
        if isinstance(texpr, ast.BoolOp) and isinstance(texpr.op, ast.Or):
            # (A or B) false at `at`  =>  each disjunct false
            false_lab = "f" if tp == "t" else "t"
            if _side_reaches(cfg, t, false_lab, at) and not _side_reaches(cfg, t, tp, at):
                for disj in texpr.values:
                    dexpr, dp = _strip_not(disj, "t")
                    if ast.unparse(dexpr) == want:
                        val = "f" if dp == "t" else "t"
                        if val == pol:
                            return True
    return False


def controlling_tests(cfg: CFG, node: Node) -> list:
    """[(test node, label)] such that `node` is reachable from exactly the `label` side of the test."""
    out = []
    for t in cfg.live_nodes():
        if t.kind != "test":
            continue
        sides = {lab for _, lab in t.succ if lab in ("t", "f")}
        hit = [lab for lab in sides if _side_reaches(cfg, t, lab, node.id)]
        if len(hit) == 1 and len(sides) == 2:
            out.append((t, hit[0]))
    return out


def undischarged_raises(ctx, f: FuncInfo, cfg_f: CFG, at: Node, call: ast.Call, callee: FuncInfo, guard: FuncInfo | None = None, _depth: int = 0) -> list:
    """Reasons (strings) why `callee` may still raise when called at node `at` of f; raise
    sites of the callee whose controlling condition is already refuted at `at` are dropped."""
    a = ctx.a
    cfg_g = a.cfg(callee)
    mapping = arg_mapping(callee, call, has_receiver=callee.cls is not None)
    out = []
    if mapping is None:
        return a.func_may_raise(callee)[:1] or []

    def edge_ok(src: Node, dst: int, lab: str) -> bool:
        if lab == "e":
            return bool(a.node_may_raise(callee, cfg_g, src))
        return True

    for r in cfg_g.live_nodes():
        reasons = a.node_may_raise(callee, cfg_g, r)
        if not reasons:
            continue
        esc = cfg_g.reach([d for d, lab in r.succ if lab == "e"], edge_ok=edge_ok)
        if cfg_g.raise_exit not in esc:
            continue
        # 1. controlled by a condition that is refuted at the call site
        done = False
        for t, lab in controlling_tests(cfg_g, r):
            cond = subst(t.ast, mapping)
            need = "f" if lab == "t" else "t"  # for r to be unreachable the condition must have the other value
            if implied_at(cfg_f, at.id, cond, need):
                done = True
                break
        if done:
            continue
        # 2. a nested guard call identical to (or weaker than) one that dominates the call site
        if _depth < 2:
            sub_calls = [(c, cal) for c, cal in a.node_calls(callee, cfg_g, r) if cal.kind == "func"]
            if sub_calls and not (r.kind == "stmt" and isinstance(r.ast, ast.Raise)):
                all_ok = True
                for c, cal in sub_calls:
                    if not a.call_may_raise(callee, c):
                        continue
                    if not _dominating_identical_call(ctx, f, cfg_f, at, subst(c, mapping), cal.func, guard):
                        all_ok = False
                if all_ok and all(x.startswith("call ") for x in reasons):
                    continue
        out.append(f"{callee.loc(r.ast if isinstance(r.ast, ast.AST) else None)}: {reasons[0]}")
    return out


def _dominating_identical_call(ctx, f: FuncInfo, cfg_f: CFG, at: Node, call_expr: ast.Call, h: FuncInfo, guard: FuncInfo | None) -> bool:
    a = ctx.a
    want_recv = ast.unparse(call_expr.func.value) if isinstance(call_expr.func, ast.Attribute) else ""
    want_args = {ast.unparse(x) for x in call_expr.args}
    if a.func_mutations(h):
        return False  # not a pure check
    for n in cfg_f.live_nodes():
        if n.id == at.id or not cfg_f.dominates(n.id, at.id):
            continue
        for c, cal in a.node_calls(f, cfg_f, n):
            if cal.kind == "func" and cal.func is h:
                recv = ast.unparse(c.func.value) if isinstance(c.func, ast.Attribute) else ""
                args = {ast.unparse(x) for x in c.args}
                if recv != want_recv:
                    continue
                if args == want_args or (guard is not None and h is guard and args <= want_args):
                    return True
    return False


def controlling_conditions(cfg: CFG, node: Node) -> list:
    """Atomic conditions known to decide whether `node` is reached, normalised:
    [(expr, truth, test node)] with leading `not` stripped (truth flipped), a true
    conjunction split into its conjuncts and a false disjunction into its disjuncts."""
    out = []

    def add(expr, truth, t):
        while isinstance(expr, ast.UnaryOp) and isinstance(expr.op, ast.Not):
            expr, truth = expr.operand, not truth
        if isinstance(expr, ast.BoolOp) and isinstance(expr.op, ast.And) and truth:
            for v in expr.values:
                add(v, True, t)
            return
        if isinstance(expr, ast.BoolOp) and isinstance(expr.op, ast.Or) and not truth:
            for v in expr.values:
                add(v, False, t)
            return
        if isinstance(expr, ast.Compare) and len(expr.ops) == 1:
            neg = {ast.NotEq: ast.Eq, ast.IsNot: ast.Is, ast.NotIn: ast.In}
            for k, v in neg.items():
                if isinstance(expr.ops[0], k):
                    expr = ast.Compare(left=expr.left, ops=[v()], comparators=expr.comparators)
                    truth = not truth
                    break
        out.append((expr, truth, t))

    for t, lab in controlling_tests(cfg, node):
        add(t.ast, lab == "t", t)
    return out
