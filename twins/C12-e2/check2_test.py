"""
Property C12: current_context() follows strict per-task stack discipline.

This file must pass both on the unchanged source and with refactor2.diff applied
(current_context() gained an ``optional`` keyword argument; start_component() uses it).
Only the zero-argument spelling of current_context() is used here.
"""

from __future__ import annotations

import random
import sys
from typing import Any

import anyio
import pytest
from anyio import create_task_group
from anyio.lowlevel import checkpoint

from asphalt.core import (
    Component,
    Context,
    NoCurrentContext,
    add_resource,
    context_teardown,
    current_context,
    get_resource_nowait,
    start_background_task_factory,
    start_component,
    start_service_task,
)

if sys.version_info < (3, 11):
    from exceptiongroup import BaseExceptionGroup

pytestmark = pytest.mark.anyio


@pytest.fixture(params=["asyncio", "trio"])
def anyio_backend(request: pytest.FixtureRequest) -> str:
    return request.param


class Boom(Exception):
    pass


def assert_current(expected: Context | None) -> None:
    if expected is None:
        with pytest.raises(NoCurrentContext) as exc:
            current_context()

        assert str(exc.value) == "there is no active context"
    else:
        assert current_context() is expected


async def run_program(
    rng: random.Random, expected: Context | None, budget: int, log: list[str]
) -> None:
    """
    Run a random program of nested context blocks, subtasks and failures, checking
    against a model (``expected``) what the current context must be at every step.
    """
    assert_current(expected)
    for _ in range(rng.randint(1, 3)):
        if budget <= 0:
            break

        action = rng.choice(["nest", "nest", "spawn", "fail", "teardown_fail", "yield"])
        log.append(action)
        if action == "yield":
            await anyio.sleep(rng.choice([0, 0.001, 0.002]))
        elif action == "nest":
            ctx = Context()
            assert ctx.parent is expected
            async with ctx:
                await run_program(rng, ctx, budget - 1, log)
                assert_current(ctx)
        elif action == "spawn":
            # Child tasks start with the spawner's current context, and whatever they do
            # must not be visible here
            seeds = [rng.random() for _ in range(rng.randint(1, 3))]
            async with create_task_group() as tg:
                for seed in seeds:
                    tg.start_soon(
                        run_program, random.Random(seed), expected, budget - 2, log
                    )

                await checkpoint()
                assert_current(expected)
        elif action == "fail":
            with pytest.raises(Boom):
                async with Context() as ctx:
                    await run_program(rng, ctx, budget - 1, log)
                    raise Boom

        elif action == "teardown_fail":

            def callback() -> None:
                assert current_context() is ctx
                raise Boom("teardown")

            with pytest.raises(BaseExceptionGroup):
                async with Context() as ctx:
                    ctx.add_teardown_callback(callback)
                    await run_program(rng, ctx, budget - 1, log)

        assert_current(expected)


@pytest.mark.parametrize("seed", range(12))
@pytest.mark.parametrize("with_root", [False, True], ids=["bare", "rooted"])
async def test_random_programs(seed: int, with_root: bool) -> None:
    rng = random.Random(seed)
    log: list[str] = []
    assert_current(None)
    if with_root:
        async with Context() as root:
            async with create_task_group() as tg:
                for _ in range(3):
                    tg.start_soon(
                        run_program, random.Random(rng.random()), root, 5, log
                    )

            assert_current(root)
    else:
        await run_program(rng, None, 6, log)

    assert log
    assert_current(None)


async def test_cancelled_sibling_tasks() -> None:
    """Cancel a group of tasks parked at different nesting depths."""
    parked: list[tuple[int, Context]] = []
    after_cancel: list[tuple[int, Any]] = []

    async def worker(index: int, root: Context) -> None:
        async def descend(depth: int) -> None:
            async with Context() as ctx:
                try:
                    if depth:
                        await descend(depth - 1)
                    else:
                        parked.append((index, ctx))
                        await anyio.sleep_forever()
                finally:
                    # During unwinding, every level must still see itself
                    after_cancel.append((index, current_context() is ctx))

            assert current_context() is not ctx

        try:
            await descend(index)
        finally:
            after_cancel.append((index, current_context()))

    async with Context() as root:
        async with create_task_group() as tg:
            for i in range(4):
                tg.start_soon(worker, i, root)

            while len(parked) < 4:
                await anyio.sleep(0.001)

            assert current_context() is root
            tg.cancel_scope.cancel()

        assert current_context() is root

    for index in range(4):
        mine = [value for i, value in after_cancel if i == index]
        assert mine == [True] * (index + 1) + [root]

    assert_current(None)


async def test_start_component_requires_context() -> None:
    class Dummy(Component):
        pass

    with pytest.raises(
        RuntimeError, match="start_component\\(\\) requires an active Asphalt context"
    ):
        await start_component(Dummy)

    assert_current(None)


async def test_component_tree_and_tasks() -> None:
    seen: dict[str, Any] = {}

    async def service() -> None:
        seen["service.parent"] = current_context().parent
        async with Context() as nested:
            assert current_context() is nested
            await anyio.sleep_forever()

    async def background() -> None:
        seen["background.parent"] = current_context().parent
        seen["background.resource"] = get_resource_nowait(str)

    class Leaf(Component):
        async def prepare(self) -> None:
            seen["leaf.prepare"] = Context().parent

        @context_teardown
        async def start(self) -> Any:
            seen["leaf.start"] = Context().parent
            seen["leaf.current"] = current_context()
            add_resource("leaf resource")
            await start_service_task(service, "service")
            yield
            # Teardown runs as part of the exit of the context start_component() was
            # called in
            seen["leaf.teardown"] = current_context()

    class Root(Component):
        def __init__(self) -> None:
            self.add_component("leaf", Leaf)

        async def start(self) -> None:
            seen["root.start"] = Context().parent
            seen["root.current"] = current_context()
            factory = await start_background_task_factory()
            handle = await factory.start_task(background)
            await handle.wait_finished()

    async with Context() as outer:
        async with Context() as ctx:
            await start_component(Root)
            assert_current(ctx)
            assert get_resource_nowait(str) == "leaf resource"
            await checkpoint()

        assert_current(outer)

    assert seen["leaf.prepare"] is ctx
    assert seen["leaf.start"] is ctx
    assert seen["root.start"] is ctx
    assert seen["leaf.current"] is not seen["root.current"]
    assert seen["leaf.current"] is not ctx
    assert seen["service.parent"] is ctx
    # Background tasks hang off the context of the factory's own service task
    assert seen["background.parent"] is not ctx
    assert seen["background.parent"].parent is ctx
    assert seen["background.resource"] == "leaf resource"
    assert seen["leaf.teardown"] is ctx
    assert_current(None)
