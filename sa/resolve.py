"""Callee / attribute-type resolution for the package (purpose-built, fail-closed)."""
from __future__ import annotations

import ast
from dataclasses import dataclass
from typing import Optional

from .loader import ClassInfo, FuncInfo, Project, dotted, walk_own


@dataclass
class Callee:
    kind: str  # 'func' | 'class' | 'ext' | 'param' | 'extmethod' | 'unknown'
    func: Optional[FuncInfo] = None
    cls: Optional[ClassInfo] = None
    name: str = ""  # dotted external name / method name / param name
    recv: Optional[ast.AST] = None  # receiver expression for method calls
    recv_type: object = None

    def __repr__(self) -> str:
        if self.kind == "func":
            return f"func:{self.func.qualname}"
        if self.kind == "class":
            return f"class:{self.cls.name}"
        return f"{self.kind}:{self.name}"


# names too generic to be attributed to a private helper class on the strength of the name alone
_COMMON_METHOD_NAMES = {"get", "set", "add", "pop", "remove", "append", "items", "keys", "values", "update", "copy", "clear", "start", "cancel", "close", "send", "run", "wait", "format", "split", "join"}


class Resolver:
    def __init__(self, project: Project):
        self.p = project
        self._local_types: dict = {}
        self._attr_types: dict = {}
        self._stored_names: dict = {}

    # ------------------------------------------------------------ annotations
    def ann_to_type(self, mod, ann) -> object:
        """annotation expr -> ClassInfo | 'ext:<dotted>' | None"""
        if ann is None:
            return None
        if isinstance(ann, ast.Constant) and isinstance(ann.value, str):
            try:
                ann = ast.parse(ann.value, mode="eval").body
            except SyntaxError:
                return None
        if isinstance(ann, ast.Subscript):
            base = dotted(ann.value)
            if base in ("Optional", "typing.Optional"):
                return self.ann_to_type(mod, ann.slice)
            if base in ("Union", "typing.Union") and isinstance(ann.slice, ast.Tuple):
                for e in ann.slice.elts:
                    t = self.ann_to_type(mod, e)
                    if t is not None:
                        return t
                return None
            if base in ("type", "Type", "ClassVar", "Final"):
                return None if base in ("type", "Type") else self.ann_to_type(mod, ann.slice)
            return self.ann_to_type(mod, ann.value)
        if isinstance(ann, ast.BinOp) and isinstance(ann.op, ast.BitOr):
            for e in (ann.left, ann.right):
                if isinstance(e, ast.Constant) and e.value is None:
                    continue
                t = self.ann_to_type(mod, e)
                if t is not None:
                    return t
            return None
        name = dotted(ann)
        if name is None:
            return None
        return self.name_to_type(mod, name)

    def name_to_type(self, mod, name: str) -> object:
        head = name.split(".")[0]
        if name in mod.classes:
            return mod.classes[name]
        if head in mod.imports:
            imp = mod.imports[head]
            if imp[0] == "pkg":
                s = self.p.symbol(imp[1], imp[2])
                if isinstance(s, ClassInfo):
                    return s
                if isinstance(s, tuple) and s and s[0] == "ext":
                    return "ext:" + s[1]
                return None
            if imp[0] == "ext":
                rest = name.split(".")[1:]
                return "ext:" + ".".join([imp[1]] + rest)
        if name in self.p.classes:  # TYPE_CHECKING imports etc.
            return self.p.classes[name]
        if name in ("dict", "list", "set", "tuple", "frozenset", "str", "bytes", "int", "float", "bool"):
            return "ext:builtins." + name
        return None

    # ------------------------------------------------------------ attribute types
    def attr_type(self, ci: ClassInfo, attr: str) -> object:
        key = (id(ci), attr)
        if key in self._attr_types:
            return self._attr_types[key]
        self._attr_types[key] = None
        res = None
        for c in self.p.mro(ci):
            if attr in c.annotations:
                res = self.ann_to_type(c.module, c.annotations[attr])
                if res is not None:
                    break
            if attr in c.assigns and not (isinstance(c.assigns[attr], ast.Call) and dotted(c.assigns[attr].func) in ("field", "dataclasses.field")):
                res = self.expr_type_in_module(c.module, c.assigns[attr])
                if res is not None:
                    break
            # self.attr: T = ... / self.attr = Class(...) in any method
            for m in c.methods.values():
                for n in walk_own(m.node):
                    if isinstance(n, ast.AnnAssign) and self._is_self_attr(n.target, attr):
                        res = self.ann_to_type(c.module, n.annotation)
                    elif isinstance(n, ast.Assign):
                        for t in n.targets:
                            if self._is_self_attr(t, attr):
                                r = self.expr_type(m, n.value)
                                if r is not None:
                                    res = r
                    elif isinstance(n, (ast.With, ast.AsyncWith)):
                        for it in n.items:
                            if it.optional_vars is not None and self._is_self_attr(it.optional_vars, attr):
                                r = self.cm_as_type(m, it.context_expr)
                                if r is not None:
                                    res = r
                    if res is not None:
                        break
                if res is not None:
                    break
            if res is not None:
                break
        self._attr_types[key] = res
        return res

    @staticmethod
    def _is_self_attr(t, attr) -> bool:
        return isinstance(t, ast.Attribute) and t.attr == attr and isinstance(t.value, ast.Name) and t.value.id == "self"

    def cm_as_type(self, func, ctx_expr) -> object:
        t = self.expr_type(func, ctx_expr)
        if t == "ext:anyio.create_task_group":
            return "ext:anyio.abc.TaskGroup"
        return t

    def expr_type_in_module(self, mod, expr) -> object:
        if isinstance(expr, ast.Call):
            f = expr.func
            if isinstance(f, ast.Subscript):
                f = f.value
            name = dotted(f)
            if name:
                return self.name_to_type(mod, name)
        return None

    # ------------------------------------------------------------ local var types
    def local_types(self, func: FuncInfo) -> dict:
        key = id(func)
        if key in self._local_types:
            return self._local_types[key]
        types: dict = {}
        self._local_types[key] = types
        if not func.is_lambda:
            for p in func.params:
                t = self.ann_to_type(func.module, func.param_annotation(p))
                if t is not None:
                    types[p] = t
        for n in walk_own(func.node):
            if isinstance(n, ast.Assign) and len(n.targets) == 1 and isinstance(n.targets[0], ast.Name):
                t = self.expr_type(func, n.value)
                if t is not None and n.targets[0].id not in types:
                    types[n.targets[0].id] = t
            elif isinstance(n, ast.Assign):
                for tg in n.targets:
                    if isinstance(tg, ast.Name):
                        t = self.expr_type(func, n.value)
                        if t is not None and tg.id not in types:
                            types[tg.id] = t
            elif isinstance(n, ast.AnnAssign) and isinstance(n.target, ast.Name):
                t = self.ann_to_type(func.module, n.annotation)
                if t is None and n.value is not None:
                    t = self.expr_type(func, n.value)
                if t is not None:
                    types[n.target.id] = t
            elif isinstance(n, ast.NamedExpr) and isinstance(n.target, ast.Name):
                t = self.expr_type(func, n.value)
                if t is not None:
                    types.setdefault(n.target.id, t)
            elif isinstance(n, (ast.With, ast.AsyncWith)):
                for it in n.items:
                    if isinstance(it.optional_vars, ast.Name):
                        t = self.cm_as_type(func, it.context_expr)
                        if t is not None:
                            types.setdefault(it.optional_vars.id, t)
            elif isinstance(n, (ast.For, ast.AsyncFor)) and isinstance(n.target, ast.Name) and isinstance(n.iter, ast.Name):
                # element type from the iterable parameter's annotation: Sequence[Signal[T]] -> Signal
                ann = func.param_annotation(n.iter.id) if not func.is_lambda and n.iter.id in func.params else None
                if isinstance(ann, ast.Constant) and isinstance(ann.value, str):
                    try:
                        ann = ast.parse(ann.value, mode="eval").body
                    except SyntaxError:
                        ann = None
                if isinstance(ann, ast.Subscript) and (dotted(ann.value) or "").split(".")[-1] in ("Sequence", "list", "List", "Iterable", "Collection", "Iterator", "set", "Set", "frozenset", "MutableSequence"):
                    t = self.ann_to_type(func.module, ann.slice)
                    if t is not None:
                        types.setdefault(n.target.id, t)
        return types

    def lookup_name_type(self, func: FuncInfo, name: str) -> object:
        f = func
        while f is not None:
            if name == "self" and f.cls is not None and not f.is_lambda and f.params and f.params[0] == "self":
                return f.cls
            lt = self.local_types(f)
            if name in lt:
                return lt[name]
            if not f.is_lambda and name in f.params:
                return None
            f = f.parent
        return None

    def expr_type(self, func: FuncInfo, expr) -> object:
        """-> ClassInfo | 'ext:<dotted>' | None"""
        if isinstance(expr, ast.Await):
            return self.expr_type(func, expr.value)
        if isinstance(expr, ast.Name):
            return self.lookup_name_type(func, expr.id)
        if isinstance(expr, ast.Attribute):
            bt = self.expr_type(func, expr.value)
            if isinstance(bt, ClassInfo):
                return self.attr_type(bt, expr.attr)
            return None
        if isinstance(expr, ast.Call):
            c = self.resolve_call(func, expr)
            if c.kind == "class":
                return c.cls
            if c.kind == "func":
                if c.func.name == "__init__":
                    return None
                return self.ann_to_type(c.func.module, getattr(c.func.node, "returns", None))
            if c.kind == "ext":
                return "ext:" + c.name
            return None
        if isinstance(expr, ast.IfExp):
            return self.expr_type(func, expr.body) or self.expr_type(func, expr.orelse)
        if isinstance(expr, ast.BoolOp):
            for v in expr.values:
                t = self.expr_type(func, v)
                if t is not None:
                    return t
        return None

    # ------------------------------------------------------------ calls
    def resolve_name(self, func: FuncInfo, name: str):
        """Name in function scope -> FuncInfo | ClassInfo | ('ext', dotted) | ('param', name) | ('local', name) | None"""
        f = func
        while f is not None:
            if name in f.nested:
                return f.nested[name]
            if name in f.params:
                return ("param", name)
            if name in self._stored(f):
                return ("local", name)
            f = f.parent
        mod = func.module
        if name in mod.functions:
            return mod.functions[name]
        if name in mod.classes:
            return mod.classes[name]
        if name in mod.imports:
            imp = mod.imports[name]
            if imp[0] == "pkg":
                s = self.p.symbol(imp[1], imp[2])
                if s is None:
                    return ("ext", f"asphalt.core.{imp[1]}.{imp[2]}")
                if isinstance(s, tuple) and s[0] == "assign":
                    return ("global", s[1].name, s[2])
                return s
            if imp[0] == "ext":
                return ("ext", imp[1])
            return None
        if name in mod.assigns:
            return ("global", mod.name, name)
        return ("ext", "builtins." + name)

    def _stored(self, f: FuncInfo) -> set:
        key = id(f)
        st = self._stored_names.get(key)
        if st is None:
            st = {n.id for n in walk_own(f.node) if isinstance(n, ast.Name) and isinstance(n.ctx, ast.Store)}
            self._stored_names[key] = st
        return st

    def resolve_call(self, func: FuncInfo, call: ast.Call) -> Callee:
        f = call.func
        if isinstance(f, ast.Subscript):  # create_memory_object_stream[T](n)
            f = f.value
        if isinstance(f, ast.Call):  # cast(...)(args)
            inner = self.resolve_call(func, f)
            if inner.kind == "ext" and inner.name.endswith("cast") and len(f.args) == 2:
                return self._resolve_callable_expr(func, f.args[1])
            return Callee("unknown", name=ast.unparse(call.func))
        return self._resolve_callable_expr(func, f)

    def _resolve_callable_expr(self, func: FuncInfo, f) -> Callee:
        if isinstance(f, ast.Name):
            r = self.resolve_name(func, f.id)
            if isinstance(r, FuncInfo):
                return Callee("func", func=r)
            if isinstance(r, ClassInfo):
                return Callee("class", cls=r, func=self.p.method(r, "__init__"))
            if isinstance(r, tuple):
                if r[0] == "ext":
                    return Callee("ext", name=r[1])
                if r[0] == "param":
                    return Callee("param", name=r[1])
                if r[0] == "local":
                    return Callee("local", name=r[1])
                if r[0] == "global":
                    return Callee("global", name=r[2])
            return Callee("unknown", name=f.id)
        if isinstance(f, ast.Attribute):
            # super().m(...)
            if isinstance(f.value, ast.Call) and isinstance(f.value.func, ast.Name) and f.value.func.id == "super":
                oc = func.owner_class
                if oc is not None:
                    for c in self.p.mro(oc)[1:]:
                        if f.attr in c.methods:
                            return Callee("func", func=c.methods[f.attr], recv=f.value)
                    return Callee("ext", name=f"super.{f.attr}", recv=f.value)
            rt = self.expr_type(func, f.value)
            if isinstance(rt, ClassInfo):
                m = self.p.method(rt, f.attr)
                if m is not None:
                    return Callee("func", func=m, recv=f.value, recv_type=rt)
                at = self.attr_type(rt, f.attr)
                return Callee("attrcall", name=f.attr, recv=f.value, recv_type=rt)
            if isinstance(rt, str):
                return Callee("extmethod", name=f"{rt[4:]}.{f.attr}", recv=f.value, recv_type=rt)
            # module attribute: anyio.run, weakref.ref, sys.exit
            d = dotted(f)
            if d is not None:
                head = d.split(".")[0]
                r = self.resolve_name(func, head)
                if isinstance(r, tuple) and r[0] == "ext" and not r[1].startswith("builtins."):
                    return Callee("ext", name=".".join([r[1]] + d.split(".")[1:]))
                if isinstance(r, ClassInfo):
                    # Class.method / Class.attr
                    rest = d.split(".")[1:]
                    if len(rest) == 1:
                        m = self.p.method(r, rest[0])
                        if m is not None:
                            return Callee("func", func=m, recv=f.value, recv_type=r)
            # receiver of unknown type: a *private* method name that exactly one class of the
            # package defines can only be that method (private names are not part of anybody
            # else's interface)
            private_owner_only = [ci for ci in self.p.classes.values() if f.attr in ci.methods]
            if not f.attr.startswith("__") and (f.attr.startswith("_") or (private_owner_only and all(ci.name.startswith("_") for ci in private_owner_only) and f.attr not in _COMMON_METHOD_NAMES)):
                owners = [ci for ci in self.p.classes.values() if f.attr in ci.methods]
                roots = [ci for ci in owners if not any(o is not ci and self.p.is_subclass(ci, o.name) for o in owners)]
                if len(roots) == 1:
                    return Callee("func", func=roots[0].methods[f.attr], recv=f.value, recv_type=roots[0])
            return Callee("method", name=f.attr, recv=f.value)
        if isinstance(f, ast.Lambda):
            return Callee("func", func=self.p.lambda_info(func, f))
        return Callee("unknown", name=ast.unparse(f))
