"""
Behaviour checks for refactoring 1 (guard clause in ``Context.__init__``, conditional
expression in ``ComponentContext.__init__``).

Everything here goes through the public API only, and passes both on the unchanged
source and with the refactoring applied.
"""

from __future__ import annotations

import pytest

from asphalt.core import (
    Component,
    Context,
    NoCurrentContext,
    ResourceNotFound,
    add_resource,
    add_resource_factory,
    current_context,
    get_resource,
    get_resource_nowait,
    get_resources,
    start_component,
)

pytestmark = pytest.mark.anyio()


class TestContextInit:
    async def test_root_context_has_no_parent_and_is_empty(self) -> None:
        ctx = Context()
        assert ctx.parent is None
        assert not ctx.closed
        assert ctx.get_resources(int) == {}
        async with ctx:
            assert ctx.parent is None
            assert current_context() is ctx
            assert get_resources(int) == {}

    async def test_explicit_none_parent_falls_back_to_current_context(self) -> None:
        async with Context() as root:
            child = Context(None)
            assert child.parent is root
            assert Context(parent=None).parent is root

    async def test_implicit_parent_is_the_current_context(self) -> None:
        async with Context() as root:
            async with Context() as child:
                assert child.parent is root
                async with Context() as grandchild:
                    assert grandchild.parent is child
                    assert grandchild.parent.parent is root

                assert current_context() is child

            assert current_context() is root

    async def test_explicit_parent_overrides_current_context(self) -> None:
        async with Context() as root:
            root.add_resource(1)
            async with Context() as first:
                first.add_resource("first", "only_in_first")
                async with Context(root) as second:
                    assert second.parent is root
                    assert second.get_resource_nowait(int) == 1
                    with pytest.raises(ResourceNotFound):
                        second.get_resource_nowait(str, "only_in_first")

    async def test_unentered_parent_has_no_task_group(self) -> None:
        # A root context only gets a task group once it's been entered, so it cannot be
        # used as a parent before that
        orphan = Context()
        with pytest.raises(AttributeError, match="_task_group"):
            Context(orphan)

    async def test_non_context_parent(self) -> None:
        with pytest.raises(AttributeError, match="'str' object has no attribute"):
            Context("bogus")  # type: ignore[arg-type]

    async def test_resources_copied_not_shared(self) -> None:
        async with Context() as root:
            root.add_resource(1, "one")
            async with Context() as child:
                # Inherited at construction time
                assert child.get_resources(int) == {"one": 1}
                # Additions on either side after that are not seen by the other
                root.add_resource(2, "two")
                child.add_resource(3, "three")
                assert child.get_resources(int) == {"one": 1, "three": 3}
                assert root.get_resources(int) == {"one": 1, "two": 2}

            # A context created later sees the newer resource too
            async with Context() as later:
                assert later.get_resources(int) == {"one": 1, "two": 2}

    async def test_generated_resources_not_inherited_but_factories_are(self) -> None:
        calls: list[Context] = []

        def factory() -> float:
            calls.append(current_context())
            return float(len(calls))

        async with Context() as root:
            root.add_resource_factory(factory)
            root.add_resource("plain")
            assert root.get_resource_nowait(float) == 1.0
            assert root.get_resources(float) == {"default": 1.0}
            async with Context() as child:
                # The generated resource in the parent stays there...
                assert child.get_resources(float) == {}
                assert child.get_resources(str) == {"default": "plain"}
                # ...but the factory came along, and generates a new one here
                assert await child.get_resource(float) == 2.0
                assert child.get_resources(float) == {"default": 2.0}
                # Factories added to the child don't leak into the parent
                child.add_resource_factory(lambda: 7, "seven", types=[int])
                assert child.get_resource_nowait(int, "seven") == 7
                with pytest.raises(ResourceNotFound):
                    root.get_resource_nowait(int, "seven")

            assert root.get_resource_nowait(float) == 1.0
            assert calls[0] is root and len(calls) == 2 and calls[1] is not root

    async def test_child_shares_the_root_task_group(self) -> None:
        results: list[str] = []

        async def service() -> None:
            results.append("ran")

        async with Context():
            async with Context() as child:
                await child.start_service_task(service, "svc")

        assert results == ["ran"]

    async def test_no_context_after_exit(self) -> None:
        async with Context():
            pass

        with pytest.raises(NoCurrentContext):
            current_context()

        assert Context().parent is None


class TestComponentContextInit:
    async def test_requires_active_context(self) -> None:
        with pytest.raises(
            RuntimeError, match="start_component\\(\\) requires an active Asphalt"
        ):
            await start_component(Component)

    async def test_component_context_publishes_in_enclosing_context(self) -> None:
        seen: dict[str, object] = {}

        class Leaf(Component):
            async def start(self) -> None:
                ctx = current_context()
                seen["leaf_ctx"] = ctx
                seen["leaf_parent"] = ctx.parent
                add_resource("from leaf", "leaf")
                # A plain context created here must not get the component context as
                # its parent
                inner = Context()
                seen["inner_parent"] = inner.parent
                async with inner:
                    seen["inner_sees"] = get_resource_nowait(str, "leaf")

        async with Context() as root:
            component = await start_component(Leaf)
            assert isinstance(component, Leaf)
            assert root.get_resource_nowait(str, "leaf") == "from leaf"
            assert current_context() is root

        leaf_ctx = seen["leaf_ctx"]
        assert isinstance(leaf_ctx, Context)
        assert leaf_ctx is not root
        assert seen["leaf_parent"] is root
        assert seen["inner_parent"] is root
        assert seen["inner_sees"] == "from leaf"
        assert leaf_ctx.closed

    async def test_nested_start_component_unwraps_component_context(self) -> None:
        seen: dict[str, object] = {}

        class Inner(Component):
            async def start(self) -> None:
                seen["inner_ctx"] = current_context()
                seen["inner_parent"] = current_context().parent
                add_resource(42, "answer")

        class Outer(Component):
            async def start(self) -> None:
                seen["outer_ctx"] = current_context()
                await start_component(Inner)
                # Published straight into the outermost regular context
                seen["answer"] = get_resource_nowait(int, "answer")
                seen["current_after"] = current_context()

        async with Context() as root:
            await start_component(Outer)
            assert root.get_resources(int) == {"answer": 42}

        assert seen["inner_ctx"] is not seen["outer_ctx"]
        assert seen["inner_parent"] is root
        assert seen["answer"] == 42
        assert seen["current_after"] is seen["outer_ctx"]

    async def test_child_components_share_enclosing_context(self) -> None:
        parents: list[Context | None] = []

        class Provider(Component):
            async def start(self) -> None:
                parents.append(current_context().parent)
                add_resource_factory(lambda: b"bytes", types=[bytes])
                add_resource(1.5)

        class Consumer(Component):
            async def start(self) -> None:
                parents.append(current_context().parent)
                # Waits until the provider has added the resource
                self.value = await get_resource(float)
                self.generated = await get_resource(bytes)

        class Parent(Component):
            def __init__(self) -> None:
                self.add_component("consumer", Consumer)
                self.add_component("provider", Provider)

            async def start(self) -> None:
                parents.append(current_context().parent)
                assert get_resource_nowait(float) == 1.5

        async with Context() as root:
            await start_component(Parent)
            assert root.get_resource_nowait(float) == 1.5
            assert root.get_resources(bytes) == {"default": b"bytes"}

        assert parents == [root, root, root]
