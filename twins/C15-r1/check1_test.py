"""
Behaviour check for refactoring 1 (run() result -> exit code helper in _runner.py).

Exercises property C15 through the public API only: for every class of value returned
(or exception raised) by CLIApplicationComponent.run(), the teardown callbacks of the
whole component tree run exactly once, in reverse registration order, before
run_application() returns/raises, and the outcome is the documented one.
"""

from __future__ import annotations

import warnings
from typing import Any

import pytest
from anyio import sleep

from asphalt.core import (
    CLIApplicationComponent,
    Component,
    add_teardown_callback,
    run_application,
)

BACKENDS = ["asyncio", "trio"]


class Recorder:
    def __init__(self) -> None:
        self.registered: list[str] = []
        self.torn_down: list[str] = []
        self.passed_exceptions: dict[str, BaseException | None] = {}

    def register(self, label: str) -> None:
        """Register sync, async and exception-receiving callbacks for ``label``."""

        def sync_callback() -> None:
            self.torn_down.append(f"{label}.sync")

        async def async_callback() -> None:
            await sleep(0)
            self.torn_down.append(f"{label}.async")

        def exc_callback(exc: BaseException | None) -> None:
            self.torn_down.append(f"{label}.exc")
            self.passed_exceptions[label] = exc

        for suffix, callback, pass_exception in (
            ("sync", sync_callback, False),
            ("async", async_callback, False),
            ("exc", exc_callback, True),
        ):
            add_teardown_callback(callback, pass_exception)
            self.registered.append(f"{label}.{suffix}")

    def assert_torn_down_once_in_reverse(self) -> None:
        assert self.registered, "nothing was registered"
        assert self.torn_down == list(reversed(self.registered))
        assert len(set(self.torn_down)) == len(self.torn_down)


recorder = Recorder()


@pytest.fixture(autouse=True)
def fresh_recorder() -> None:
    global recorder
    recorder = Recorder()


class Leaf(Component):
    def __init__(self, label: str) -> None:
        self.label = label

    async def start(self) -> None:
        recorder.register(self.label)
        await sleep(0)
        recorder.register(self.label + "-late")


class CliRoot(CLIApplicationComponent):
    def __init__(self, result: Any = None, raises: BaseException | None = None):
        super().__init__()
        self.result = result
        self.raises = raises
        self.add_component("one", Leaf, label="one")
        self.add_component("two", Leaf, label="two")

    async def start(self) -> None:
        recorder.register("root")

    async def run(self) -> Any:
        # The application is up: nothing may have been torn down yet
        assert recorder.torn_down == []
        await sleep(0)
        if self.raises is not None:
            raise self.raises

        return self.result


def outcome(config: dict[str, Any], backend: str) -> tuple[str, Any]:
    try:
        run_application(CliRoot, config, backend=backend, logging=None)
    except SystemExit as exc:
        return "exit", exc.code
    except BaseException as exc:
        return "raise", exc

    return "return", None


@pytest.mark.parametrize("backend", BACKENDS)
@pytest.mark.parametrize("result", [None, 0, False], ids=["none", "zero", "false"])
def test_status_zero_is_plain_return(backend: str, result: Any) -> None:
    with warnings.catch_warnings():
        warnings.simplefilter("error")
        assert outcome({"result": result}, backend) == ("return", None)

    recorder.assert_torn_down_once_in_reverse()
    assert set(recorder.passed_exceptions.values()) == {None}


@pytest.mark.parametrize("backend", BACKENDS)
@pytest.mark.parametrize("result", [1, 2, 20, 126, 127, True])
def test_valid_nonzero_status(backend: str, result: int) -> None:
    with warnings.catch_warnings():
        warnings.simplefilter("error")
        kind, code = outcome({"result": result}, backend)

    assert kind == "exit"
    assert code == result and type(code) is type(result)
    recorder.assert_torn_down_once_in_reverse()
    assert set(recorder.passed_exceptions.values()) == {None}


@pytest.mark.parametrize("backend", BACKENDS)
@pytest.mark.parametrize("result", [128, 255, 100000, -1, -128])
def test_out_of_range_status(backend: str, result: int) -> None:
    with pytest.warns(UserWarning) as record:
        assert outcome({"result": result}, backend) == ("exit", 1)

    messages = [str(w.message) for w in record]
    assert messages == [f"exit code out of range: {result}"]
    recorder.assert_torn_down_once_in_reverse()
    assert set(recorder.passed_exceptions.values()) == {None}


@pytest.mark.parametrize("backend", BACKENDS)
@pytest.mark.parametrize(
    "result, type_name",
    [
        ("foo", "str"),
        (1.0, "float"),
        (0.0, "float"),
        ("", "str"),
        ([], "list"),
        (b"\x00", "bytes"),
    ],
    ids=["str", "float", "zero-float", "empty-str", "empty-list", "bytes"],
)
def test_non_integer_result(backend: str, result: Any, type_name: str) -> None:
    with pytest.warns(UserWarning) as record:
        assert outcome({"result": result}, backend) == ("exit", 1)

    messages = [str(w.message) for w in record]
    assert messages == [f"run() must return an integer or None, not {type_name}"]
    recorder.assert_torn_down_once_in_reverse()
    assert set(recorder.passed_exceptions.values()) == {None}


@pytest.mark.parametrize("backend", BACKENDS)
@pytest.mark.parametrize("result", [128, "foo"], ids=["range", "type"])
def test_warning_turned_into_error_still_tears_down(backend: str, result: Any) -> None:
    """With -W error the warning is raised inside the root context block."""
    with warnings.catch_warnings():
        warnings.simplefilter("error")
        kind, exc = outcome({"result": result}, backend)

    assert kind == "raise"
    assert isinstance(exc, UserWarning)
    recorder.assert_torn_down_once_in_reverse()
    assert set(recorder.passed_exceptions.values()) == {exc}


@pytest.mark.parametrize("backend", BACKENDS)
def test_run_raises(backend: str) -> None:
    error = RuntimeError("run() blew up")
    kind, exc = outcome({"raises": error}, backend)
    assert kind == "raise"
    assert exc is error
    recorder.assert_torn_down_once_in_reverse()
    assert set(recorder.passed_exceptions.values()) == {error}
