"""C17 - merge_config is a pure, right-biased deep merge."""
from __future__ import annotations

import ast

from ..cfg import iter_own
from ..loader import AnalysisError, FuncInfo, walk_own
from ..ownership import BORROWED, FRESH, NAMES, SHALLOW, Ownership
from .common import call_name, def_use_closure, find_assign_sources, names_in


def merge_func(ctx) -> FuncInfo:
    f = ctx.p.public("merge_config")
    if not isinstance(f, FuncInfo):
        raise AnalysisError("anchor-missing merge_config")
    if len(f.params) < 2:
        raise AnalysisError("anchor-missing merge_config(original, overrides) parameters")
    return f


def _is_copy_of(expr, p0: str) -> bool:
    """dict(p0) / p0.copy() / {**p0} / {k: v for k, v in p0.items()} / dict(p0 or {}) / copy.copy(p0)"""
    if isinstance(expr, ast.Call):
        if call_name(expr) in ("dict", "copy", "OrderedDict") and len(expr.args) == 1:
            a0 = expr.args[0]
            if isinstance(a0, ast.Name) and a0.id == p0:
                return True
            if isinstance(a0, ast.BoolOp) and isinstance(a0.op, ast.Or) and isinstance(a0.values[0], ast.Name) and a0.values[0].id == p0:
                return True
        if isinstance(expr.func, ast.Attribute) and expr.func.attr == "copy" and isinstance(expr.func.value, ast.Name) and expr.func.value.id == p0 and not expr.args:
            return True
    if isinstance(expr, ast.Dict) and len(expr.keys) == 1 and expr.keys[0] is None and isinstance(expr.values[0], ast.Name) and expr.values[0].id == p0:
        return True
    if isinstance(expr, ast.DictComp) and len(expr.generators) == 1:
        g = expr.generators[0]
        if isinstance(g.iter, ast.Call) and isinstance(g.iter.func, ast.Attribute) and g.iter.func.attr == "items" and isinstance(g.iter.func.value, ast.Name) and g.iter.func.value.id == p0 and not g.ifs:
            if isinstance(g.target, ast.Tuple) and len(g.target.elts) == 2 and ast.unparse(expr.key) == ast.unparse(g.target.elts[0]) and ast.unparse(expr.value) == ast.unparse(g.target.elts[1]):
                return True
    return False


def _is_empty_dict(expr) -> bool:
    return (isinstance(expr, ast.Dict) and not expr.keys) or (isinstance(expr, ast.Call) and call_name(expr) == "dict" and not expr.args and not expr.keywords)


def _none_safe_copy(expr, p0: str) -> bool:
    """copy of p0 that also works for None: dict(p0 or {})"""
    if isinstance(expr, ast.Call) and call_name(expr) == "dict" and len(expr.args) == 1:
        a0 = expr.args[0]
        return isinstance(a0, ast.BoolOp) and isinstance(a0.op, ast.Or) and len(a0.values) == 2 and _is_empty_dict(a0.values[1])
    return False


def _truthy_test_of(test, name: str):
    """'pos' if test is true when name is truthy/not None, 'neg' if true when falsy/None, else None"""
    if isinstance(test, ast.Name) and test.id == name:
        return "pos"
    if isinstance(test, ast.UnaryOp) and isinstance(test.op, ast.Not) and isinstance(test.operand, ast.Name) and test.operand.id == name:
        return "neg"
    if isinstance(test, ast.Compare) and isinstance(test.left, ast.Name) and test.left.id == name and len(test.ops) == 1 and isinstance(test.comparators[0], ast.Constant) and test.comparators[0].value is None:
        if isinstance(test.ops[0], ast.IsNot):
            return "pos"
        if isinstance(test.ops[0], ast.Is):
            return "neg"
    return None


def run(ctx) -> None:
    rep = ctx.rep
    a = ctx.a
    f = merge_func(ctx)
    p0, p1 = f.params[0], f.params[1]
    cfg = a.cfg(f)

    # ------------------------------------------------------------ R1 purity
    own = Ownership(a)
    res = own.analyse(f, {p0: BORROWED, p1: BORROWED})
    for v in res.violations:
        rep.violate("C17.R1", v.func, v.node, f"{v.what}: merge_config modifies an argument", path=v.chain)
    if not res.violations:
        rep.hold("C17.R1", f, f.node, f"none of the {res.mutation_sites} mutation sites targets a value derived from `{p0}` or `{p1}` (both Borrowed; recursive call analysed to a fixpoint, {own.calls_followed} contexts)")
    returns = [n for n in walk_own(f.node) if isinstance(n, ast.Return)]
    if res.return_level is None or res.return_level == BORROWED:
        rep.violate("C17.R1", f, returns[0] if returns else f.node, f"the returned dictionary is {NAMES[res.return_level]}: it is (or may be) one of the arguments rather than a new dictionary")
    else:
        rep.hold("C17.R1", f, returns[0] if returns else f.node, f"every return yields a new dictionary ({NAMES[res.return_level]}; un-merged nested values are shared with the inputs, which the statement allows)")
    for note in res.notes:
        rep.note(note)
    rep.floor("C17.R1", res.mutation_sites, 2)

    # ------------------------------------------------------------ result variable
    rvars = {n.value.id for n in returns if isinstance(n.value, ast.Name)}
    if len(rvars) != 1 or len(rvars) != len({ast.unparse(n.value) for n in returns if n.value is not None}):
        rep.unrecognised("C17.R2", f, f.node, f"merge_config does not return a single result variable ({sorted(rvars)})")
        return
    R = rvars.pop()

    # ------------------------------------------------------------ R2 / R4 base of the result
    srcs = find_assign_sources(f, R)
    if not srcs:
        rep.unrecognised("C17.R2", f, f.node, f"result variable {R} is never assigned")
        return
    for src in srcs:
        if isinstance(src, ast.IfExp):
            pol = _truthy_test_of(src.test, p0)
            t_branch, f_branch = (src.body, src.orelse) if pol == "pos" else (src.orelse, src.body)
            if pol is None:
                rep.unrecognised("C17.R2", f, src, f"result base condition `{ast.unparse(src.test)}` is not a test of `{p0}`")
                continue
            rep.check("C17.R2", _is_copy_of(t_branch, p0), f, src, f"result starts as a copy of every key of `{p0}`", f"result base `{ast.unparse(t_branch)}` is not a full copy of `{p0}`: keys of the original can be missing (or the original is aliased)")
            rep.check("C17.R4", _is_empty_dict(f_branch), f, src, f"a falsy/None `{p0}` yields an empty base", f"a falsy/None `{p0}` yields `{ast.unparse(f_branch)}` instead of an empty dictionary")
        elif _none_safe_copy(src, p0) and _is_copy_of(src, p0):
            rep.hold("C17.R2", f, src, f"result starts as a copy of every key of `{p0}`")
            rep.hold("C17.R4", f, src, f"`{p0} or {{}}` makes None behave like an empty dictionary")
        elif _is_copy_of(src, p0):
            rep.hold("C17.R2", f, src, f"result starts as a copy of every key of `{p0}`")
            # None safety must come from a guard
            nodes = cfg.nodes_containing(src)
            guarded = False
            for t in cfg.live_nodes():
                if t.kind == "test" and _truthy_test_of(t.ast, p0):
                    want = "t" if _truthy_test_of(t.ast, p0) == "pos" else "f"
                    good = [d for d, lab in t.succ if lab == want]
                    bad = [d for d, lab in t.succ if lab in ("t", "f") and lab != want]
                    if nodes and all(n.id in cfg.reach(good, avoid=[t.id]) and n.id not in cfg.reach(bad, avoid=[t.id]) for n in nodes):
                        guarded = True
            rep.check("C17.R4", guarded, f, src, f"copy of `{p0}` is only taken when it is not None/falsy", f"`{ast.unparse(src)}` fails when `{p0}` is None: None does not behave like an empty dictionary")
        elif _is_empty_dict(src):
            rep.hold("C17.R4", f, src, "empty base on the falsy path")
        elif isinstance(src, ast.Name) and src.id == p0:
            rep.violate("C17.R2", f, src, f"result is bound to the argument `{p0}` itself, not to a copy")
        else:
            rep.unrecognised("C17.R2", f, src, f"unrecognised base expression `{ast.unparse(src)}` for the result")

    # ------------------------------------------------------------ the override loop
    loops = [n for n in walk_own(f.node) if isinstance(n, ast.For)]
    loop = None
    for lp in loops:
        it = lp.iter
        if isinstance(it, ast.Call) and isinstance(it.func, ast.Attribute) and it.func.attr == "items" and p1 in names_in(it.func.value):
            loop = lp
    if loop is None:
        rep.violate("C17.R2", f, f.node, f"no loop over all items of `{p1}`: keys of the overrides are not all applied")
        return
    if not (isinstance(loop.target, ast.Tuple) and len(loop.target.elts) == 2 and all(isinstance(e, ast.Name) for e in loop.target.elts)):
        rep.unrecognised("C17.R2", f, loop, "override loop does not unpack (key, value)")
        return
    K, V = loop.target.elts[0].id, loop.target.elts[1].id
    head = [n for n in cfg.live_nodes() if n.kind == "for_next" and n.ast is loop]
    it_nodes = [n for n in cfg.live_nodes() if n.kind == "for_iter" and n.ast is loop.iter]
    if not head or not it_nodes:
        rep.unrecognised("C17.R2", f, loop, "override loop is unreachable")
        return
    head = head[0]
    # R4: None-safety of the loop
    none_safe = isinstance(loop.iter.func.value, ast.BoolOp) and isinstance(loop.iter.func.value.op, ast.Or)
    if not none_safe:
        for t in cfg.live_nodes():
            if t.kind == "test" and _truthy_test_of(t.ast, p1):
                want = "t" if _truthy_test_of(t.ast, p1) == "pos" else "f"
                good = [d for d, lab in t.succ if lab == want]
                bad = [d for d, lab in t.succ if lab in ("t", "f") and lab != want]
                if it_nodes[0].id in cfg.reach(good, avoid=[t.id]) and it_nodes[0].id not in cfg.reach(bad, avoid=[t.id]):
                    none_safe = True
    rep.check("C17.R4", none_safe, f, loop, f"the loop is skipped when `{p1}` is None/falsy", f"`{p1}.items()` is evaluated even when `{p1}` is None")
    # every path through the body assigns R[K]
    stores = []
    for n, m in a.func_mutations(f):
        if m.path == (R,) and m.kind == "store" and m.depth_key:
            tgt = [t for t in m.node.targets if isinstance(t, ast.Subscript)] if isinstance(m.node, ast.Assign) else []
            if tgt and isinstance(tgt[0].slice, ast.Name) and tgt[0].slice.id == K:
                stores.append((n, m))
    body_entry = [d for d, lab in head.succ if lab == "t"]
    ok_all = bool(stores) and cfg.all_paths_pass(body_entry[0], [head.id], [n.id for n, _ in stores], edge_ok=lambda s, d, lab: lab != "e")
    rep.check("C17.R2", ok_all, f, loop, f"every path through the loop body assigns {R}[{K}]", f"some path through the override loop does not assign {R}[{K}]: that override key is lost")
    rep.floor("C17.R2", len(stores), 2)

    # ------------------------------------------------------------ R3 right bias and recursion
    rec_stores, plain_stores, other = [], [], []
    for n, m in stores:
        val = m.node.value
        if isinstance(val, ast.Call):
            c = a.callee(f, val)
            if c.kind == "func" and c.func is f:
                rec_stores.append((n, m, val))
                continue
        if isinstance(val, ast.Name) and val.id == V:
            plain_stores.append((n, m))
        else:
            other.append((n, m))
    for n, m in other:
        rep.violate("C17.R3", f, m.node, f"the value assigned for an override key is `{ast.unparse(m.node.value)}`, neither the override's value nor the recursive merge")
    if not plain_stores:
        rep.violate("C17.R3", f, loop, "no path assigns the override's value: the merge is not right-biased")
    if not rec_stores:
        rep.violate("C17.R3", f, loop, "no recursive merge for dict/dict collisions")
    for n, m, call in rec_stores:
        if len(call.args) != 2:
            rep.unrecognised("C17.R3", f, call, "recursive call does not pass two positional arguments")
            continue
        a0, a1 = call.args
        clo0 = def_use_closure(f, a0)
        first_ok = (R in clo0 or p0 in clo0) and K in clo0 and V not in names_in(a0)
        second_ok = isinstance(a1, ast.Name) and a1.id == V
        rep.check("C17.R3", first_ok and second_ok, f, call, "recursive merge receives (original's value, override's value) in that order", f"recursive merge arguments `{ast.unparse(a0)}`, `{ast.unparse(a1)}` are not (original's value, override's value): nested precedence is reversed or wrong")
        # guard: both isinstance dict tests, conjunctive
        guard = None
        for t in cfg.live_nodes():
            if t.kind == "test":
                tb = [d for d, lab in t.succ if lab == "t"]
                fb = [d for d, lab in t.succ if lab == "f"]
                if tb and n.id in cfg.reach(tb, avoid=[t.id, head.id]) and not (fb and n.id in cfg.reach(fb, avoid=[t.id, head.id])):
                    guard = t
        if guard is None:
            rep.violate("C17.R3", f, call, "recursive merge is unconditional: a dict/scalar collision would recurse into a non-dict")
            continue
        g = guard.ast
        insts = [e for e in ast.walk(g) if isinstance(e, ast.Call) and call_name(e) == "isinstance" and len(e.args) == 2]
        conj = isinstance(g, ast.BoolOp) and isinstance(g.op, ast.And) and not any(isinstance(x, ast.BoolOp) and isinstance(x.op, ast.Or) for x in ast.walk(g)) and not any(isinstance(x, ast.UnaryOp) and isinstance(x.op, ast.Not) for x in ast.walk(g))
        tested = {ast.unparse(e.args[0]) for e in insts if ast.unparse(e.args[1]) in ("dict", "Mapping", "MutableMapping")}
        both = ast.unparse(a0) in tested and V in tested
        rep.check("C17.R3", conj and both and len(insts) == 2, f, g, "recursion is taken iff both values are dictionaries (two isinstance tests, conjunctive)", f"recursion guard `{ast.unparse(g)}` is not the conjunction of isinstance(<original value>, dict) and isinstance(<override value>, dict)")
        # on the failing side the override's value is assigned
        fb = [d for d, lab in guard.succ if lab == "f"]
        ok_plain = bool(fb) and any(pn.id in cfg.reach(fb, avoid=[guard.id, head.id]) for pn, _ in plain_stores)
        rep.check("C17.R3", ok_plain, f, g, "when the guard fails the override's value is assigned", "when the recursion guard fails the override's value is not assigned")

    # ------------------------------------------------------------ R5 dotted keys are ordinary
    bad = []
    uses = 0
    for n in walk_own(f.node):
        if isinstance(n, ast.Attribute) and isinstance(n.value, ast.Name) and n.value.id == K:
            bad.append((n, f"`{K}.{n.attr}`"))
        elif isinstance(n, ast.Compare) and any(isinstance(c, ast.Name) and c.id == K for c in n.comparators) and any(isinstance(o, (ast.In, ast.NotIn)) for o in n.ops):
            bad.append((n, f"`{ast.unparse(n)}`"))
        elif isinstance(n, ast.Call) and call_name(n) in ("split", "partition", "rpartition", "str") and any(isinstance(x, ast.Name) and x.id == K for x in n.args):
            bad.append((n, f"`{ast.unparse(n)}`"))
        elif isinstance(n, ast.Name) and n.id == K and isinstance(n.ctx, ast.Load):
            uses += 1
    for n, what in bad:
        rep.violate("C17.R5", f, n, f"the key is inspected as a string ({what}): dotted keys are not ordinary keys")
    if not bad:
        rep.hold("C17.R5", f, loop, f"the {uses} uses of the key are subscripts / get arguments only")
    rep.exhaustive = True
